"""Property monitors over one execution of the real system (sysharness.RunResult).

Each monitor is a direct Python encoding of the property statement on the implementation's event
trace / saved files; none of them looks at the Lean model. They return framework.Violation objects
whose `key` classifies the failure (used to match KNOWN_FINDINGS.txt).
"""
from __future__ import annotations

from typing import Any

from framework import Violation

BG = ("inference", "training")
STEP = {"observe", "step", "affect"}
TRAIN = {"t_setup", "train", "t_teardown", "sync"}
HOOK = {"on_paused", "on_resumed"}
STATUS = {1: "active", 2: "pausing", 3: "paused", 4: "resuming", 5: "shutting_down", 6: "offline"}


def cb_class(obj: str) -> str | None:
    name = obj.split(".")[-1]
    if name in STEP:
        return "step"
    if name in TRAIN:
        return "train"
    if name in HOOK:
        return "hook"
    return None


def case_of(res, scenario) -> dict:
    return {"scenario": scenario, "schedule": res.schedule}


def read_signature(ev, lo: int, hi: int) -> str:
    """Order in which a status request (webapi events lo..hi) read the shared state: S = shutdown event,
    R = resume event, F = a thread's paused flag; repeated letters collapsed. The unchanged
    `get_current_status` reads controller-then-flags: `SRF` (`SR` / `S` when it needs no flag). A known
    finding about the status endpoint is tied to this read order, so that a status provider that reads
    differently and fails differently is reported afresh."""
    sig = ""
    for th, kind, obj, _v in ev[lo:hi + 1]:
        if th == "webapi" and kind == "read":
            c = "S" if obj == "shutdown" else "R" if obj == "resume" else "F" if obj.startswith("paused[") else "?"
            if not sig.endswith(c):
                sig += c
    return sig or "none"


def c01(res, scenario) -> list[Violation]:
    """Acknowledged pause => every background thread quiescent, clock frozen."""
    out: list[Violation] = []
    executing: dict[str, list[str]] = {t: [] for t in BG}
    window: str | None = None          # what opened the current window
    ctl_phase = "running"
    clock_paused = False
    seen: set[str] = set()

    def report(key: str, what: str) -> None:
        if key not in seen:
            seen.add(key)
            out.append(Violation(key, what, case_of(res, scenario)))

    def open_window(by: str, i: int) -> None:
        nonlocal window
        if window is None:
            window = by
        for t in BG:
            for obj in executing[t]:
                c = cb_class(obj)
                if c:
                    report(f"c01:{by}:executing:{c}",
                           f"pause acknowledged ({by}, event {i}) while {obj} is executing in the "
                           f"{t} thread")

    frozen_at: float | None = None     # system-clock value when the pause request returned
    for i, (th, kind, obj, val) in enumerate(res.events):
        if th == "control" and kind == "sysclock" and obj == "try_pause_ret" and ctl_phase == "paused":
            frozen_at = val
        elif th == "control" and kind in ("resume_call", "shutdown_call", "sysclock"):
            v = val
            if frozen_at is not None and isinstance(v, float) and v != frozen_at:
                report("c01:clock-advanced-while-paused",
                       f"the system clock read {frozen_at} when the pause request returned and {v} at "
                       f"event {i} ({kind} {obj}) with no resume or shutdown issued in between")
            if kind in ("resume_call", "shutdown_call"):
                frozen_at = None
        if th in BG:
            if kind == "cb_begin":
                if window is not None and cb_class(obj):
                    report(f"c01:{window}:begins:{cb_class(obj)}",
                           f"{obj} begins in the {th} thread (event {i}) while the system is "
                           f"acknowledged paused ({window}) and no resume/shutdown was issued")
                executing[th].append(obj)
            elif kind in ("cb_end", "cb_raise"):
                if obj in executing[th]:
                    executing[th].remove(obj)
            elif kind == "exit":
                executing[th] = []
        elif th == "control":
            if kind == "try_pause_call":
                ctl_phase = "pausing" if ctl_phase != "paused" else "paused"
            elif kind == "try_pause_ret":
                if val is True:
                    ctl_phase = "paused"
                    if not clock_paused:
                        report("c01:try_pause:clock-running",
                               f"pause request returned success (event {i}) with the system clock running")
                    open_window("try_pause", i)
                else:
                    ctl_phase = "running"
            elif kind == "save_begin":
                if ctl_phase != "shutdown":
                    open_window("save", i)
            elif kind in ("resume_call", "shutdown_call"):
                window = None
                ctl_phase = "running" if kind == "resume_call" else "shutdown"
            elif kind == "clock_pause":
                clock_paused = True
            elif kind == "clock_resume":
                if window is not None:
                    report("c01:clock-resumed-in-window",
                           f"system clock resumed (event {i}) while acknowledged paused")
                clock_paused = False
        elif th == "webapi" and kind == "http" and obj == "GET /api/status":
            status, body = val
            if status == 200 and body and body.get("status") == 3 and ctl_phase in ("pausing", "paused"):
                lo = i
                while lo > 0 and not (res.events[lo - 1][0] == "webapi" and res.events[lo - 1][1] == "http"):
                    lo -= 1
                open_window("status-" + read_signature(res.events, lo, i), i)
    return out


def c02(res, scenario) -> list[Violation]:
    """Shutdown terminates cleanly; pause/resume make progress."""
    out: list[Violation] = []
    case = case_of(res, scenario)
    if res.sched_abort and res.sched_abort.startswith("deadlock"):
        out.append(Violation("c02:deadlock", f"no thread can move: {res.sched_abort}", case))
        return out
    if res.outcome.startswith("aborted"):
        # budget exhausted: inconclusive under an unfair schedule — unless the control thread sits in
        # launch()'s final join while the shutdown event was never set: then nothing can ever end the
        # background loops (a hang, not a slow schedule)
        if res.pending_at_abort.get("control", "").startswith("join:") and \
                not any(e[1] == "set" and e[2] == "shutdown" for e in res.events):
            out.append(Violation("c02:hang-no-shutdown",
                                 f"launch() is joining {res.pending_at_abort['control'][5:]} but shutdown "
                                 f"was never signalled: the background threads can never stop", case))
        return out
    user_fault = any(e[1] in ("cb_raise", "savecond_raise") for e in res.events)
    if res.outcome.startswith("raised") and "KeyboardInterrupt" not in res.outcome and not user_fault:
        out.append(Violation(f"c02:launch-raised:{res.outcome.split(':')[1]}",
                             f"launch() did not return cleanly: {res.outcome} (no user callback raised)", case))
    if res.post.get("alive"):
        out.append(Violation("c02:thread-alive", f"launch() returned with {res.post['alive']} alive", case))
    if res.post.get("clock_paused"):
        out.append(Violation("c02:clock-left-paused",
                             "launch() returned with the global clock paused", case))
    if res.post.get("time_scale") != 1.0:
        out.append(Violation("c02:scale", f"launch() returned with time scale {res.post.get('time_scale')}", case))
    # final save after the last step / training run
    idx_final = None
    for i, (th, kind, obj, val) in enumerate(res.events):
        if th == "control" and kind == "save_begin":
            idx_final = i
    if idx_final is None:
        if res.outcome == "returned":
            out.append(Violation("c02:no-final-save", "launch() returned without a final save", case))
    else:
        for i in range(idx_final, len(res.events)):
            th, kind, obj, val = res.events[i]
            if th in BG and kind in ("cb_begin", "cb_end"):
                out.append(Violation("c02:activity-after-final-save",
                                     f"{obj} {kind} in {th} after the final save began", case))
                break
    # timed mode: a pause is acknowledged at the first attempt when every step/hook fits the time-out
    if scenario.get("timed"):
        durs = scenario.get("durations", {})
        n_inf = 3 if scenario.get("child_agent") else 2           # agent (+child), environment
        n_tr = max(1, scenario.get("trainers", 1))
        inf_path = durs.get("observe", 0.0) + durs.get("affect", 0.0) + \
            durs.get("step", 0.0) * (n_inf - 1) + n_inf * (durs.get("on_paused", 0.0) + durs.get("on_resumed", 0.0))
        tr_path = durs.get("t_setup", 0.0) + durs.get("train", 0.0) + durs.get("t_teardown", 0.0) + \
            n_tr * (durs.get("on_paused", 0.0) + durs.get("on_resumed", 0.0))
        # in-flight work, plus one 1 s wait slice of the loop guard and two loop periods
        longest = max(inf_path, tr_path) + 1.0 + 2 * scenario.get("loop_quantum", 0.25)
        if longest + 0.01 < scenario.get("pause_timeout", 60.0):
            in_tp = False
            for i, (th, kind, obj, val) in enumerate(res.events):
                if th == "control" and kind == "try_pause_call":
                    in_tp = True
                elif th == "control" and kind == "try_pause_ret":
                    in_tp = False
                elif in_tp and kind == "wait_timeout" and obj.startswith("paused["):
                    out.append(Violation(
                        "c02:first-attempt-timeout",
                        f"pause attempt timed out waiting for {obj} (event {i}) although the in-flight "
                        f"step, its hooks and one wait slice last at most {longest}s < time-out "
                        f"{scenario.get('pause_timeout')}s",
                        case))
                    break
    return out


def c03(res, scenario) -> list[Violation]:
    """A failure in any thread stops the whole system."""
    out: list[Violation] = []
    case = case_of(res, scenario)
    bg_fault = [(i, e) for i, e in enumerate(res.events) if e[0] in BG and e[1] == "cb_raise"]
    ctl_fault = [(i, e) for i, e in enumerate(res.events)
                 if e[0] == "control" and e[1] in ("cb_raise", "savecond_raise")]
    if not bg_fault and not ctl_fault:
        return out
    if res.sched_abort and res.sched_abort.startswith("deadlock"):
        out.append(Violation("c03:hang", f"system hangs after a fault: {res.sched_abort}", case))
        return out
    if res.outcome.startswith("aborted"):
        if res.pending_at_abort.get("control", "").startswith("join:") and \
                not any(e[1] == "set" and e[2] == "shutdown" for e in res.events):
            out.append(Violation("c03:hang", "after the fault launch() joins the background threads "
                                 "although shutdown was never signalled: it can never return", case))
        return out
    if res.post.get("alive"):
        out.append(Violation("c03:thread-alive", f"threads still alive: {res.post['alive']}", case))
    # teardown exactly once per interaction component if its thread was started, never otherwise
    want = 1 if any(e[1] == "spawn" and e[2] == "inference" for e in res.events) else 0
    for comp in ("agent", "env"):
        n = sum(1 for e in res.events if e[1] == "cb_begin" and e[2] == f"{comp}.teardown")
        if n != want:
            # agent.teardown raising prevents env.teardown from being called: still "teardown ran"
            raised_td = any(e[1] == "cb_raise" and e[2].endswith(".teardown") for e in res.events)
            if not (raised_td and n == 0):
                out.append(Violation("c03:teardown-count",
                                     f"{comp}.teardown ran {n} times (expected exactly "
                                     f"{'once' if want else 'never: the inference thread was not started'})", case))
    if ctl_fault and not bg_fault:
        # final save of components that raise on save also raises: accept any raise
        if not res.outcome.startswith("raised"):
            out.append(Violation("c03:not-propagated",
                                 f"control-loop exception not propagated: outcome {res.outcome}", case))
        elif not any(n in res.outcome for n in ("InjectedFault", "WeirdFault", "InjectedOSError", "KeyboardInterrupt")):
            # ... and it is the user's exception that reaches the caller (the one a later save callback raises in
            # the final save is a user exception as well), not one a handler on the way produced in its place
            out.append(Violation("c03:replaced:" + res.outcome.split(":")[1],
                                 f"a user callback raised in the control loop, but launch() raised "
                                 f"{res.outcome.split(':')[1]} in its place", case))
    # a failing teardown happens after the thread has already been told to stop
    bg_fault = [f for f in bg_fault if not f[1][2].endswith(".teardown")]
    if bg_fault:
        i0 = bg_fault[0][0]
        th0 = bg_fault[0][1][0]
        # the exception flag must be raised before teardown of that thread begins
        flag = next((i for i, e in enumerate(res.events)
                     if i > i0 and e[0] == th0 and e[1] == "set" and e[2] == f"exc[{th0}]"), None)
        td = next((i for i, e in enumerate(res.events)
                   if i > i0 and e[0] == th0 and e[1] == "cb_begin" and e[2].endswith(".teardown")), None)
        if flag is None:
            out.append(Violation("c03:no-flag", f"fault in {th0} did not raise its exception flag", case))
        elif td is not None and td < flag:
            out.append(Violation("c03:flag-after-teardown", "exception flag set after teardown began", case))
        if not any(e[0] == "control" and e[1] == "shutdown_call" for e in res.events):
            out.append(Violation("c03:no-shutdown", "no shutdown issued after a background fault", case))
        elif flag is not None:
            # the system stops *because of* the fault, not because somebody happens to send a command
            # later: once the flag is up, the control loop may finish the tick it is in and must shut
            # down in the next one - it must not keep ticking (paused or not) with a dead thread
            ticks = 0
            for i in range(flag + 1, len(res.events)):
                th, kind, obj, val = res.events[i]
                if th != "control":
                    continue
                if kind == "shutdown_call":
                    break
                if kind == "loop_sleep":
                    ticks += 1
                    if ticks >= 3:
                        out.append(Violation(
                            "c03:carries-on-with-dead-thread",
                            f"the control loop completed {ticks} ticks after {th0} had raised its exception "
                            f"flag (event {flag}) without shutting the system down", case))
                        break
    return out


def c04(res, scenario) -> list[Violation]:
    """A state saved while running is one consistent snapshot."""
    out: list[Violation] = []
    case = case_of(res, scenario)
    ev = res.events
    # running-iff-before
    phase = "running"
    stack: list[tuple[int, str]] = []
    for i, (th, kind, obj, val) in enumerate(ev):
        if th != "control":
            continue
        if kind == "try_pause_ret":
            phase = "paused" if val is True else ("paused" if phase == "paused" and val else "running")
        elif kind == "resume_call":
            phase_before = phase
            phase = "running"
        elif kind == "shutdown_call":
            phase = "shutdown"
        elif kind == "save_state_call":
            stack.append((i, phase))
        elif kind == "save_state_ret" and stack:
            i0, before = stack.pop()
            saved = any(e[0] == "control" and e[1] == "save_end" for e in ev[i0:i])
            if saved and before in ("running", "paused") and phase != before:
                out.append(Violation("c04:running-iff-before",
                                     f"system was {before} before save_state (event {i0}) and is "
                                     f"{phase} after it (event {i})", case))
    # one state, one view of the data: what a trainer sees of its data user while the state is written is what the
    # state's buffer file holds (the save of the data user hands over what the collector still held)
    i_begin = None
    for i, (th, kind, obj, val) in enumerate(ev):
        if kind == "save_begin":
            i_begin = i
        elif kind == "save_end" and i_begin is not None:
            seg = ev[i_begin:i]
            saved = [e[3] for e in seg if e[1] == "data" and e[2] == "saved_len"]
            seen = [e[3] for e in seg if e[1] == "data" and e[2] == "trainer_sees"]
            if saved and any(x != saved[-1] for x in seen):
                out.append(Violation("c04:trainer-view-differs-from-saved-buffer",
                                     f"save ending at event {i}: the buffer file holds {saved[-1]} samples, the trainers "
                                     f"saw {seen} while their state was written", case))
            i_begin = None
    # snapshot content
    for sv in res.saves:
        idx = sv["event_index"]
        # the final save is launch()'s own call of the state store: outside ControlThread.save_state
        # (a runtime save always runs inside one) and after the last action of a background thread
        open_calls = sum((e[1] == "save_state_call") - (e[1] in ("save_state_ret", "save_state_raise"))
                         for e in ev[:idx] if e[0] == "control")
        final = not any(e[0] in BG and e[1] != "exit" for e in ev[idx:]) and open_calls == 0
        files = sv["files"]
        tag = "final" if final else "runtime"
        loaded = next((e[3] for e in ev[:idx] if e[1] == "loaded_steps" and e[2] == "agent"), 0)
        steps_done = loaded + sum(1 for e in ev[:idx] if e[1] == "cb_end" and e[2] == "agent.step")
        steps_begun = loaded + sum(1 for e in ev[:idx] if e[1] == "cb_begin" and e[2] == "agent.step")
        if not final:
            # written while every background thread is quiescent: no callback of theirs is in flight
            # at any moment between the begin and the end of the save
            i_begin = max((i for i in range(idx) if ev[i][0] == "control" and ev[i][1] == "save_begin"), default=None)
            if i_begin is not None:
                inflight: dict[str, list[str]] = {t: [] for t in BG}
                for i in range(idx):
                    th, kind, obj, _v = ev[i]
                    if th in BG:
                        if kind == "cb_begin":
                            inflight[th].append(obj)
                        elif kind in ("cb_end", "cb_raise") and obj in inflight[th]:
                            inflight[th].remove(obj)
                        elif kind == "exit":
                            inflight[th] = []
                    if i >= i_begin and th in BG and kind == "cb_begin":
                        out.append(Violation(f"c04:{tag}:not-quiescent",
                                             f"{obj} begins in the {th} thread (event {i}) while a state is "
                                             f"being written (save began at event {i_begin})", case))
                        break
                    if i == i_begin:
                        busy = [(t, o) for t in BG for o in inflight[t]]
                        if busy:
                            out.append(Violation(f"c04:{tag}:not-quiescent",
                                                 f"state save begins (event {i}) while {busy[0][1]} is executing "
                                                 f"in the {busy[0][0]} thread", case))
                            break
        tag = "final" if final else "runtime"
        s_saved = files.get("interaction/agent/steps")
        if s_saved is None:
            out.append(Violation(f"c04:{tag}:missing-agent", "agent state missing in saved state", case))
            continue
        if steps_begun != steps_done and not any(e[1] == "cb_raise" for e in ev[:idx]):
            out.append(Violation(f"c04:{tag}:step-in-flight",
                                 f"state saved (event {idx}) while an agent step is in flight", case))
        if int(s_saved) != steps_begun:
            out.append(Violation(f"c04:{tag}:agent-steps",
                                 f"saved agent steps {s_saved} != steps taken {steps_begun}", case))
        buf = files.get("data/buf/buffer.pkl")
        if buf is not None and steps_begun >= 1 and not any(e[1] == "cb_raise" for e in ev[:idx]):
            # the newest collected sample must be in the saved buffer (nothing left in transit)
            if f"{steps_begun}]" not in buf.replace(" ", "").replace(",maxlen=8)", "").replace(")", ""):
                out.append(Violation(f"c04:{tag}:sample-in-transit",
                                     f"saved buffer {buf} does not end with the newest sample {steps_begun}", case))
        cnt = files.get("interaction/environment/counts")
        if cnt is not None and not any(e[1] == "cb_raise" for e in ev[:idx]):
            o, a = (int(x) for x in cnt.split(","))
            if not (o == a == int(s_saved)):
                out.append(Violation(f"c04:{tag}:env-agent-disagree",
                                     f"saved env counts {cnt} disagree with agent steps {s_saved}", case))
        for name in [k.split("/")[1] for k in files if k.startswith("trainers/") and k.endswith("/runs")]:
            runs = sum(1 for e in ev[:idx] if e[1] == "cb_begin" and e[2] == f"{name}.train")
            if int(files[f"trainers/{name}/runs"]) != runs:
                out.append(Violation(f"c04:{tag}:trainer-runs",
                                     f"saved runs of {name} != runs taken {runs}", case))
        if "time.pkl" not in files:
            out.append(Violation(f"c04:{tag}:missing-time", "time.pkl missing in saved state", case))
        elif not final:
            # the saved clock value is the (frozen) system time of the acknowledgement instant
            import re as _re
            m = _re.search(r"'scaled_anchor_time': ([0-9.e+-]+)", files["time.pkl"])
            frozen = next((e[3] for e in reversed(ev[:idx]) if e[0] == "control" and e[1] == "sysclock"
                           and e[2] == "try_pause_ret"), None)
            if m and frozen is not None and float(m.group(1)) != frozen:
                out.append(Violation(f"c04:{tag}:clock-value",
                                     f"saved clock value {m.group(1)} differs from the system time "
                                     f"{frozen!r} at which the pause was acknowledged", case))
    return out


def c09(res, scenario) -> list[Violation]:
    """Component callbacks follow a fixed protocol on their owning thread."""
    out: list[Violation] = []
    case = case_of(res, scenario)
    seen: set[str] = set()

    def report(key: str, what: str) -> None:
        if key not in seen:
            seen.add(key)
            out.append(Violation(key, what, case))

    owner = {"agent": "inference", "child": "inference", "env": "inference"}
    state: dict[str, str] = {}           # component -> new|ready|paused|down
    executing: dict[str, str | None] = {}
    thread_exec: dict[str, int] = {t: 0 for t in BG}
    flags = {t: False for t in BG}
    started = {t: False for t in BG}
    exited = {t: False for t in BG}
    for i, (th, kind, obj, val) in enumerate(res.events):
        if kind == "spawn" and obj in BG:
            started[obj] = True
        if kind == "exit" and th in BG:
            exited[th] = True
            thread_exec[th] = 0
        if kind in ("set", "clear") and obj.startswith("paused["):
            flags[obj[7:-1]] = kind == "set"
        if kind not in ("cb_begin", "cb_end", "cb_raise"):
            continue
        comp, name = obj.split(".")
        own = owner.get(comp, "training" if comp.startswith("trainer") else None)
        if own is None:
            continue
        st = state.get(comp, "new")
        if kind == "cb_begin":
            if executing.get(comp):
                report("c09:overlap", f"{obj} begins while {comp}.{executing[comp]} is executing (event {i})")
            executing[comp] = name
            if name in ("save", "load"):
                if th != "control":
                    report("c09:affinity:save", f"{obj} ran on thread {th}")
                if started[own] and not exited[own] and thread_exec[own] > 0:
                    report("c09:save-while-busy", f"{obj} while thread {own} is executing a callback (event {i})")
                continue
            if th != own:
                report("c09:affinity", f"{obj} ran on thread {th}, owner is {own} (event {i})")
            thread_exec[th] = thread_exec.get(th, 0) + 1
            if own == "inference":
                if name == "setup":
                    if st != "new":
                        report("c09:setup-twice", f"{obj} in state {st} (event {i})")
                    state[comp] = "ready"
                elif name in STEP:
                    if st != "ready":
                        report(f"c09:step-in-{st}", f"{obj} in state {st} (event {i})")
                elif name == "on_paused":
                    if st != "ready":
                        report(f"c09:paused-in-{st}", f"{obj} in state {st} (event {i})")
                    state[comp] = "paused"
                elif name == "on_resumed":
                    if st != "paused":
                        report(f"c09:resumed-in-{st}", f"{obj} in state {st} (event {i})")
                    state[comp] = "ready"
                elif name == "teardown":
                    if st == "down":
                        report("c09:teardown-twice", f"{obj} twice (event {i})")
                    state[comp] = "down"
            else:
                if name == "on_paused":
                    if st not in ("new", "ready"):
                        report(f"c09:paused-in-{st}", f"{obj} in state {st} (event {i})")
                    state[comp] = "paused"
                elif name == "on_resumed":
                    if st != "paused":
                        report(f"c09:resumed-in-{st}", f"{obj} in state {st} (event {i})")
                    state[comp] = "ready"
                elif name in TRAIN:
                    if st == "paused":
                        report("c09:train-in-paused", f"{obj} between pause and resume hooks (event {i})")
                    order = {"t_setup": "new", "train": "t_setup", "t_teardown": "train"}
                    prev = state.get(comp + ":run", "new")
                    if name in order and prev != order[name] and not (name == "t_setup" and prev in ("new", "t_teardown")):
                        report("c09:run-order", f"{obj} after {prev} (event {i})")
                    state[comp + ":run"] = name
        else:
            executing[comp] = None
            if name not in ("save", "load") and th in thread_exec:
                thread_exec[th] = max(0, thread_exec[th] - 1)
    # teardown exactly once for the interaction components of complete runs - if the inference thread was
    # started at all (an interrupt may cut the start-up short: nothing to tear down then)
    inference_started = any(e[1] == "spawn" and e[2] == "inference" for e in res.events)
    if not res.outcome.startswith("aborted") and inference_started:
        for comp in ("agent", "env"):
            if state.get(comp, "new") not in ("down",):
                raised_td = any(e[1] == "cb_raise" and e[2].endswith(".teardown") for e in res.events)
                if not raised_td:
                    report("c09:no-teardown", f"{comp} was never torn down (final state {state.get(comp, 'new')})")
    return out


def status_table(shutdown: bool, resume: bool, flags: list[bool]) -> int:
    if shutdown:
        return 5
    if not resume:
        return 3 if all(flags) else 2
    if any(flags):
        return 4
    return 1


def c17(res, scenario) -> list[Violation]:
    """Commands executed once, in order; status truthful."""
    out: list[Violation] = []
    case = case_of(res, scenario)
    ev = res.events
    accepted = [e[2] for e in ev if e[1] == "cmd_accept"]
    executed = [e[2] for e in ev if e[1] == "cmd_exec"]
    upto = accepted.index("SHUTDOWN") + 1 if "SHUTDOWN" in accepted else len(accepted)
    if executed != accepted[:len(executed)]:
        out.append(Violation("c17:order", f"executed {executed} is not a prefix of accepted {accepted}", case))
    elif "SHUTDOWN" in executed and executed.index("SHUTDOWN") != len(executed) - 1:
        out.append(Violation("c17:after-shutdown", f"commands executed after SHUTDOWN: {executed}", case))
    elif not res.outcome.startswith("aborted") and res.outcome == "returned" and \
            len(executed) < upto and not any(e[1] in ("cb_raise", "interrupt", "savecond_raise") for e in ev) \
            and scenario.get("max_uptime", "inf") == "inf":
        out.append(Violation("c17:lost", f"accepted {accepted[:upto]} but executed only {executed}", case))
    if (res.sched_abort or "").startswith("starved"):
        out.append(Violation("c17:accepted-never-executed",
                             f"the control loop went on ticking but left accepted commands in the queue - {res.sched_abort}",
                             case))
    # "executed" means carried out: every command the control thread takes off the queue is followed -
    # before it takes the next one or the tick ends - by the call that carries it out
    CALL = {"PAUSE": "try_pause_call", "RESUME": "resume_call", "SAVE_STATE": "save_state_call",
            "SHUTDOWN": "shutdown_call"}
    pending_cmd = None
    depth = 0                      # nesting of try_pause / resume / save_state / shutdown calls
    save_due = False               # the save condition came out true in this tick
    OPEN = {"try_pause_call", "resume_call", "save_state_call", "shutdown_call"}
    CLOSE = {"try_pause_ret", "resume_ret", "save_state_ret", "shutdown_ret", "try_pause_raise", "resume_raise",
             "save_state_raise", "shutdown_raise"}
    NEED = {"try_pause_call": "PAUSE", "resume_call": "RESUME", "save_state_call": "SAVE_STATE"}
    for i, (th, kind, obj, val) in enumerate(ev):
        if th != "control":
            continue
        if kind == "savecond":
            save_due = True
        elif kind == "loop_sleep":
            save_due = False
        # ... and nothing is carried out that was not accepted: a pause / resume / save at the top level of
        # the control loop answers the command just taken off the queue (a save also the save condition)
        if kind in NEED and depth == 0 and not any(e[1] == "interrupt" for e in ev[max(0, i - 3):i]):
            asked = pending_cmd is not None and pending_cmd[0] == NEED[kind]
            if not asked and not (kind == "save_state_call" and save_due):
                out.append(Violation("c17:executed-without-command",
                                     f"the control loop carried out {NEED[kind]} (event {i}) although no such command "
                                     f"had just been taken off the queue", case))
            if kind == "save_state_call" and not asked:
                save_due = False
        if kind in OPEN:
            depth += 1
        elif kind in CLOSE:
            depth = max(0, depth - 1)
        if pending_cmd is not None:
            name, j = pending_cmd
            if kind == CALL[name]:
                pending_cmd = None
            elif kind in ("cmd_exec", "loop_sleep", "uptime_check", "uptime_reached"):
                out.append(Violation("c17:dequeued-not-executed",
                                     f"{name} was taken off the queue (event {j}) but never carried out: the "
                                     f"control thread went on to {kind} {obj}".rstrip(), case))
                pending_cmd = None
            elif kind in ("interrupt", "cb_raise"):
                pending_cmd = None
        if kind == "cmd_exec" and obj in CALL:
            pending_cmd = (obj, i)
    # http codes
    routes = {("GET", "/api/status"), ("POST", "/api/pause"), ("POST", "/api/resume"),
              ("POST", "/api/shutdown"), ("POST", "/api/save-state")}
    paths = {p for _, p in routes}
    last = 0
    shutdown = False
    resume = True
    flags = {t: False for t in BG}
    hist: list[tuple[bool, bool, tuple]] = []
    for e in ev:
        th, kind, obj, val = e
        if kind in ("set", "clear"):
            if obj == "shutdown":
                shutdown = kind == "set"
            elif obj == "resume":
                resume = kind == "set"
            elif obj.startswith("paused["):
                flags[obj[7:-1]] = kind == "set"
        hist.append((shutdown, resume, tuple(flags[t] for t in BG)))
    req_start = None
    for i, (th, kind, obj, val) in enumerate(ev):
        if th != "webapi":
            continue
        if kind == "read" and req_start is None:
            req_start = i
        if kind == "http":
            method, path = obj.split(" ", 1)
            status, body = val
            if (method, path) in routes:
                if method == "GET" and status == 200:
                    reply = body.get("status")
                    lo = max(0, (req_start if req_start is not None else i) - 1)
                    ok = any(status_table(h[0], h[1], list(h[2])) == reply for h in hist[lo:i + 1])
                    if not ok:
                        seq = sorted({status_table(h[0], h[1], list(h[2])) for h in hist[lo:i + 1]})
                        # nothing changed during the request: not a matter of when the reads happened - the
                        # answer contradicts the decision table itself
                        sig = "table" if len(set(hist[lo:i + 1])) == 1 else read_signature(ev, lo, i)
                        out.append(Violation(
                            f"c17:status-{sig}:{STATUS.get(reply, reply)}-never-true",
                            f"status request (events {lo}..{i}) answered {STATUS.get(reply, reply)} but the "
                            f"flags only ever mapped to {[STATUS[s] for s in seq]} during the request", case))
                elif method == "POST" and status not in (200, 503):
                    out.append(Violation("c17:http-code", f"{obj} answered {status}", case))
                elif method == "POST":
                    # 200 = the command was put on the queue (exactly once), 503 = it was not
                    name = {"/api/pause": "PAUSE", "/api/resume": "RESUME", "/api/shutdown": "SHUTDOWN",
                            "/api/save-state": "SAVE_STATE"}[path]
                    acc = [e2[2] for e2 in ev[last:i] if e2[0] == "webapi" and e2[1] == "cmd_accept"]
                    rej = [e2[2] for e2 in ev[last:i] if e2[0] == "webapi" and e2[1] == "cmd_reject"]
                    if status == 200 and acc != [name]:
                        out.append(Violation("c17:accepted-not-queued",
                                             f"{obj} answered 200 but queued {acc or 'nothing'} "
                                             f"(an accepted command must be queued exactly once)", case))
                    if status == 503 and (acc or rej != [name]):
                        out.append(Violation("c17:rejected-but-queued",
                                             f"{obj} answered 503 but queued {acc} / rejected {rej}", case))
            else:
                want = 405 if path in paths else 404
                if path in paths and method == "HEAD":
                    want = status      # Starlette serves HEAD on GET routes (modelled as observed)
                if status != want and not (status == 307):
                    out.append(Violation("c17:http-code", f"{obj} answered {status}, expected {want}", case))
                if any(e2[1] in ("cmd_accept", "cmd_reject") for e2 in ev[last:i]):
                    out.append(Violation("c17:invalid-had-effect", f"{obj} queued a command", case))
            last = i + 1
            req_start = None
    return out


def c08(res, scenario) -> list[Violation]:
    """Runs until told to stop; the uptime limit is in system time."""
    out: list[Violation] = []
    case = case_of(res, scenario)
    ev, tm = res.events, res.times
    # (a)/(b) launch ends only for a cause; framework bookkeeping never kills a thread
    for th, kind, obj, val in ev:
        if kind == "exit" and th in BG and val not in (None, "InjectedFault", "WeirdFault", "InjectedOSError"):
            out.append(Violation(f"c08:framework-exception:{val}",
                                 f"the {th} thread died of {val}, raised by framework bookkeeping "
                                 f"(no user callback raised)", case))
    # (what launch() raises after a user callback raised in the control thread is the handler's business: with an
    # exception that cannot be formatted the launcher's own log line fails and a TypeError comes out instead -
    # the run still ended for a cause)
    user_fault = any(e[1] in ("cb_raise", "savecond_raise") for e in ev)
    if res.outcome.startswith("raised") and "InjectedFault" not in res.outcome and "WeirdFault" not in res.outcome and \
            "InjectedOSError" not in res.outcome and \
            "KeyboardInterrupt" not in res.outcome and not user_fault:
        out.append(Violation(f"c08:launch-raised:{res.outcome.split(':')[1]}",
                             f"launch() raised {res.outcome} without any user fault", case))
    if res.outcome.startswith("aborted") or not tm:
        return out
    cause = any(e[1] == "cmd_exec" and e[2] == "SHUTDOWN" for e in ev) or \
        any(e[1] in ("uptime_reached", "interrupt", "cb_raise", "savecond_raise") for e in ev) or \
        any(e[1] == "exit" and e[3] is not None for e in ev)
    if any(e[0] == "control" and e[1] == "shutdown_call" for e in ev) and not cause:
        out.append(Violation("c08:stopped-without-cause", "shutdown() was called without a SHUTDOWN "
                             "command, uptime limit, interrupt or fault", case))
    # (c) uptime window
    U = scenario.get("max_uptime", "inf")
    if scenario.get("timed") and U not in ("inf", None):
        sc = scenario.get("time_scale", 1.0)
        i_start = next((i for i, e in enumerate(ev) if e[0] == "control" and e[1] == "spawn" and e[2] == "webapi"), None)
        i_up = next((i for i, e in enumerate(ev) if e[1] == "uptime_reached"), None)
        other_stop = next((i for i, e in enumerate(ev) if e[0] == "control" and e[1] == "shutdown_call"), None)
        if i_start is not None:
            def unpaused(i_end: int) -> float:
                tot, p0 = 0.0, None
                for j in range(i_start, i_end + 1):
                    if ev[j][1] == "clock_pause" and p0 is None:
                        p0 = tm[j]
                    elif ev[j][1] == "clock_resume" and p0 is not None:
                        tot += tm[j] - p0
                        p0 = None
                if p0 is not None:
                    tot += tm[i_end] - p0
                return (tm[i_end] - tm[i_start]) - tot
            checks = [i for i, e in enumerate(ev) if e[1] in ("uptime_check", "uptime_reached") and i > i_start]
            for k, i in enumerate(checks):
                e = unpaused(i)
                reached = ev[i][1] == "uptime_reached"
                if reached != (sc * e > U + 1e-9) and abs(sc * e - U) > 1e-6:
                    out.append(Violation(
                        "c08:uptime-test", f"uptime test at event {i}: {e:.4f}s of un-paused real time at "
                        f"scale {sc} (= {sc * e:.4f}s of system time), limit {U}: test said {reached}", case))
                    break
            if i_up is not None and (other_stop is None or other_stop > i_up):
                e = unpaused(i_up)
                prev = [i for i in checks if i < i_up]
                e_prev = unpaused(prev[-1]) if prev else 0.0
                if not (U / sc - 1e-6 < e) or not (e_prev <= U / sc + 1e-6):
                    out.append(Violation(
                        "c08:uptime-window", f"uptime limit {U} at scale {sc}: shutdown at the check after "
                        f"{e:.3f}s of un-paused real time, previous check at {e_prev:.3f}s; expected the "
                        f"first check past {U / sc:.3f}s", case))
            elif i_up is None and other_stop is None:
                out.append(Violation("c08:uptime-never", "finite uptime limit never reached", case))
    return out


def c16(res, scenario) -> list[Violation]:
    """Fixed-interval interaction inside launch(): consecutive steps start at least interval - offset
    apart in system time - measured on a clock of the monitor's own: virtual real time x time scale,
    standing still between the control thread's time.pause() and time.resume()."""
    out: list[Violation] = []
    iv = scenario.get("fixed_interval")
    if not iv or not res.times:
        return out
    case = case_of(res, scenario)
    w = float(iv) - float(scenario.get("interval_offset", 0.0))
    scale, paused, sys_t, last = 1.0, False, 0.0, res.times[0]
    starts: list[tuple[float, int, bool]] = []
    ends: list[tuple[float, int]] = []        # the loop delay that follows each step's interval adjustment
    step_end: dict[int, float] = {}           # index into `ends` -> system time at which that step's body ended
    disturbed: set[int] = set()               # boundaries preceded by a pause / scale change since the previous one
    stepped = False
    dirty = False
    last_affect = None
    for i, (th, kind, obj, val) in enumerate(res.events):
        t = res.times[i]
        if not paused:
            sys_t += (t - last) * scale
        last = t
        if th == "control" and kind in ("clock_pause", "clock_resume", "try_pause_call", "clock_set_time_scale"):
            dirty = True
        if th == "control" and kind == "clock_pause":
            paused = True
        elif th == "control" and kind == "clock_resume":
            paused = False
        elif kind == "clock_set_time_scale" and val:
            scale = float(val)
        elif th == "inference" and kind == "cb_begin" and obj == "env.observe":
            starts.append((sys_t, i, paused))
            stepped = True
        elif th == "inference" and kind == "cb_end" and obj == "env.affect":
            last_affect = sys_t
        elif th == "inference" and kind == "loop_sleep" and stepped:
            if dirty:
                disturbed.add(len(ends))
            if last_affect is not None:
                step_end[len(ends)] = last_affect
            ends.append((sys_t, i))
            stepped = False
            dirty = False
    for (_a, _i, _pa), (b, j, pb) in zip(starts, starts[1:]):
        if pb:
            out.append(Violation("c16:step-while-clock-frozen",
                                 f"a step started (event {j}) while the system clock was frozen by a pause: "
                                 f"steps are not paced while the clock stands still", case))
            return out
    # The adjustor paces the *step boundaries* (the instants at which adjust() returns, observed one loop
    # delay later): consecutive boundaries are at least interval - offset apart in system time. Step
    # starts follow their boundary by the loop overhead (the loop guard, after a pause also the resume
    # hooks), which the property's wording leaves out (DESIGN 7.16: "up to the overhead terms").
    q = float(scenario.get("loop_quantum", 0.25)) * scale      # a boundary is observed one loop delay late
    for k, ((a, i), (b, j)) in enumerate(zip(ends, ends[1:]), start=1):
        if b - a < w - 1e-6:
            out.append(Violation("c16:gap",
                                 f"two consecutive step boundaries are {b - a:.6g} s apart in system time "
                                 f"(events {i}, {j}), less than interval - offset = {w:.6g} s", case))
            break
        # ... and exactly that far apart when the step itself is shorter: the boundary is not later than
        # max(previous boundary + w, end of the step's body) - unless a pause or a rate change fell in between
        if k not in disturbed and k in step_end:
            want = max(a + w, step_end[k] + q)
            if b > want + 1e-6:
                out.append(Violation("c16:late",
                                     f"step boundary at {b:.6g} (event {j}) although the previous one was at {a:.6g}, "
                                     f"interval - offset = {w:.6g} and the step's body ended at {step_end[k]:.6g}: "
                                     f"expected {want:.6g} - the step was held up by something other than its own "
                                     f"duration", case))
                break
    return out


def c18(res, scenario) -> list[Violation]:
    """State retention inside the running system: after every cleanup of the control loop exactly the
    max_keep most recently saved runtime states are left (every state the control thread saved - running or
    paused, by command or by condition - has been handed to the keeper)."""
    out: list[Violation] = []
    mk = scenario.get("keeper_max_keep")
    if mk is None or scenario.get("prelaunch") or scenario.get("archive_states"):
        return out
    case = case_of(res, scenario)
    saved: list[str] = []
    depth = 0
    for i, (th, kind, obj, val) in enumerate(res.events):
        if th != "control":
            continue
        if kind == "save_state_call":
            depth += 1
        elif kind in ("save_state_ret", "save_state_raise"):
            depth = max(0, depth - 1)
        elif kind == "save_end" and depth > 0:
            saved.append(obj)
        elif kind == "cleanup_listing":
            want = sorted(saved[len(saved) - mk:] if mk else [])
            have = sorted(val)
            if have != want:
                newest_gone = [n for n in want if n not in have]
                kept_old = [n for n in have if n not in want]
                out.append(Violation(
                    "c18:system:" + ("newest-deleted" if newest_gone else "older-kept"),
                    f"after the cleanup at event {i} the states directory holds {have}; the {mk} most recently "
                    f"saved states are {want}" + (f" - {kept_old} is older and was not deleted" if kept_old else "")
                    + (f" - {newest_gone} was deleted" if newest_gone else ""), case))
                break
    return out


ALL = {"C18": c18, "C16": c16, "C08": c08, "C01": c01, "C02": c02, "C03": c03, "C04": c04, "C09": c09, "C17": c17}
