"""Deterministic scheduler and fake concurrency primitives (DESIGN.md §4.3).

Every logical thread is a real OS thread that only runs while it holds the baton. Every operation
on a fake primitive (Event, Thread, ThreadPoolExecutor/Future, sleep, clock) and every boundary of a
harness callback is a *yield point*: the thread publishes what it wants to do next, the scheduling
decision is taken (by whichever thread is yielding) from an explicit schedule — a list of naturals,
choice = value modulo the number of enabled alternatives, alternatives ordered by thread creation
order — and the chosen thread continues up to its next yield point. Nothing else runs in between,
so a run is a deterministic function of (scenario, schedule).

Virtual time: `now` only moves when the scheduler moves it. In *timed* mode a sleep / a wait with a
time-out / a callback duration is enabled exactly at its deadline and time advances to the earliest
deadline when nothing else is enabled (discrete-event simulation). In *untimed* mode every wait with
a time-out may time out at any decision (this covers every duration relative to every time-out) and
sleeps are plain yield points.

Event semantics follow CPython: `Event.wait(timeout)` returns True if the flag is set on entry or if
the waiter was notified by `set()` while waiting — even when the flag has been cleared since.
"""
from __future__ import annotations

import random
import threading as _real_threading
from dataclasses import dataclass, field
from typing import Any, Callable


class SchedAbort(BaseException):
    """Raised inside logical threads to unwind them when a run is cut (budget, deadlock, end)."""


@dataclass
class Pending:
    kind: str
    obj: str = ""
    # returns the list of alternative labels enabled now (possibly empty)
    alts: Callable[[], list[str]] = lambda: ["go"]
    deadline: float | None = None       # virtual time at which a 'timeout'/'wake' alt becomes enabled
    weight_low: bool = False            # de-prioritised by the random policy (pure time-outs)


class LThread:
    def __init__(self, sched: "Sched", name: str, target: Callable[[], Any] | None):
        self.sched = sched
        self.name = name
        self.target = target
        self.sem = _real_threading.Semaphore(0)
        self.pending: Pending | None = None
        self.chosen: str | None = None
        self.done = False
        self.started = False
        self.exc: BaseException | None = None
        self.result: Any = None
        self.real: _real_threading.Thread | None = None
        self.notified_by: set[int] = set()      # ids of FakeEvents that notified this waiter
        self.inject: BaseException | None = None


class Sched:
    def __init__(self, schedule: list[int] | None = None, seed: int = 0, timed: bool = False,
                 budget: int = 20000, timeout_bias: float = 0.12) -> None:
        self.schedule = list(schedule or [])
        self.pos = 0
        self.rng = random.Random(seed)
        self.timed = timed
        self.budget = budget
        self.timeout_bias = timeout_bias
        self.decisions = 0
        self.taken: list[int] = []              # the full schedule actually followed (replayable)
        self.branching: list[int] = []          # number of enabled alternatives at each decision
        self.now = 0.0
        self.threads: list[LThread] = []
        self.by_ident: dict[int, LThread] = {}
        self.events: list[tuple] = []           # (thread, kind, obj, value)
        self.times: list[float] = []            # virtual time of each event
        self._aborted: str | None = None
        self.abort_index: int | None = None     # number of events logged when the run was cut
        self.pending_at_abort: dict[str, str] = {}
        self.lock = _real_threading.Lock()
        self.listeners: list[Callable[[tuple], None]] = []
        self.interrupt_at: int | None = None    # k-th yield of the control thread raises KeyboardInterrupt
        self._ctl_yields = 0
        # start-up interrupt: the control thread's yield at the spawn of this logical thread
        # ("inference" | "training" | "webapi") raises KeyboardInterrupt instead of spawning it;
        # "after:inference" | "after:training": right after the thread has been started (the statement
        # that follows `thread.start()` in the caller is never reached)
        self.boot_interrupt: str | None = None
        # scheduling points at which the random policy leaves a thread waiting most of the time (a thread
        # descheduled exactly there): every schedule remains possible, these become likely
        self.lazy: set[str] = set()
        self.eps = 1e-9

    @property
    def aborted(self) -> str | None:
        return self._aborted

    @aborted.setter
    def aborted(self, reason: str | None) -> None:
        if self._aborted is None and reason is not None:
            self.abort_index = len(self.events)
            self.pending_at_abort = {t.name: f"{t.pending.kind}:{t.pending.obj}" for t in self.threads
                                     if not t.done and t.pending is not None}
        self._aborted = reason

    # ---- thread bookkeeping ---------------------------------------------------------------
    def adopt_current(self, name: str) -> LThread:
        th = LThread(self, name, None)
        th.started = True
        th.real = _real_threading.current_thread()
        self.threads.append(th)
        self.by_ident[_real_threading.get_ident()] = th
        return th

    def me(self) -> LThread:
        return self.by_ident[_real_threading.get_ident()]

    def log(self, kind: str, obj: str = "", value: Any = None, thread: str | None = None) -> None:
        ev = (thread or self.me().name, kind, obj, value)
        self.events.append(ev)
        self.times.append(self.now)
        for l in self.listeners:
            l(ev)

    def spawn(self, name: str, target: Callable[[], Any]) -> LThread:
        # unique names for repeated workers
        base, k = name, 1
        while any(t.name == name and not t.done for t in self.threads):
            k += 1
            name = f"{base}#{k}"
        th = LThread(self, name, target)
        self.threads.append(th)

        def body() -> None:
            self.by_ident[_real_threading.get_ident()] = th
            th.sem.acquire()                    # wait for the first time we are scheduled
            try:
                if self.aborted:
                    raise SchedAbort(self.aborted)
                th.result = target()
            except SchedAbort:
                pass
            except BaseException as e:          # like threading.Thread: not propagated
                th.exc = e
            finally:
                th.done = True
                th.pending = None
                self.log("exit", "", type(th.exc).__name__ if th.exc else None, thread=th.name)
                self._dispatch(None)

        th.real = _real_threading.Thread(target=body, daemon=True, name="L:" + name)
        th.started = True
        th.pending = Pending("start")
        th.real.start()
        return th

    # ---- the scheduling decision --------------------------------------------------------------
    def _candidates(self) -> list[tuple[LThread, str, bool]]:
        out = []
        for th in self.threads:
            p = th.pending
            if p is None or th.done:
                continue
            for a in p.alts():
                out.append((th, a, (p.weight_low and a == "timeout") or p.kind in self.lazy
                            or f"{th.name}:{p.kind}" in self.lazy))
        return out

    def _advance_time(self) -> bool:
        ds = [th.pending.deadline for th in self.threads
              if th.pending is not None and not th.done and th.pending.deadline is not None]
        ds = [d for d in ds if d > self.now]
        if not ds:
            return False
        self.now = min(ds)
        return True

    def _dispatch(self, yielding: LThread | None) -> None:
        """Pick the next (thread, alternative) and hand the baton over."""
        with self.lock:
            if self.aborted:
                self._release_all()
                return
            cands = self._candidates()
            while not cands:
                if not self._advance_time():
                    alive = [t.name for t in self.threads if not t.done]
                    if alive:
                        self.aborted = "deadlock: " + ",".join(
                            f"{t.name}@{t.pending.kind}:{t.pending.obj}" for t in self.threads
                            if not t.done and t.pending is not None)
                    else:
                        self.aborted = "all threads finished"
                    self._release_all()
                    return
                cands = self._candidates()
            self.decisions += 1
            if self.decisions > self.budget:
                self.aborted = "budget"
                self._release_all()
                return
            if self.pos < len(self.schedule):
                idx = self.schedule[self.pos] % len(cands)
                self.pos += 1
            else:
                strong = [i for i, c in enumerate(cands) if not c[2]]
                if strong and (len(strong) == len(cands) or self.rng.random() > self.timeout_bias):
                    idx = self.rng.choice(strong)
                else:
                    idx = self.rng.randrange(len(cands))
            self.taken.append(idx)
            self.branching.append(len(cands))
            th, alt, _ = cands[idx]
            if not self.timed:
                self.now += self.eps
            th.chosen = alt
            th.pending = None
            th.sem.release()

    def _release_all(self) -> None:
        for t in self.threads:
            if not t.done:
                t.sem.release()

    def yield_(self, pending: Pending) -> str:
        th = self.me()
        if self.aborted:
            raise SchedAbort(self.aborted)
        if th.name == "control" and self.boot_interrupt is not None and pending.kind == "spawn" \
                and pending.obj == self.boot_interrupt:
            self.boot_interrupt = None
            self.log("interrupt", "boot:" + pending.obj)
            raise KeyboardInterrupt()
        if th.name == "control" and any(t.name == "training" for t in self.threads) and \
                pending.obj != "collector_lock" and pending.kind != "collect_ts":
            # interrupts are delivered once both background threads have been started, at the control
            # thread's protocol-level yield points - not inside the collector hand-over (an asynchronous
            # exception between taking the samples out of the collector and adding them to the buffer
            # loses them; no property speaks about that, DESIGN "false alarms")
            self._ctl_yields += 1
            if self.interrupt_at is not None and self._ctl_yields == self.interrupt_at:
                self.interrupt_at = None
                self.log("interrupt")
                raise KeyboardInterrupt()
        th.pending = pending
        self._dispatch(th)
        th.sem.acquire()
        if self.aborted:
            raise SchedAbort(self.aborted)
        return th.chosen or "go"

    def finish(self, reason: str = "end") -> None:
        """Cut every remaining logical thread (called by the harness after launch() returned)."""
        with self.lock:
            if not self.aborted:
                self.aborted = reason
            self._release_all()
        for t in self.threads:
            if t.real is not None and t.real is not _real_threading.current_thread():
                t.real.join(timeout=2.0)

    # ---- helpers used by the fakes -------------------------------------------------------------
    def point(self, kind: str, obj: str = "") -> None:
        self.yield_(Pending(kind, obj))

    def sleep(self, secs: float, kind: str = "sleep", obj: str = "") -> None:
        if self.timed:
            dl = self.now + max(secs, 0.0)
            self.yield_(Pending(kind, obj, alts=lambda: ["go"] if self.now >= dl else [],
                                deadline=dl))
        else:
            self.yield_(Pending(kind, obj))


# ------------------------------------------------------------------------------------------------
# Fake primitives
# ------------------------------------------------------------------------------------------------

class FakeEvent:
    _ids = 0

    def __init__(self, sched: Sched, role_resolver: Callable[["FakeEvent"], str]) -> None:
        FakeEvent._ids += 1
        self.id = FakeEvent._ids
        self.sched = sched
        self.flag = False
        self.waiters: list[LThread] = []
        self._role: str | None = None
        self._resolver = role_resolver

    @property
    def role(self) -> str:
        if self._role is None:
            self._role = self._resolver(self)
        return self._role

    def is_set(self) -> bool:
        self.sched.point("read", self.role)
        v = self.flag
        self.sched.log("read", self.role, v)
        return v

    isSet = is_set

    def set(self) -> None:
        self.sched.point("set", self.role)
        self.flag = True
        for w in self.waiters:
            w.notified_by.add(self.id)
        self.sched.log("set", self.role)

    def clear(self) -> None:
        self.sched.point("clear", self.role)
        self.flag = False
        self.sched.log("clear", self.role)

    def wait(self, timeout: float | None = None) -> bool:
        s = self.sched
        me = s.me()
        s.point("wait_enter", self.role)
        if self.flag:
            s.log("wait_imm", self.role, True)
            return True
        me.notified_by.discard(self.id)
        self.waiters.append(me)
        s.log("wait_block", self.role)
        dl = None if timeout is None else s.now + timeout

        def alts() -> list[str]:
            if self.id in me.notified_by:
                return ["woken"]
            if timeout is None:
                return []
            if s.timed:
                return ["timeout"] if s.now >= dl else []
            return ["timeout"]

        try:
            alt = s.yield_(Pending("wait", self.role, alts=alts, deadline=dl, weight_low=True))
        finally:
            if me in self.waiters:
                self.waiters.remove(me)
        me.notified_by.discard(self.id)
        if alt == "woken":
            s.log("wait_woken", self.role, True)
            return True
        s.log("wait_timeout", self.role, False)
        return False


class FakeLock:
    """Non re-entrant lock cooperating with the scheduler (acquire blocks while held)."""

    def __init__(self, sched: Sched, role: str = "lock") -> None:
        self.sched = sched
        self.role = role
        self.owner: LThread | None = None

    def acquire(self, blocking: bool = True, timeout: float = -1) -> bool:
        s = self.sched
        if not blocking:
            s.point("try_acquire", self.role)
            if self.owner is None:
                self.owner = s.me()
                s.log("acquire", self.role)
                return True
            return False
        s.yield_(Pending("acquire", self.role, alts=lambda: ["go"] if self.owner is None else []))
        self.owner = s.me()
        s.log("acquire", self.role)
        return True

    def release(self) -> None:
        # the release itself is atomic (an injected interrupt must not land "inside" it and leak
        # the lock); the scheduling point comes after it
        s = self.sched
        self.owner = None
        s.log("release", self.role)
        s.point("released", self.role)

    def locked(self) -> bool:
        return self.owner is not None

    def __enter__(self) -> bool:
        return self.acquire()

    def __exit__(self, *exc: Any) -> None:
        # releasing must work while a SchedAbort unwinds
        if self.sched.aborted:
            self.owner = None
            return
        self.release()


class FakeRLock:
    """Re-entrant lock cooperating with the scheduler. Taking a free lock (or one the caller already owns)
    is not a scheduling point - so code whose critical sections contain no scheduling point behaves as
    with a real lock and adds no decisions - but a thread that finds it held by another thread blocks *in
    the scheduler* (with a real lock the whole run would hang)."""

    def __init__(self, sched: Sched, role: str = "rlock") -> None:
        self.sched, self.role = sched, role
        self.owner: Any = None
        self.count = 0
        self._real = _real_threading.RLock()

    def _me(self) -> Any:
        s = self.sched
        ident = _real_threading.get_ident()
        return s.by_ident.get(ident, ident)

    def acquire(self, blocking: bool = True, timeout: float = -1) -> bool:
        me = self._me()
        if self.owner is None or self.owner is me or self.owner == me:
            self.owner = me
            self.count += 1
            return True
        if not blocking:
            return False
        s = self.sched
        if isinstance(me, LThread) and not s.aborted:
            s.log("lock_wait", self.role)
            s.yield_(Pending("acquire", self.role, alts=lambda: ["go"] if self.owner is None else []))
            self.owner = me
            self.count = 1
            return True
        # not a logical thread (harness set-up / tear-down): nothing else runs concurrently
        self.owner, self.count = me, 1
        return True

    def release(self) -> None:
        self.count -= 1
        if self.count <= 0:
            self.owner, self.count = None, 0

    def __enter__(self) -> bool:
        return self.acquire()

    def __exit__(self, *exc: Any) -> None:
        self.release()


class FakeThread:
    def __init__(self, sched: Sched, namer: Callable[[Any], str], group=None, target=None,
                 name=None, args=(), kwargs=None, daemon=None) -> None:
        self.sched = sched
        self.target = target
        self.args = args
        self.kwargs = kwargs or {}
        self.lname = namer(target) if target is not None else (name or "thread")
        self.lt: LThread | None = None
        self.daemon = daemon
        self.name = name or self.lname

    def start(self) -> None:
        self.sched.point("spawn", self.lname)
        self.lt = self.sched.spawn(self.lname, lambda: self.target(*self.args, **self.kwargs))
        self.sched.log("spawn", self.lname)
        if self.sched.boot_interrupt == "after:" + self.lname and self.sched.me().name == "control":
            self.sched.boot_interrupt = None
            self.sched.log("interrupt", "boot:after:" + self.lname)
            raise KeyboardInterrupt()

    def join(self, timeout: float | None = None) -> None:
        lt = self.lt
        if lt is None:
            raise RuntimeError("cannot join thread before it is started")
        s = self.sched
        dl = None if timeout is None else s.now + timeout

        def alts() -> list[str]:
            if lt.done:
                return ["go"]
            if timeout is None:
                return []
            if s.timed:
                return ["timeout"] if s.now >= dl else []
            return ["timeout"]
        alt = s.yield_(Pending("join", self.lname, alts=alts, deadline=dl, weight_low=True))
        s.log("join" if alt == "go" else "join_timeout", self.lname)

    def is_alive(self) -> bool:
        s = self.sched
        logical = _real_threading.get_ident() in s.by_ident and not s.aborted
        if logical:
            s.point("read", f"alive[{self.lname}]")
        v = self.lt is not None and not self.lt.done
        if logical:
            s.log("read", f"alive[{self.lname}]", v)
        return v


class FakeFuture:
    def __init__(self, lt: LThread) -> None:
        self.lt = lt

    def result(self, timeout: float | None = None) -> Any:
        if not self.lt.done:
            self.lt.sched.yield_(Pending("future", self.lt.name,
                                         alts=lambda: ["go"] if self.lt.done else []))
        if self.lt.exc is not None:
            raise self.lt.exc
        return self.lt.result


class FakeExecutor:
    def __init__(self, sched: Sched, namer: Callable[[Any], str], max_workers: int | None = None,
                 **_: Any) -> None:
        if max_workers is not None and max_workers <= 0:
            raise ValueError("max_workers must be greater than 0")
        self.sched = sched
        self.namer = namer
        self.workers: list[LThread] = []

    def __enter__(self) -> "FakeExecutor":
        return self

    def submit(self, fn: Callable[..., Any], *args: Any, **kw: Any) -> FakeFuture:
        name = self.namer(fn)
        self.sched.point("spawn", name)
        lt = self.sched.spawn(name, lambda: fn(*args, **kw))
        self.workers.append(lt)
        self.sched.log("spawn", name)
        return FakeFuture(lt)

    def shutdown(self, wait: bool = True, **_: Any) -> None:
        if wait:
            ws = self.workers
            self.sched.yield_(Pending("join_workers", "",
                                      alts=lambda: ["go"] if all(w.done for w in ws) else []))
            self.sched.log("workers_joined")

    def __exit__(self, *exc: Any) -> bool:
        self.shutdown(wait=True)
        return False
