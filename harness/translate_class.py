"""Python -> Lean translation of a *numeric state machine class* (DESIGN §2, second tie mechanism):
`pamiq_core.time.TimeController`. Every method becomes a Lean action in the monad
`StateT (TC × List Rat) Option`:

  * the state record `TC` has one field per attribute assigned in `__init__` (the lock left out),
  * every call of the underlying stdlib clock (`_original_time.time()` / `.perf_counter()` / `.monotonic()`)
    consumes the next element of a list of readings (so "real time advances between two reads inside one
    operation" is expressible exactly as in the hand-written model),
  * `self._x = e` is a state update, `self.m()` a call of the translated method, `assert c` failure,
    `with self._lock:` / `@with_lock` transparent (atomicity is the business of `LockObj`, C06 concurrency).

The generated actions are proved equal to the transition functions of `Pamiq.Clock` (the model all C06
theorems are about) by `gentie.py`: a change of any method of `time.py` changes the generated action and
the tie theorem is re-checked against what the code says now.
"""
from __future__ import annotations

import ast
import hashlib
from pathlib import Path

from translate import Untranslatable

PRELUDE = """abbrev M := StateT (TC × List Rat) Option
def getS : M TC := do return (← get).1
def modifyS (f : TC → TC) : M Unit := modify fun p => (f p.1, p.2)
/-- the next reading of the underlying real clock -/
def rd : M Rat := do
  let (s, l) ← get
  match l with
  | r :: rest => set (s, rest); pure r
  | [] => failure
"""

RESERVED = {"time": "time_", "end": "end_", "from": "from_", "at": "at_"}


def lname(n: str) -> str:
    n = n.lstrip("_")
    return RESERVED.get(n, n)


class ClassTr:
    def __init__(self, repo: Path, rel: str, cls: str, skip_fields=("lock",), skip_extra=(), extra_fields=()) -> None:
        self.skip_extra = set(skip_extra)
        self._extra_fields = list(extra_fields)      # attributes with a class-level default (not assigned in __init__)
        path = repo / "src" / "pamiq_core" / rel
        try:
            self.src = path.read_text()
            tree = ast.parse(self.src)
        except (OSError, SyntaxError) as e:
            raise Untranslatable(f"cannot read {rel}: {e}")
        self.cls = next((n for n in ast.walk(tree) if isinstance(n, ast.ClassDef) and n.name == cls), None)
        if self.cls is None:
            raise Untranslatable(f"class {cls} not found")
        self.methods = {n.name: n for n in self.cls.body if isinstance(n, ast.FunctionDef)}
        self.base_methods: dict[str, ast.FunctionDef] = {}
        for b in self.cls.bases:
            bn = b.id if isinstance(b, ast.Name) else None
            bc = next((n for n in ast.walk(tree) if isinstance(n, ast.ClassDef) and n.name == bn), None)
            if bc is not None:
                self.base_methods = {n.name: n for n in bc.body if isinstance(n, ast.FunctionDef)}
        self.rel, self.cname = rel, cls
        self.fields: list[tuple[str, str]] = []
        self.locks: set[str] = set()
        self.events: set[str] = set()
        self.log_writes = False        # record every primitive write / lock operation, in order, in the state
        init = self.methods.get("__init__")
        if init is None:
            raise Untranslatable("no __init__")
        for s in init.body:
            if isinstance(s, ast.Assign) and len(s.targets) == 1 and isinstance(s.targets[0], ast.Attribute) \
                    and isinstance(s.targets[0].value, ast.Name) and s.targets[0].value.id == "self":
                f = lname(s.targets[0].attr)
                if f in skip_fields:
                    continue
                v = s.value
                vt = ast.unparse(v)
                if vt.endswith("Lock()") or vt.endswith("RLock()"):
                    self.locks.add(f)
                    continue
                if f in self.skip_extra:
                    continue
                ty = "Bool" if (isinstance(v, ast.Constant) and isinstance(v.value, bool)) or vt.endswith("Event()") \
                    else "Rat"
                if vt.endswith("Event()"):
                    self.events.add(f)
                self.fields.append((f, ty))
        self.fields += [f for f in self._extra_fields if f[0] not in {x for x, _ in self.fields}]
        self.fnames = {f for f, _ in self.fields}
        self.tmp = 0

    # ---- expressions ---------------------------------------------------------------------------------
    def ex(self, e: ast.expr, want: str, params: dict[str, str], locs: dict[str, str]) -> str:
        if isinstance(e, ast.Constant):
            if isinstance(e.value, bool):
                return "true" if e.value else "false"
            if isinstance(e.value, (int, float)):
                from fractions import Fraction
                q = Fraction(str(e.value))
                return f"(({q.numerator} : Rat) / {q.denominator})" if q.denominator != 1 else f"({q.numerator} : Rat)"
            raise Untranslatable(f"constant {e.value!r}")
        if isinstance(e, ast.Attribute) and isinstance(e.value, ast.Name) and e.value.id == "self":
            f = lname(e.attr)
            if f not in self.fnames:
                raise Untranslatable(f"unknown attribute self.{e.attr}")
            return f"(← getS).{f}"
        if isinstance(e, ast.Call) and isinstance(e.func, ast.Attribute) and e.func.attr == "is_set" and \
                isinstance(e.func.value, ast.Attribute) and lname(e.func.value.attr) in self.events:
            return f"(← getS).{lname(e.func.value.attr)}"
        if isinstance(e, ast.Call) and isinstance(e.func, ast.Attribute) and isinstance(e.func.value, ast.Name):
            owner, name = e.func.value.id, e.func.attr
            if owner in ("_original_time", "time") and name in ("time", "perf_counter", "monotonic") \
                    and not e.args and not e.keywords:
                return "(← rd)"
            if owner == "self" and not e.args and not e.keywords and name in self.methods:
                self.called.add(name)
                return f"(← {lname(name)})"
        if isinstance(e, ast.Call) and not e.args and e.keywords and want.startswith("("):
            # a record built from keyword arguments (the TypedDict of state_dict): a tuple in keyword order
            self.kw_order = [k.arg for k in e.keywords]
            return "(" + ", ".join(self.ex(k.value, "Rat", params, locs) for k in e.keywords) + ")"
        if isinstance(e, ast.Subscript) and isinstance(e.value, ast.Name) and e.value.id in params \
                and isinstance(e.slice, ast.Constant) and isinstance(e.slice.value, str):
            p = f"{e.value.id}_{e.slice.value}"
            self.dict_params.setdefault(e.value.id, [])
            if e.slice.value not in self.dict_params[e.value.id]:
                self.dict_params[e.value.id].append(e.slice.value)
            return p
        if isinstance(e, ast.Name):
            if e.id in locs or e.id in params:
                return e.id
            raise Untranslatable(f"free name {e.id}")
        if isinstance(e, ast.BinOp):
            ops = {ast.Add: "+", ast.Sub: "-", ast.Mult: "*", ast.Div: "/"}
            o = ops.get(type(e.op))
            if o is None:
                raise Untranslatable(ast.unparse(e))
            return f"({self.ex(e.left, 'Rat', params, locs)} {o} {self.ex(e.right, 'Rat', params, locs)})"
        if isinstance(e, ast.Compare) and len(e.ops) == 1:
            ops = {ast.Lt: "<", ast.LtE: "≤", ast.Gt: ">", ast.GtE: "≥"}
            o = ops.get(type(e.ops[0]))
            if o is None:
                raise Untranslatable(ast.unparse(e))
            return f"decide ({self.ex(e.left, 'Rat', params, locs)} {o} {self.ex(e.comparators[0], 'Rat', params, locs)})"
        if isinstance(e, ast.UnaryOp) and isinstance(e.op, ast.Not):
            return f"(!{self.ex(e.operand, 'Bool', params, locs)})"
        if isinstance(e, ast.BoolOp):
            op = " && " if isinstance(e.op, ast.And) else " || "
            return "(" + op.join(self.ex(v, "Bool", params, locs) for v in e.values) + ")"
        raise Untranslatable(f"unsupported expression `{ast.unparse(e)}`")

    # ---- statements ----------------------------------------------------------------------------------
    def block(self, body: list[ast.stmt], ind: str, ret: str, params, locs) -> list[str]:
        out: list[str] = []
        for s in body:
            if isinstance(s, ast.Expr) and isinstance(s.value, ast.Constant) and isinstance(s.value.value, str):
                continue
            if isinstance(s, ast.Assign) and len(s.targets) == 1 and isinstance(s.targets[0], ast.Attribute) \
                    and isinstance(s.targets[0].value, ast.Name) and s.targets[0].value.id == "self":
                f = lname(s.targets[0].attr)
                ty = dict(self.fields).get(f)
                if ty is None:
                    raise Untranslatable(f"assignment to unknown attribute {s.targets[0].attr}")
                self.tmp += 1
                v = f"v{self.tmp}"
                out.append(f"{ind}let {v} : {ty} := {self.ex(s.value, ty, params, locs)}")
                out.append(f"{ind}modifyS fun s => {{ s with {f} := {v} }}")
            elif isinstance(s, ast.Assign) and len(s.targets) == 1 and isinstance(s.targets[0], ast.Name):
                n = s.targets[0].id
                out.append(f"{ind}let {n} : Rat := {self.ex(s.value, 'Rat', params, locs)}")
                locs = {**locs, n: "Rat"}
            elif isinstance(s, ast.Expr) and isinstance(s.value, ast.Call) and isinstance(s.value.func, ast.Attribute) \
                    and isinstance(s.value.func.value, ast.Name) and s.value.func.value.id == "self" \
                    and not s.value.args and s.value.func.attr in self.methods:
                self.called.add(s.value.func.attr)
                out.append(f"{ind}{lname(s.value.func.attr)}")
            elif isinstance(s, ast.Expr) and isinstance(s.value, ast.Call) and isinstance(s.value.func, ast.Attribute) \
                    and s.value.func.attr in ("set", "clear") and isinstance(s.value.func.value, ast.Attribute) \
                    and lname(s.value.func.value.attr) in self.events:
                ev = lname(s.value.func.value.attr)
                val = "true" if s.value.func.attr == "set" else "false"
                out.append(f"{ind}modifyS fun s => {{ s with {ev} := {val}" +
                           (f", log := s.log ++ [\"{s.value.func.attr} {ev}\"]" if self.log_writes else "") + " }")
            elif isinstance(s, ast.Raise):
                out.append(f"{ind}failure")
            elif isinstance(s, ast.AugAssign) and isinstance(s.target, ast.Attribute) and \
                    isinstance(s.target.value, ast.Name) and s.target.value.id == "self" and \
                    isinstance(s.op, (ast.Add, ast.Sub)):
                f = lname(s.target.attr)
                o = "+" if isinstance(s.op, ast.Add) else "-"
                self.tmp += 1
                v = f"v{self.tmp}"
                out.append(f"{ind}let {v} : Rat := ((← getS).{f} {o} {self.ex(s.value, 'Rat', params, locs)})")
                out.append(f"{ind}modifyS fun s => {{ s with {f} := {v} }}")
            elif isinstance(s, ast.For) and isinstance(s.iter, ast.Attribute) and isinstance(s.iter.value, ast.Name) \
                    and s.iter.value.id == "self" and len(s.body) == 1 and isinstance(s.body[0], ast.Expr) \
                    and isinstance(s.body[0].value, ast.Call) and isinstance(s.body[0].value.func, ast.Name) \
                    and isinstance(s.target, ast.Name) and s.body[0].value.func.id == s.target.id and self.log_writes:
                # `for cb in self._callbacks: cb()`: every registered callback, once, in order - one log entry
                out.append(f"{ind}modifyS fun s => {{ s with log := s.log ++ [\"run {lname(s.iter.attr)}\"] }}")
            elif isinstance(s, ast.Expr) and isinstance(s.value, ast.Call) and isinstance(s.value.func, ast.Attribute) \
                    and isinstance(s.value.func.value, ast.Call) and isinstance(s.value.func.value.func, ast.Name) \
                    and s.value.func.value.func.id == "super" and s.value.func.attr in self.base_methods \
                    and not s.value.args:
                nm = "super_" + s.value.func.attr
                self.methods[nm] = self.base_methods[s.value.func.attr]
                self.called.add(nm)
                out.append(f"{ind}{nm}")
            elif isinstance(s, ast.With) and len(s.items) == 1 and isinstance(s.items[0].context_expr, ast.Attribute) \
                    and lname(s.items[0].context_expr.attr) in self.locks and self.log_writes:
                lk = lname(s.items[0].context_expr.attr)
                out.append(f"{ind}modifyS fun s => {{ s with log := s.log ++ [\"acquire {lk}\"] }}")
                out += self.block(s.body, ind, ret, params, locs)
                out.append(f"{ind}modifyS fun s => {{ s with log := s.log ++ [\"release {lk}\"] }}")
            elif isinstance(s, ast.If):
                out.append(f"{ind}if {self.ex(s.test, 'Bool', params, locs)} then")
                out += self.block(s.body, ind + "  ", ret, params, locs) or [f"{ind}  pure ()"]
                if s.orelse:
                    out.append(f"{ind}else")
                    out += self.block(s.orelse, ind + "  ", ret, params, locs)
            elif isinstance(s, ast.Return):
                out.append(f"{ind}return " + ("()" if s.value is None else self.ex(s.value, ret, params, locs)))
            elif isinstance(s, ast.Assert):
                out.append(f"{ind}if !({self.ex(s.test, 'Bool', params, locs)}) then failure")
            elif isinstance(s, ast.With) and len(s.items) == 1 and "lock" in ast.unparse(s.items[0].context_expr):
                out += self.block(s.body, ind, ret, params, locs)
            else:
                raise Untranslatable(f"unsupported statement `{ast.unparse(s).splitlines()[0]}`")
        return out

    def method(self, name: str) -> tuple[str, set[str]]:
        fn = self.methods.get(name)
        if fn is None:
            raise Untranslatable(f"method {name} not found")
        ann = ast.unparse(fn.returns) if fn.returns is not None else "None"
        ret = {"float": "Rat", "bool": "Bool", "None": "Unit"}.get(ann, "(Rat × Rat × Rat)")
        params = {a.arg: "Rat" for a in fn.args.args[1:]}
        self.called, self.dict_params, self.kw_order = set(), {}, None
        lines = self.block(list(fn.body), "  ", ret, params, {})
        plist = []
        for p in params:
            if p in self.dict_params:
                plist += [f"({p}_{k} : Rat)" for k in self.dict_params[p]]
            else:
                plist.append(f"({p} : Rat)")
        text = ast.get_source_segment(self.src, fn) or ""
        head = (f"/-- generated from `{self.rel}:{self.cname}.{name}` (sha1 "
                f"{hashlib.sha1(text.encode()).hexdigest()[:12]})"
                + (f"; returned record fields in order: {self.kw_order}" if self.kw_order else "")
                + (f"; parameters of `{list(self.dict_params)[0]}` in order: {list(self.dict_params.values())[0]}"
                   if self.dict_params else "") + " -/")
        sig = f"def {lname(name)} " + " ".join(plist) + (" " if plist else "") + f": M {ret} := do"
        if not lines:
            lines = ["  pure ()"]
        return "\n".join([head, sig] + lines), set(self.called)

    def generate(self, names: list[str]) -> str:
        parts, deps = {}, {}
        todo = list(names)
        while todo:
            n = todo.pop()
            if n in parts:
                continue
            parts[n], deps[n] = self.method(n)
            todo += [d for d in deps[n] if d not in parts]
        order: list[str] = []

        def visit(n, seen=()):
            if n in order:
                return
            if n in seen:
                raise Untranslatable("recursive methods")
            for d in sorted(deps[n]):
                visit(d, seen + (n,))
            order.append(n)
        for n in names + [k for k in parts if k not in names]:
            visit(n)
        st = "structure TC where\n" + "\n".join(f"  {f} : {t}" for f, t in self.fields) + \
            ("\n  log : List String := []" if self.log_writes else "") + "\n"
        return st + "\n" + PRELUDE + "\n" + "\n\n".join(parts[n] for n in order) + "\n"
