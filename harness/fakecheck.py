"""Differential test of the fake concurrency primitives (harness/detsched.py) against the real
`threading` / `concurrent.futures` ones (DESIGN.md §4.3, §6: the fakes are part of the trusted base).

A small program = a few threads, each a list of operations on shared Events / Locks (plus a Thread
with join and a ThreadPoolExecutor with Future.result). Its *outcome* is the tuple of values the
operations returned (wait results, is_set results, exceptions seen) and the final flags.

  * under the fakes every schedule is enumerated (depth-first over the scheduler's decisions, every
    time-out allowed to fire whenever it is pending): the set of possible outcomes  S_fake ;
  * on real threads the same program runs many times with random real delays and real time-outs:
    the outcomes observed  S_real .

The fakes are an over-approximation the system checks can rely on iff  S_real ⊆ S_fake  (everything real
threads do, some deterministic schedule does too). The programs are chosen around the semantics the
pause handshake depends on: a waiter notified by `set()` returns True even if the flag has been
cleared since; `wait()` on a set flag returns at once; a time-out returns False; `clear()` then
`set()` by different threads; lock mutual exclusion and hand-over; an exception in a Thread does not
propagate to the parent; `Future.result()` re-raises; leaving a ThreadPoolExecutor joins its workers.
"""
from __future__ import annotations

import random
import sys
import threading
import time
from concurrent.futures import ThreadPoolExecutor
from pathlib import Path

sys.path.insert(0, str(Path(__file__).resolve().parent))
import detsched
from detsched import FakeEvent, FakeExecutor, FakeLock, FakeThread, Sched, SchedAbort

TIMEOUT = 0.03          # real seconds; real delays are drawn from [0, 2 * TIMEOUT]


class Boom(Exception):
    pass


# ------------------------------------------------------------------------------------------------
# programs: each returns (threads, finish) given a primitive factory `P`
# ------------------------------------------------------------------------------------------------
# An operation is a callable taking the per-thread result list. `P.delay()` is a point where a real
# thread sleeps a random time and a fake thread merely yields.

def prog_notified_then_cleared(P):
    """waiter || set; clear  — a notified waiter returns True although the flag is clear again."""
    e = P.Event()

    def waiter(out):
        out.append(("wait", e.wait(TIMEOUT)))

    def setter(out):
        P.delay()
        e.set()
        e.clear()
        out.append(("is_set", e.is_set()))
    return [waiter, setter], lambda: ("flag", e.is_set())


def prog_wait_on_set_flag(P):
    e = P.Event()
    e.set()

    def waiter(out):
        out.append(("wait", e.wait(None)))
        e.clear()
        out.append(("wait2", e.wait(TIMEOUT)))

    def other(out):
        P.delay()
        out.append(("is_set", e.is_set()))
    return [waiter, other], lambda: ("flag", e.is_set())


def prog_clear_vs_set(P):
    """two writers racing on one flag, a reader waiting with time-out in slices (like wait_for_resume)."""
    e = P.Event()

    def a(out):
        P.delay()
        e.set()

    def b(out):
        P.delay()
        e.clear()

    def reader(out):
        r1 = e.wait(TIMEOUT)
        r2 = e.wait(TIMEOUT) if not r1 else None
        out.append(("waits", r1, r2))
    return [a, b, reader], lambda: ("flag", e.is_set())


def prog_pause_handshake(P):
    """the handshake in miniature: controller clears `resume`, worker acknowledges by setting `paused`,
    controller waits for the acknowledgement with a time-out, then resumes; worker blocks on resume."""
    resume, paused = P.Event(), P.Event()
    resume.set()

    def controller(out):
        P.delay()
        resume.clear()
        ack = paused.wait(TIMEOUT)
        resume.set()
        out.append(("ack", ack))

    def worker(out):
        for _ in range(2):
            if not resume.is_set():
                paused.set()
                got = resume.wait(None)
                paused.clear()
                out.append(("woken", got))
                return
            P.delay()
        out.append(("never-saw-pause",))
    return [controller, worker], lambda: ("flags", resume.is_set(), paused.is_set())


def prog_lock_mutex(P):
    lock = P.Lock()
    box = {"v": 0, "inside": 0, "overlap": False}

    def body(out):
        P.delay()
        with lock:
            box["inside"] += 1
            if box["inside"] > 1:
                box["overlap"] = True
            v = box["v"]
            P.delay()
            box["v"] = v + 1
            box["inside"] -= 1
    return [body, body], lambda: ("count", box["v"], box["overlap"])


def prog_try_lock(P):
    lock = P.Lock()

    def holder(out):
        lock.acquire()
        P.delay()
        lock.release()

    def prober(out):
        P.delay()
        got = lock.acquire(False)
        if got:
            lock.release()
        out.append(("try", got))
    return [holder, prober], lambda: ("locked", lock.locked())


def prog_thread_exception_and_join(P):
    seen = []

    def child():
        P.delay()
        seen.append("ran")
        raise Boom("in child")

    def parent(out):
        t = P.Thread(child)
        t.start()
        try:
            t.join()
            out.append(("join", "returned", t.is_alive()))
        except Boom:
            out.append(("join", "raised"))
    return [parent], lambda: ("seen", tuple(seen))


def prog_is_alive(P):
    """Thread.is_alive(): False before start(), True from start() until the body has ended (so either
    value while it runs concurrently), False after join(); join() of an unstarted thread raises."""
    def child():
        P.delay()

    def parent(out):
        t = P.Thread(child)
        u = P.Thread(child)
        out.append(("before-start", t.is_alive()))
        t.start()
        out.append(("after-start", t.is_alive()))
        P.delay()
        out.append(("later", t.is_alive()))
        t.join()
        out.append(("after-join", t.is_alive()))
        out.append(("never-started", u.is_alive()))
        try:
            u.join()
            out.append(("join-unstarted", "returned"))
        except RuntimeError:
            out.append(("join-unstarted", "raised"))
    return [parent], lambda: ("done",)


def prog_executor(P):
    e = P.Event()

    def job_ok():
        return e.wait(TIMEOUT)

    def job_bad():
        P.delay()
        raise Boom("in worker")

    def main(out):
        with P.Executor(2) as ex:
            f1 = ex.submit(job_ok)
            f2 = ex.submit(job_bad)
            P.delay()
            e.set()
            try:
                out.append(("f2", f2.result()))
            except Boom:
                out.append(("f2", "raised"))
            out.append(("f1", f1.result()))
        out.append(("after-exit",))
    return [main], lambda: ("flag", e.is_set())


PROGRAMS = [prog_notified_then_cleared, prog_wait_on_set_flag, prog_clear_vs_set, prog_pause_handshake,
            prog_lock_mutex, prog_try_lock, prog_thread_exception_and_join, prog_is_alive, prog_executor]


# ------------------------------------------------------------------------------------------------
# primitive factories
# ------------------------------------------------------------------------------------------------
class RealP:
    def __init__(self, rng: random.Random) -> None:
        self.rng = rng
        self.Event = threading.Event
        self.Lock = threading.Lock

    def delay(self) -> None:
        time.sleep(self.rng.choice([0.0, 0.0, TIMEOUT * 0.3, TIMEOUT * 0.9, TIMEOUT * 1.1, TIMEOUT * 2]))

    def Thread(self, target):
        return threading.Thread(target=_quiet(target), daemon=True)

    def Executor(self, n):
        return ThreadPoolExecutor(max_workers=n)


def _quiet(target):
    """Like threading.Thread, but without the traceback the default excepthook prints."""
    def run():
        try:
            target()
        except Boom:
            pass
    return run


class FakeP:
    def __init__(self, sched: Sched) -> None:
        self.s = sched
        self._n = 0

    def Event(self):
        self._n += 1
        name = f"e{self._n}"
        return FakeEvent(self.s, lambda ev, n=name: n)

    def Lock(self):
        return FakeLock(self.s)

    def delay(self) -> None:
        self.s.point("delay")

    def Thread(self, target):
        return FakeThread(self.s, lambda t: "child", target=target)

    def Executor(self, n):
        return FakeExecutor(self.s, lambda fn: "worker", n)


# ------------------------------------------------------------------------------------------------
# running
# ------------------------------------------------------------------------------------------------
def run_real(prog, rng: random.Random):
    P = RealP(rng)
    bodies, finish = prog(P)
    outs = [[] for _ in bodies]
    ts = [threading.Thread(target=b, args=(o,), daemon=True) for b, o in zip(bodies, outs)]
    for t in ts:
        t.start()
    for t in ts:
        t.join(10)
        if t.is_alive():
            return ("hung",)
    return (tuple(tuple(o) for o in outs), finish())


def run_fake(prog, schedule: list[int]):
    s = Sched(schedule=schedule, seed=0, timed=False, budget=400)
    s.adopt_current("main")
    P = FakeP(s)
    bodies, finish = prog(P)
    outs = [[] for _ in bodies]
    lts = [s.spawn(f"t{i}", (lambda b=b, o=o: b(o))) for i, (b, o) in enumerate(zip(bodies, outs))]
    try:
        s.yield_(detsched.Pending("join_all", "", alts=lambda: ["go"] if all(t.done for t in lts) else []))
        result = (tuple(tuple(o) for o in outs), _fake_finish(s, finish))
    except SchedAbort as e:
        result = ("aborted:" + str(e).split(":")[0],)
    s.finish("end")
    return result, list(s.taken), list(s.branching)


def _fake_finish(s: Sched, finish):
    # reading the final flags goes through yield points too; nothing else is runnable any more
    return finish()


def enumerate_fake(prog, limit: int = 20000):
    """All outcomes over all schedules (depth-first over the decisions actually met)."""
    outcomes: dict = {}
    stack = [[]]
    runs = 0
    while stack and runs < limit:
        prefix = stack.pop()
        res, taken, branching = run_fake(prog, prefix)
        runs += 1
        outcomes.setdefault(res, taken)
        for i in range(len(prefix), len(taken)):
            for alt in range(branching[i]):
                if alt != taken[i]:
                    stack.append(taken[:i] + [alt])
    return outcomes, runs, not stack


def check(reps: int = 40, seed: int = 0, verbose: bool = False) -> dict:
    """-> {"programs": n, "fake_runs": n, "real_runs": n, "problems": [...]}"""
    problems = []
    fake_runs = real_runs = 0
    report = []
    rng = random.Random(seed)
    for prog in PROGRAMS:
        fake, runs, complete = enumerate_fake(prog)
        fake_runs += runs
        if not complete:
            problems.append(f"{prog.__name__}: enumeration of the fake schedules did not finish ({runs} runs)")
        if any(o[0].startswith("aborted") for o in fake if isinstance(o[0], str)):
            bad = [o for o in fake if isinstance(o[0], str)]
            problems.append(f"{prog.__name__}: some fake schedule ends in {bad[0][0]} (schedule {fake[bad[0]]})")
        real = {}
        for _ in range(reps):
            o = run_real(prog, rng)
            real_runs += 1
            real[o] = real.get(o, 0) + 1
        for o, n in real.items():
            if o not in fake:
                problems.append(f"{prog.__name__}: real threads produced {o} ({n}x), which no schedule of the "
                                f"fakes produces; fake outcomes: {sorted(map(str, fake))[:6]}")
        report.append({"program": prog.__name__, "fake_outcomes": len(fake), "fake_schedules": runs,
                       "real_outcomes": len(real), "real_runs": reps})
        if verbose:
            print(report[-1])
    return {"programs": len(PROGRAMS), "fake_runs": fake_runs, "real_runs": real_runs,
            "problems": problems, "report": report}


if __name__ == "__main__":
    reps = int(sys.argv[1]) if len(sys.argv) > 1 else 40
    r = check(reps, verbose=True)
    for p in r["problems"]:
        print("PROBLEM:", p)
    print(f"fake-primitive self-test: {r['programs']} programs, {r['fake_runs']} fake schedules, "
          f"{r['real_runs']} real runs, {len(r['problems'])} problems")
    sys.exit(1 if r["problems"] else 0)
