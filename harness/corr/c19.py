"""C19 — PyTorch synchronisation is atomic for inference and never shares a module.

The REAL `pamiq_core.torch` classes (`TorchTrainingModel`, `TorchInferenceModel`,
`UnwrappedContextManager`, `TorchTrainer`) run against the stand-in `torch` package of
`harness/stubs/torch` (real PyTorch is not installed). Two logical threads under the
deterministic scheduler (`harness/linesched.py` + `harness/accsched.py`):

  inference thread   a program of `infer` / `unwrap` operations; inside either it reads the
                     parameters of the module it was handed one by one;
  training thread    a program of `train` (optimizer step: one parameter after the other),
                     `sync` (`TorchTrainingModel.sync`) and `run` (`TorchTrainer.run` = train + sync).

Preemption points: every acquisition of the inference wrapper's lock, every access to the
wrapper's module reference (`TorchInferenceModel._model`, observed through a property installed
on a run-time subclass — the methods that run are the real ones), every access the stand-in makes to
a parameter / gradient / mode flag (`torch._verif.hook`); with granularity "lines" additionally
every source line of `torch/model.py` and of the stand-in's `load_state_dict`.

Correspondence = trace refinement: the visible events of the implementation (lock acquire/release,
parameter reads and writes with module identity and value, the swap of the inference reference,
the state after each `sync`) are followed by the Lean model (`torchsync ev …`), which keeps the set
of model states compatible with the trace; reference reads are checked against the model's
value; the final states are compared.

Monitor (independent of the Lean model), on every execution:
  * old-or-new: every infer/unwrap saw exactly one of the complete parameter sets published by
    the synchronisations that could have been in effect during the operation;
  * no shared module: no write of the training thread (parameter, gradient, mode) to the module
    object the inference thread holds, neither literally inside the interval nor unordered with
    it (no lock/reference edge orders the write before the operation's acquisition or after its
    release);
  * post-condition of every sync: inference parameters = pre-sync training parameters =
    post-sync training parameters, training gradients preserved, training mode on, two objects.
"""
from __future__ import annotations

import itertools
import sys
from pathlib import Path

sys.path.insert(0, str(Path(__file__).resolve().parent.parent))
import accsched
import linesched
from framework import (Ctx, Disagreement, SuiteResult, Violation, corpus_cases, run_check,
                       setup_repo_path, show_list)

STUBS = str(Path(__file__).resolve().parent.parent / "stubs")
INF, TR = 0, 1
_M: dict = {}


def _mods():
    if "tm" not in _M:
        setup_repo_path()
        if STUBS not in sys.path:
            sys.path.insert(0, STUBS)
        import torch
        import torch.nn as nn
        from torch import _verif
        if "verif-standin" not in getattr(torch, "__version__", ""):
            raise RuntimeError("a real torch shadows the stand-in; C19 is written for the stand-in")
        import pamiq_core.torch as ptorch
        import pamiq_core.torch.model as tmodel
        from pamiq_core.model import TrainingModelsDict
        _M.update(torch=torch, nn=nn, verif=_verif, ptorch=ptorch, tm=tmodel,
                  TrainingModelsDict=TrainingModelsDict, real_rlock=tmodel.RLock)

        class Net(nn.Module):
            def __init__(self, vals, grads, frozen=()):
                super().__init__()
                for k, (v, g) in enumerate(zip(vals, grads)):
                    p = nn.Parameter(v)
                    # a frozen parameter (`requires_grad=False`: a backbone, an EMA copy the trainer writes in place)
                    # is a parameter like any other for the synchronisation
                    p.requires_grad = k not in frozen
                    p._grad = g
                    setattr(self, f"p{k}", p)

            # a module class with value equality (two networks of the same configuration compare equal and hash
            # alike - a dataclass-style module): identity is what the wrappers have to go by
            def __eq__(self, other) -> bool:
                return type(other) is type(self) and len(self._parameters) == len(other._parameters)

            def __hash__(self) -> int:
                return hash((type(self).__name__, len(self._parameters)))

        class ScriptedOptimizer(torch.optim.Optimizer):
            """`step()` writes the scripted next value into each parameter, one after the other."""

            def __init__(self, params, values):
                super().__init__(params, {})
                self.values = values

            def step(self, closure=None):
                for p, v in zip(self.param_groups[0]["params"], self.values):
                    p.data = v

        class MiniTrainer(ptorch.TorchTrainer):
            def __init__(self, script):
                super().__init__()
                self.script = script          # list of [(value, grad)] per train call
                self.calls = 0
                self.after_train = None

            def on_training_models_attached(self):
                self.tm = self.get_torch_training_model("net", Net)

            def create_optimizers(self):
                vals = [v for v, _ in self.script[self.calls]]
                return {"opt": ScriptedOptimizer(self.tm.model.parameters(), vals)}

            def train(self):
                step = self.script[self.calls]
                for p, (_, g) in zip(self.tm.model.parameters(), step):
                    p.grad = g                # "backward"
                self.optimizers["opt"].step()
                self.calls += 1
                if self.after_train is not None:
                    self.after_train()

        _M.update(Net=Net, ScriptedOptimizer=ScriptedOptimizer, MiniTrainer=MiniTrainer)
    return _M


# ------------------------------------------------------------------------------------------------
# scenario -> values
# ------------------------------------------------------------------------------------------------

def init_values(case):
    n = case["nparams"]
    vals = [10 * (k + 1) for k in range(n)]
    grads = [None if (k % 2 == 0) else 5 + k for k in range(n)]
    if case.get("grads") == "none":
        grads = [None] * n
    return vals, grads


def train_values(case, j):
    """Values and gradients written by the j-th training step (globally distinct numbers)."""
    n = case["nparams"]
    return [(100 * (j + 1) + k, None if (j + k) % 3 == 0 else 1000 * (j + 1) + k) for k in range(n)]


def n_trains(case):
    return sum(1 for op in case["tops"] if op in ("train", "run"))


def show_opt(g):
    return "n" if g is None else str(g)


def model_reset_line(case, late=True):
    vals, grads = init_values(case)
    need = not case.get("inf_only", False)
    tprog = []
    j = 0
    for op in case["tops"]:
        if op in ("train", "run"):
            tprog.append("train:" + ":".join(f"{v}/{show_opt(g)}" for v, g in train_values(case, j)))
            j += 1
        if op in ("sync", "run"):
            tprog.append("sync")
    p = show_list(vals)
    g = show_list(grads, show_opt)
    return (f"torchsync reset late={1 if late else 0} sync={1 if need else 0} "
            f"inf={1 if need else 0} tr=0 p0={p} g0={g} t0=1 p1={p} g1={g} t1=1 "
            f"iprog={show_list(case['iops'])} tprog={show_list(tprog)}")


# ------------------------------------------------------------------------------------------------
# one run
# ------------------------------------------------------------------------------------------------

def build(case: dict, sched: accsched.AccessSched):
    """Fresh objects for one run. Returns (threads, ctx)."""
    M = _mods()
    tmodel, verif = M["tm"], M["verif"]
    vals, grads = init_values(case)
    inf_only = case.get("inf_only", False)
    script = [train_values(case, j) for j in range(n_trains(case))]

    tmodel.RLock = sched.RLock
    try:
        net = M["Net"](vals, grads, tuple(case.get("frozen", ())))
        tm = M["ptorch"].TorchTrainingModel(
            net, inference_thread_only=inf_only,
            inference_procedure=lambda model, i: use(model, i))
        im = tm.inference_model
    finally:
        tmodel.RLock = M["real_rlock"]
    other = im._raw_model
    tags = {id(net): "0", id(other): "1" if other is not net else "0"}
    ptable = {}
    for mod in {id(net): net, id(other): other}.values():
        for k, p in enumerate(mod.parameters()):
            ptable[id(p)] = (tags[id(mod)], k)

    def tag(m):
        return tags.get(id(m), "?")

    # ---- the inference wrapper's module reference, observed -----------------------------------
    real_cls = type(im)

    def get_model(self):
        if sched.access("W", False):
            sched.emit("getinf", tag(self.__dict__["_model"]))
        return self.__dict__["_model"]

    def set_model(self, m):
        if sched.access("W", True):
            sched.emit("setinf", tag(m))
        self.__dict__["_model"] = m

    im.__class__ = type(real_cls.__name__, (real_cls,),
                        {"_model": property(get_model, set_model), "__module__": real_cls.__module__})

    # ---- the stand-in's accesses to module state ----------------------------------------------
    def hook(kind, obj, value):
        if sched.current() is None:
            return
        if kind == "wflag":
            t = tag(obj)
            if sched.access("f:" + t, True):
                sched.emit("wflag", t, value)
            return
        t, k = ptable.get(id(obj), ("?", -1))
        loc = ("p:" if kind.endswith("param") else "g:") + f"{t}:{k}"
        if sched.access(loc, kind.startswith("w")):
            if kind == "rparam":
                sched.emit("rparam", t, k, obj._data)
            elif kind == "rgrad":
                sched.emit("rgrad", t, k, obj._grad)
            else:
                sched.emit(kind, t, k, value)

    def snapshot():
        cur_inf = im.__dict__["_model"]
        return {"inf": tag(cur_inf), "tr": tag(tm.model),
                "pinf": [p._data for p in cur_inf.parameters()],
                "ptr": [p._data for p in tm.model.parameters()],
                "gtr": [p._grad for p in tm.model.parameters()],
                "training": tm.model.training, "same": cur_inf is tm.model}

    def use(model, i):
        sched.emit("enter", i, tag(model), M["torch"].inference_mode_depth())
        seen = []
        for p in model.parameters():
            seen.append(p.data)
        sched.emit("exit", i)
        return seen

    observations: list = []

    shared_ctx: list = []

    def inference():
        for i, op in enumerate(case["iops"]):
            sched.emit("op_begin", i, op)
            if op == "infer":
                seen = im.infer(i)
            else:
                if case.get("reuse_ctx"):
                    # one context manager object, taken once and entered again for every later unwrap
                    # (`ctx = model.unwrap()` kept by the agent): each entry is an unwrap of its own
                    if not shared_ctx:
                        shared_ctx.append(im.unwrap())
                    cm = shared_ctx[0]
                else:
                    cm = im.unwrap()
                with cm as m:
                    seen = use(m, i)
            sched.emit("op_end", i, seen)
            observations.append(seen)

    trainer = M["MiniTrainer"](script)
    if not inf_only:        # (an inference-only model is not visible to trainers: KeyError)
        trainer.attach_training_models(M["TrainingModelsDict"]({"net": tm}))
    state = {"train": 0, "sync": 0}

    def do_train():
        step = script[state["train"]]
        for p, (_, g) in zip(tm.model.parameters(), step):
            p.grad = g
        M["ScriptedOptimizer"](tm.model.parameters(), [v for v, _ in step]).step()
        state["train"] += 1
        trainer.calls = state["train"]

    def training():
        for op in case["tops"]:
            if op == "train":
                do_train()
            elif op == "sync":
                sched.emit("sync_begin", state["sync"], snapshot())
                tm.sync()
                sched.emit("synced", state["sync"], snapshot())
                state["sync"] += 1
            elif op == "run":
                trainer.calls = state["train"]
                trainer.after_train = lambda: sched.emit("sync_begin", state["sync"], snapshot())
                trainer.run()
                state["train"] = trainer.calls
                sched.emit("synced", state["sync"], snapshot())
                state["sync"] += 1
            else:
                raise ValueError(op)

    verif.hook = hook

    def cleanup():
        verif.hook = None

    ctx = {"tm": tm, "im": im, "snapshot": snapshot, "observations": observations,
           "cleanup": cleanup, "init": (vals, grads)}
    return [inference, training], ctx


TRACES = {"access": lambda M: [], "lines": lambda M: [M["tm"], M["nn"].Module.load_state_dict]}


def run_case(case: dict, driver, late=True, rng=None):
    """One run under `case["schedule"]` (replayable)."""
    M = _mods()
    gran = case.get("gran", "access")
    sched = accsched.AccessSched(TRACES[gran](M), all_lines=(gran == "lines"))
    threads, c = build(case, sched)
    try:
        r = sched.run(threads, case.get("schedule", []), rng=rng)
    finally:
        c["cleanup"]()
    vs, d = finish(case, r, c, driver, late)
    return vs, d, r


# ------------------------------------------------------------------------------------------------
# monitor
# ------------------------------------------------------------------------------------------------

def monitor(case: dict, res: linesched.RunResult, c: dict) -> list[Violation]:
    vs: list[Violation] = []
    seen_keys: set[str] = set()

    def bad(key, what):
        if key not in seen_keys:
            seen_keys.add(key)
            vs.append(Violation("torch:" + key, what + f"; schedule {res.schedule}", case))

    if not res.ok:
        what = ("deadlock" if res.deadlock else "step budget exhausted" if res.exhausted
                else "exception in a thread: " + repr([e for e in res.errors if e]))
        bad("thread-failed", what)
        return vs
    ev = res.events
    inf_only = case.get("inf_only", False)
    xs = [(i, e) for i, e in enumerate(ev) if len(e) > 2 and e[1] == "x"]
    init_vals, _ = c["init"]

    # ---- post-condition of every sync ---------------------------------------------------------
    begins = {e[3]: (i, e[4]) for i, e in xs if e[2] == "sync_begin"}
    ends = {e[3]: (i, e[4]) for i, e in xs if e[2] == "synced"}
    versions = [list(init_vals)]
    for j in sorted(begins):
        pre = begins[j][1]
        if j not in ends:
            continue
        post = ends[j][1]
        if inf_only:
            if post != pre:
                bad("sync:inference-only-changed", f"sync #{j} of an inference-only model changed "
                                                   f"{pre} into {post}")
            continue
        versions.append(list(pre["ptr"]))
        if post["pinf"] != pre["ptr"]:
            bad("sync:inference-params", f"after sync #{j} the inference module holds {post['pinf']}, "
                                         f"the training module held {pre['ptr']} before it")
        if post["ptr"] != pre["ptr"]:
            bad("sync:training-params", f"after sync #{j} the training module holds {post['ptr']}, "
                                        f"before it {pre['ptr']}")
        if post["gtr"] != pre["gtr"]:
            bad("sync:grads", f"after sync #{j} the training module's gradients are {post['gtr']}, "
                              f"before it {pre['gtr']}")
        if post["training"] is not True:
            bad("sync:mode", f"after sync #{j} the training module is not in training mode")
        if post["same"]:
            bad("sync:same-object", f"after sync #{j} both wrappers refer to the same module object")

    # ---- per inference operation --------------------------------------------------------------
    def acc_positions(thread, lo, hi):
        return [i for i in range(lo, hi + 1)
                if ev[i][0] == thread and ev[i][1] in ("acc", "acquire", "release")]

    sync_span = {}
    for j in begins:
        if j in ends:
            p = acc_positions(TR, begins[j][0], ends[j][0])
            sync_span[j] = (p[0], p[-1]) if p else (begins[j][0], begins[j][0])
    idxs, clocks = accsched.happens_before(ev)

    def hb(i1, i2):
        t1 = ev[i1][0]
        return clocks[i1].get(t1, 0) <= clocks[i2].get(t1, 0)

    op_begin = {e[3]: (i, e[4]) for i, e in xs if e[2] == "op_begin"}
    op_end = {e[3]: (i, e[4]) for i, e in xs if e[2] == "op_end"}
    enters = {e[3]: (i, e[4]) for i, e in xs if e[2] == "enter"}
    exits = {e[3]: i for i, e in xs if e[2] == "exit"}
    writes = [(i, e) for i, e in xs if e[0] == TR and e[2] in ("wparam", "wgrad", "wflag")]
    for i_op in sorted(op_begin):
        if i_op not in op_end:
            continue
        b, kind = op_begin[i_op]
        e_, seen = op_end[i_op]
        pos = acc_positions(INF, b, e_)
        first, last = (pos[0], pos[-1]) if pos else (b, e_)
        seen = list(seen)
        if True:
            lo = sum(1 for j, (f, l) in sync_span.items() if l < first)
            hi = sum(1 for j, (f, l) in sync_span.items() if f < last)
            allowed = versions[lo:hi + 1] if not inf_only else versions[:1]
            if seen not in allowed:
                if seen in versions:
                    k = versions.index(seen)
                    why = (f"parameter set #{k}, but only sets #{lo}..#{hi} were in effect during "
                           f"the operation")
                    key = f"{kind}:stale-parameters" if k < lo else f"{kind}:unpublished-parameters"
                else:
                    why = f"a mix: the complete sets are {versions}"
                    key = f"{kind}:mixed-parameters"
                bad(key, f"{kind} #{i_op} observed {seen} — {why}")
        if inf_only or i_op not in enters or i_op not in exits:
            continue
        ent, mod = enters[i_op]
        ext = exits[i_op]
        lit = [(i, e) for i, e in writes if ent < i < ext and e[3] == mod]
        if lit:
            i, e = lit[0]
            bad(f"{kind}:shared-module", f"{kind} #{i_op} holds module {mod} while the training "
                                         f"thread performs {e[2:]} on the same object")
            continue
        acq = [i for i in range(b, ent) if ev[i][0] == INF and ev[i][1] == "acquire"]
        rel = [i for i in range(ext, e_ + 1) if ev[i][0] == INF and ev[i][1] == "release"]
        if not acq or not rel:
            bad(f"{kind}:no-lock", f"{kind} #{i_op} used module {mod} without holding the lock "
                                   f"for the whole access")
            continue
        for i, e in writes:
            if e[3] != mod:
                continue
            ai = max(k for k in idxs if k <= i and ev[k][0] == TR)   # the write's acc event
            if not hb(ai, acq[-1]) and not hb(rel[0], ai):
                bad(f"{kind}:unordered-write",
                    f"{kind} #{i_op} holds module {mod}; the training thread's {e[2:]} on the same "
                    f"object is ordered neither before the operation took the lock nor after it "
                    f"released it (an equivalent schedule overlaps them)")
                break
    return vs


# ------------------------------------------------------------------------------------------------
# model side
# ------------------------------------------------------------------------------------------------

def show_snapshot(s):
    return (f"synced inf={s['inf']} tr={s['tr']} pinf={show_list(s['pinf'])} ptr={show_list(s['ptr'])} "
            f"gtr={show_list(s['gtr'], show_opt)} training={1 if s['training'] else 0}")


def model_lines(case, res, c, late=True):
    lines = [model_reset_line(case, late)]
    expect = ["ok"]
    names = {INF: "inf", TR: "tr"}
    for e in res.events:
        t = names.get(e[0])
        if t is None:
            continue
        if e[1] == "acquire":
            lines.append(f"torchsync ev {t} acq")
        elif e[1] == "release":
            lines.append(f"torchsync ev {t} rel")
        elif e[1] == "x" and e[2] in ("rparam", "wparam"):
            lines.append(f"torchsync ev {t} {e[2]} {e[3]} {e[4]} {e[5]}")
        elif e[1] == "x" and e[2] == "setinf":
            lines.append(f"torchsync ev {t} setinf {e[3]}")
        elif e[1] == "x" and e[2] == "getinf":
            lines.append(f"torchsync chk infref {e[3]}")
        elif e[1] == "x" and e[2] == "synced":
            lines.append(f"torchsync ev {t} " + show_snapshot(e[4]))
        else:
            continue
        expect.append("ok")
    fin = c["snapshot"]()
    tm, im = c["tm"], c["im"]
    mods = {fin["inf"]: im.__dict__["_model"], fin["tr"]: tm.model}

    def show_mod(i):
        m = mods.get(i)
        if m is None:       # inference-only: one shared object; the model's other slot is untouched
            vals, grads = c["init"]
            return f"p{i}={show_list(vals)} g{i}={show_list(grads, show_opt)} t{i}=1"
        return (f"p{i}={show_list([p._data for p in m.parameters()])} "
                f"g{i}={show_list([p._grad for p in m.parameters()], show_opt)} "
                f"t{i}={1 if m.training else 0}")

    lines.append("torchsync end")
    expect.append(("done obs=" + show_list(c["observations"], show_list), f"inf={fin['inf']} "
                   f"tr={fin['tr']} {show_mod('0')} {show_mod('1')}"))
    return lines, expect


def finish(case, res, c, driver, late=True):
    violations = monitor(case, res, c)
    disagreement = None
    if driver is not None and res.ok:
        lines, expect = model_lines(case, res, c, late)
        replies = driver.batch(lines)
        for k, (ln, want, got) in enumerate(zip(lines, expect, replies)):
            if isinstance(want, tuple):
                ok = got.startswith(want[0] + " ") and got.endswith(want[1])
                want = want[0] + " … " + want[1]
            else:
                ok = got == want or got.startswith(want + " ")
            if not ok:
                disagreement = Disagreement(
                    "torchsync-follow", f"event {k} `{ln}`: model answers {got!r} (implementation "
                                        f"trace expects {want!r}); schedule {res.schedule}", case)
                break
    return violations, disagreement


# ------------------------------------------------------------------------------------------------
# suites
# ------------------------------------------------------------------------------------------------

def features(case, res):
    """What happened in a run, for the evidence histogram / distinctness."""
    order = tuple(t for _, t in res.lock_order)
    return order


def explore_case(base: dict, driver, res: SuiteResult, max_runs=None):
    M = _mods()
    stats: dict = {}
    orders = set()
    gen = accsched.explore(lambda s: build(base, s), trace=TRACES["access"](M), max_runs=max_runs,
                           stats=stats)
    for r, c in gen:
        c["cleanup"]()
        case = dict(base, gran="access", schedule=r.schedule)
        vs, d = finish(case, r, c, driver)
        res.evaluations += 1
        res.hit("runs:complete")
        res.hit("decisions", len(r.choices))
        orders.add(features(case, r))
        res.violations += vs
        if d:
            res.disagreements.append(d)
        if len(res.violations) > 20 or len(res.disagreements) > 20:
            break
    res.hit("runs:sleep-set-pruned", stats.get("pruned", 0))
    if stats.get("truncated"):
        res.hit("scenario-truncated")
    for o in orders:
        res.nontrivial.add((tuple(base["iops"]), tuple(base["tops"]), base["nparams"], o))
    return stats


IOP_SEQS = [["infer"], ["unwrap"], ["infer", "infer"], ["infer", "unwrap"], ["unwrap", "infer"],
            ["unwrap", "unwrap"]]
TOP_SEQS = [["sync"], ["train", "sync"], ["sync", "train"], ["train", "sync", "train"], ["run"],
            ["train", "sync", "train", "sync"], ["run", "run"], ["sync", "sync"],
            ["train", "sync", "sync", "train"]]


def suite_exhaustive(ctx: Ctx) -> SuiteResult:
    res = SuiteResult(
        "torchsync-all-schedules", exhaustive=True,
        rule="corpus, then for every inference program of 1-2 operations over {infer, unwrap} x "
             "every training program with <= 2 syncs out of " + str(TOP_SEQS) + ", 2 parameters: "
             "EVERY schedule up to commutation of independent accesses (sleep-set search; "
             "preemption at lock acquisitions, accesses to the inference wrapper's module reference, "
             "and every parameter/gradient/mode access of the stand-in); each run: monitor + model "
             "follows the event trace; non-trivial = all; distinct = by (programs, lock order)")
    for c in corpus_cases("C19"):
        if c["case"].get("kind", "conc") == "conc":
            vs, d, _ = run_case(c["case"], ctx.driver)
            res.evaluations += 1
            res.hit("corpus")
            res.violations += vs
            if d:
                res.disagreements.append(d)
    thorough = ctx.tier == "thorough"
    for iops in IOP_SEQS:
        for tops in TOP_SEQS:
            base = {"kind": "conc", "nparams": 2, "iops": iops, "tops": tops}
            explore_case(base, ctx.driver, res, max_runs=None if thorough else 4000)
            if iops == ["unwrap", "unwrap"]:
                explore_case(dict(base, reuse_ctx=True), ctx.driver, res, max_runs=None if thorough else 4000)
            if iops == ["infer"] and len(tops) >= 3:
                explore_case(dict(base, frozen=[0]), ctx.driver, res, max_runs=None if thorough else 4000)
            if len(res.violations) > 20 or len(res.disagreements) > 20:
                return res
    if thorough:
        for iops in (["unwrap", "infer", "unwrap"], ["infer", "unwrap", "infer"]):
            base = {"kind": "conc", "nparams": 3, "iops": iops, "tops": ["run", "train", "sync"]}
            explore_case(base, ctx.driver, res, max_runs=60000)
    res.sample(base)
    return res


def suite_flags(ctx: Ctx) -> SuiteResult:
    res = SuiteResult(
        "torchsync-inference-only", exhaustive=True,
        rule="inference_thread_only=True (one shared module, sync must do nothing): every schedule "
             "of 1-2 inference operations against sync/sync-sync; has_inference_model=False: sync "
             "does nothing and inference_model raises; non-trivial = all")
    for iops in IOP_SEQS:
        for tops in (["sync"], ["sync", "sync"]):
            base = {"kind": "conc", "nparams": 2, "iops": iops, "tops": tops, "inf_only": True}
            explore_case(base, ctx.driver, res)
    M = _mods()
    net = M["Net"]([1, 2], [None, 3])
    tm = M["ptorch"].TorchTrainingModel(net, has_inference_model=False)
    before = [(p._data, p._grad) for p in net.parameters()]
    tm.sync()
    try:
        tm.inference_model
        raised = False
    except RuntimeError:
        raised = True
    res.evaluations += 1
    res.hit("has_inference_model=False")
    if not raised or [(p._data, p._grad) for p in net.parameters()] != before or tm.model is not net:
        res.violations.append(Violation("torch:no-inference-model", "sync changed a model without "
                                        "inference model, or inference_model did not raise",
                                        {"kind": "flags"}))
    res.sample(base)
    return res


def random_case(rng, big=False) -> dict:
    n = rng.choice([1, 2, 2, 3, 4])
    iops = [rng.choice(["infer", "unwrap", "unwrap"]) for _ in range(rng.randint(1, 4 if big else 3))]
    tops = [rng.choice(["train", "sync", "sync", "run"]) for _ in range(rng.randint(1, 6 if big else 4))]
    if not any(o in ("sync", "run") for o in tops):
        tops.append("sync")
    gran = rng.choice(["access", "lines", "lines"])
    p_switch = rng.choice([0.05, 0.15, 0.4])
    return {"kind": "conc", "nparams": n, "iops": iops, "tops": tops, "gran": gran,
            "grads": rng.choice(["mixed", "mixed", "none"]),
            "schedule": [1 if rng.random() < p_switch else 0 for _ in range(700)],
            "reuse_ctx": rng.random() < 0.35, "frozen": [0] if rng.random() < 0.3 else []}


def suite_random(ctx: Ctx) -> SuiteResult:
    res = SuiteResult(
        "torchsync-random-schedules",
        rule="1-4 parameters, 1-3 inference operations, 1-4 training operations (train/sync/run), "
             "random schedules at access granularity or with preemption before every source line "
             "of torch/model.py and the stand-in's load_state_dict; non-trivial = the two threads' "
             "critical sections alternate at least once; distinct = by (programs, parameters, lock "
             "order)")
    for _ in range(ctx.n(1200, 25000)):
        case = random_case(ctx.rng)
        vs, d, r = run_case(case, ctx.driver)
        case = dict(case, schedule=r.schedule)
        res.evaluations += 1
        order = features(case, r)
        res.hit("gran:" + case["gran"])
        res.hit("decisions", len(r.choices))
        res.hit("preemptions", r.preemptions)
        for op in case["iops"] + case["tops"]:
            res.hit("op:" + op)
        if any(a != b for a, b in zip(order, order[1:])):
            res.nontrivial.add((tuple(case["iops"]), tuple(case["tops"]), case["nparams"], order))
        res.sample(case)
        res.violations += vs
        if d:
            res.disagreements.append(d)
        if len(res.violations) > 20 or len(res.disagreements) > 20:
            break
    return res


def suite_shapes(ctx: Ctx) -> SuiteResult:
    """Module *shapes* the interleaving suites do not vary: state held in buffers only (a running
    normaliser, an EMA target), parameters and buffers, nested sub-modules, no state at all. Monitor
    only (sequential): identity of the two modules, old-then-new in full, post-condition of sync."""
    res = SuiteResult("torchsync-module-shapes", exhaustive=True,
                      rule="module shapes {params, buffers only, params+buffers, nested buffers-only child, "
                           "stateless} x inference_thread_only x (write, look, sync, look, write, look): the "
                           "inference side never holds the module the trainer writes (unless inference-only), "
                           "sees the old state in full before a sync and the new one after, and sync leaves the "
                           "training module with equal values in training mode; non-trivial = has state")
    M = _mods()
    nn, torch, ptorch = M["nn"], M["torch"], M["ptorch"]

    def make(shape):
        class Leaf(nn.Module):
            def __init__(self, np_, nb):
                super().__init__()
                for k in range(np_):
                    setattr(self, f"p{k}", nn.Parameter(10 + k))
                for k in range(nb):
                    self.register_buffer(f"b{k}", torch.Tensor(20 + k))

        class Nest(nn.Module):
            def __init__(self):
                super().__init__()
                self.child = Leaf(0, 2)
                self.register_buffer("count", torch.Tensor(0))
        return {"params": lambda: Leaf(2, 0), "buffers-only": lambda: Leaf(0, 2),
                "params+buffers": lambda: Leaf(1, 2), "nested-buffers-only": Nest,
                "stateless": lambda: Leaf(0, 0)}[shape]()

    def state(m):
        return dict(m.state_dict())

    def write(m, base):
        for k, t in enumerate(list(m.parameters()) + list(m.buffers())):
            t.data = base + k

    for shape in ("params", "buffers-only", "params+buffers", "nested-buffers-only", "stateless"):
        for inf_only in (False, True):
            case = {"shape": shape, "inf_only": inf_only}
            res.evaluations += 1
            res.hit("shape:" + shape)
            if shape != "stateless":
                res.nontrivial.add((shape, inf_only))

            def bad(key, what, case=case):
                res.violations.append(Violation("torch:shape:" + key, f"{what} (module shape {case['shape']}, "
                                                f"inference_thread_only={case['inf_only']})", {"shapes": case}))
            net = make(shape)
            tm = ptorch.TorchTrainingModel(net, inference_thread_only=inf_only,
                                           inference_procedure=lambda model: (model, state(model)))
            im = tm.inference_model
            seen_mod, s0 = im.infer()
            if not inf_only and seen_mod is tm.model:
                bad("shared-module", "the inference side was handed the very module object the trainer modifies")
            init = state(net)
            if s0 != init:
                bad("initial-copy", f"a new inference model shows {s0}, the training model holds {init}")
            if inf_only:
                continue
            write(tm.model, 100)                       # the trainer is at work: nothing reaches inference yet
            seen_mod, s1 = im.infer()
            if s1 != init:
                bad("sees-training-writes", f"before any sync inference sees {s1}, expected the old state {init} in full")
            want = state(tm.model)
            tm.model.train()
            tm.sync()
            seen_mod, s2 = im.infer()
            if s2 != want:
                bad("sync-post", f"after sync inference sees {s2}, the just-trained state is {want}")
            if state(tm.model) != want or not tm.model.training:
                bad("sync-post-training-side", f"after sync the training model holds {state(tm.model)} "
                                                f"(training={tm.model.training}), expected {want} in training mode")
            if seen_mod is tm.model:
                bad("shared-module", "after sync both sides hold the same module object")
            write(tm.model, 200)
            seen_mod, s3 = im.infer()
            if s3 != want:
                bad("sees-training-writes", f"after the sync, further training writes show through: {s3} vs {want}")
    return res


suite_shapes.needs_driver = False


def suite_malformed(ctx: Ctx) -> SuiteResult:
    res = SuiteResult("torchsync-malformed",
                      rule="malformed driver lines must answer bad-op; events the model cannot make "
                           "must answer diverge; non-trivial = all")
    if ctx.driver is None:
        return res
    ok_reset = model_reset_line({"nparams": 2, "iops": ["infer"], "tops": ["sync"]})
    bad = ["torchsync", "torchsync reset", "torchsync reset late=2 sync=1", "torchsync ev",
           "torchsync ev inf", "torchsync ev nobody acq", "torchsync chk infref 7", "torchsync chk",
           "torchsync run", "torchsync run sched=[x]", "torchsync frob",
           ok_reset.replace("iprog=[infer]", "iprog=[fly]"),
           ok_reset.replace("tprog=[sync]", "tprog=[train:1]"),
           ok_reset.replace("p0=[10,20]", "p0=[10,,20]")]
    for ln, r in zip(bad, ctx.driver.batch(bad)):
        res.evaluations += 1
        res.hit("malformed")
        res.nontrivial.add(ln)
        if r != "bad-op":
            res.disagreements.append(Disagreement("torchsync-malformed", f"`{ln}` answered {r!r}", ln))
    div = [ok_reset, "torchsync ev inf rel", "torchsync ev tr setinf 0", "torchsync ev inf rparam 0 0 10",
           "torchsync ev inf acq", "torchsync ev inf rparam 0 0 10", "torchsync ev inf rparam 1 0 11"]
    want = ["ok", "diverge", "diverge", "diverge", "ok", "diverge", "diverge"]
    for ln, w, r in zip(div, want, ctx.driver.batch(div)):
        res.evaluations += 1
        res.hit("impossible-event" if w == "diverge" else "possible-event")
        res.nontrivial.add(ln)
        if not r.startswith(w):
            res.disagreements.append(Disagreement("torchsync-malformed", f"`{ln}` answered {r!r}", ln))
    res.sample({"lines": bad[:3]})
    return res


# ------------------------------------------------------------------------------------------------
def search(ctx: Ctx, disagreements, broken):
    """§5: look for a schedule on which the PROPERTY fails on the implementation."""
    import random
    out: list[Violation] = []
    for d in disagreements:
        if isinstance(d.case, dict) and d.case.get("kind") == "conc":
            vs, _, _ = run_case(d.case, None)
            out += vs
    if out:
        return out
    tmp = SuiteResult("search")
    bases = [d.case for d in disagreements if isinstance(d.case, dict) and d.case.get("kind") == "conc"][:3]
    bases += [{"kind": "conc", "nparams": 2, "iops": i, "tops": t}
              for i in (["unwrap"], ["infer"], ["unwrap", "infer"]) for t in (["train", "sync", "train"], ["run", "run"])]
    for b in bases:
        base = {k: v for k, v in b.items() if k not in ("schedule", "gran")}
        explore_case(base, None, tmp, max_runs=ctx.n(20000, 200000))
        if tmp.violations:
            return tmp.violations
    rng = random.Random(ctx.seed + 1)
    for _ in range(ctx.n(6000, 60000)):
        vs, _, _ = run_case(random_case(rng, big=True), None)
        if vs:
            return vs
    return out


def replay(ctx: Ctx, payload: dict) -> SuiteResult:
    res = SuiteResult("replay")
    case = payload.get("case") or payload.get("first_disagreement")
    vs, d, r = run_case(case, ctx.driver)
    print("lock order:", r.lock_order)
    print("events:", [e for e in r.events if e[1] in ("x", "acquire", "release")][:300])
    res.evaluations = 1
    res.violations = vs
    if d:
        res.disagreements.append(d)
    return res


ASSUMPTIONS = [
    "Real PyTorch is replaced by the stand-in package harness/stubs/torch; assumed behaviour: "
    "Module.parameters()/buffers() iterate in registration order; state_dict() returns copies; "
    "load_state_dict() checks the key sets, then copies values into the EXISTING parameter objects "
    "one parameter at a time and touches neither .grad nor .training; eval()/train() only toggle "
    ".training; to()/type()/compile() keep the parameter objects; copy.deepcopy(module) shares "
    "no parameter with the original and preserves data and grad; reading/writing .data or .grad of "
    "one parameter is atomic and nothing larger is; torch.inference_mode is a thread-local "
    "context manager/decorator that synchronises nothing; torch.save/load round-trip a mapping",
    "parameters are integers (a Python number per parameter); tensor arithmetic, devices, dtypes, "
    "autograd and real optimizers are absent",
    "one inference thread and one training thread per model (the thread layout of launch()); the "
    "lock is not taken re-entrantly by the inference thread (infer inside an entered unwrap is "
    "not modelled)",
    "preemption granularity: accesses to shared state (exhaustive suite) / source lines (random "
    "suite); CPython: a single attribute load/store is atomic",
    "exhaustive enumeration = one schedule per class of schedules that differ only in the order of "
    "independent accesses (different locations, or two reads), for programs of <= 2 inference "
    "operations x <= 2 syncs with 2 parameters; random schedules beyond",
    "user code inside unwrap()/the inference procedure only reads parameters; the training thread "
    "only writes the module its wrapper currently refers to",
]

REQUIRED = [
    "Pamiq.TorchSync.sync_post", "Pamiq.TorchSync.no_shared_module", "Pamiq.TorchSync.old_or_new",
    "Pamiq.TorchSync.observes_current", "Pamiq.TorchSync.never_raises",
    "Pamiq.TorchSync.early_unwrap_shares_module", "Pamiq.TorchSync.early_unwrap_mixed_observation",
]

if __name__ == "__main__":
    setup_repo_path()
    sys.exit(run_check(
        "C19", lean_modules=["Pamiq.Props.C19", "Pamiq.Lemmas.TorchSync"], required_theorems=REQUIRED,
        suites=[suite_exhaustive, suite_flags, suite_shapes, suite_random, suite_malformed],
        search=search, replay=replay, assumptions=ASSUMPTIONS,
        trusted_extra=["harness/stubs/torch (stand-in for PyTorch, behaviour listed in the assumptions)",
                       "harness/linesched.py + harness/accsched.py (baton scheduler, access-granular "
                       "preemption, sleep-set enumeration, cooperating re-entrant lock substituted for "
                       "torch.model.RLock, property observing TorchInferenceModel._model)"],
        level_text="invariant over all reachable states of the interleaved micro-step model "
                   "(no shared module, old-or-new, sync post-condition, no exception), proved "
                   "counterexample for the early-unwrap variant; trace refinement of the real "
                   "wrappers against the model under deterministic schedules"))
