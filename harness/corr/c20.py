"""C20 — the Gymnasium adapter respects the episode protocol.

Correspondence: the real `GymEnvironment`, `GymAgent` (through a recording subclass) and
`Interaction` are driven by a scripted stand-in `gymnasium.Env` (flags per `env.step`) and a
scripted agent (which `on_reset` / `on_step` occurrence sets `need_reset`); the complete call
log, `environment.observe()` and `agent.need_reset` are compared for equality with the Lean model
(`Pamiq/Model/Gym.lean`). Monitor: the clauses of the property written directly in Python on the
recorded calls (with the real payloads: observation, reward, flags, info objects), independent of
the Lean model.

Gymnasium itself is not installed: `harness/stubs/gymnasium` provides only `Env` and `make`.
"""
from __future__ import annotations

import itertools
import sys
from pathlib import Path

sys.path.insert(0, str(Path(__file__).resolve().parent.parent))
from framework import (Ctx, Disagreement, SuiteResult, Violation, corpus_cases, run_check,
                       setup_repo_path)

STUBS = str(Path(__file__).resolve().parent.parent / "stubs")


def _imports():
    """Import the real adapter classes (stand-in `gymnasium` first on sys.path)."""
    setup_repo_path()
    if STUBS not in sys.path:
        sys.path.insert(1, STUBS)
    import gymnasium
    from pamiq_core.gym import GymAgent, GymEnvironment
    from pamiq_core.gym.types import EnvReset, EnvStep, GymAction
    from pamiq_core.interaction import Interaction
    return gymnasium, GymAgent, GymEnvironment, Interaction, EnvReset, EnvStep, GymAction


# ------------------------------------------------------------------------------------------------
# scripted environment / recording agent
# ------------------------------------------------------------------------------------------------

class Rec:
    """Shared call record of one case: `events` are the canonical strings compared with the
    model, `raw` the same calls with the real Python payloads (for the monitor)."""

    def __init__(self) -> None:
        self.events: list[str] = []
        self.raw: list[tuple] = []


def label(obs) -> str:
    """Canonical name of an observation token produced by ScriptedEnv (`R3`, `S5`), `?` else."""
    if isinstance(obs, tuple) and len(obs) == 2 and obs[0] in ("R", "S") and isinstance(obs[1], int):
        return f"{obs[0]}{obs[1]}"
    return "?"


def act_label(a) -> str:
    if isinstance(a, tuple) and len(a) == 3 and a[0] == "a":
        return f"a={a[1]}{a[2]}"
    return "a=?"


def b(x) -> str:
    return "1" if x else "0"


class BoolLike:
    """Stand-in for numpy.bool_: truthy / falsy, but neither `True` nor `False` itself."""

    def __init__(self, v: bool) -> None:
        self.v = bool(v)

    def __bool__(self) -> bool:
        return self.v

    def __eq__(self, other) -> bool:
        return bool(other) == self.v

    def __hash__(self) -> int:
        return hash(self.v)

    def __repr__(self) -> str:
        return f"bool_({self.v})"


FLAG_FORMS = [bool, BoolLike, int]


def make_classes():
    gymnasium, GymAgent, GymEnvironment, Interaction, EnvReset, EnvStep, GymAction = _imports()

    class ScriptedEnv(gymnasium.Env):
        def __init__(self, flags: list[tuple[bool, bool]], rec: Rec) -> None:
            self.flags = flags
            self.rec = rec
            self.n_reset = 0
            self.n_step = 0
            self.closed = 0

        def reset(self, *, seed=None, options=None):
            j = self.n_reset
            self.n_reset += 1
            out = (("R", j), {"reset": j})
            self.rec.events.append(f"envReset:{j}")
            self.rec.raw.append(("envReset", j, out))
            return out

        def step(self, action):
            k = self.n_step
            self.n_step += 1
            t, u = self.flags[k]
            # environments commonly return their episode flags as numpy.bool_ (or 0/1): truthiness is
            # all gymnasium promises. Every step uses another representation.
            t, u = (FLAG_FORMS[k % 3](t), FLAG_FORMS[(k + 1) % 3](u))
            # reward: a dyadic float, distinct per step
            # `info` is the environment's own business: the keys some gymnasium wrappers and vector
            # environments use are as good as any others and mean nothing to the adapter
            info = {"step": k}
            if k % 2 == 0:
                info["final_observation"] = ("F", k)
                info["final_info"] = {"k": k}
            if k % 3 == 0:
                info["episode"] = {"r": 1.0, "l": k}
                info["TimeLimit.truncated"] = bool(u)
            out = (("S", k), k / 4 - 1, t, u, info)
            self.rec.events.append(f"envStep:{k}:{act_label(action)}:{b(t)}:{b(u)}")
            self.rec.raw.append(("envStep", k, action, out))
            return out

        def close(self):
            self.closed += 1

    class RecordingAgent(GymAgent):
        def __init__(self, rr: list[bool], rs: list[bool], rec: Rec) -> None:
            super().__init__()
            self.rr, self.rs, self.rec = rr, rs, rec
            self.n_on_reset = 0
            self.n_on_step = 0

        def on_reset(self, obs, info):
            o = self.n_on_reset
            self.n_on_reset += 1
            a = ("a", "R", o)
            self.rec.events.append(f"onReset:{o}:{label(obs)}")
            self.rec.raw.append(("onReset", o, (obs, info), a, self.rr[o]))
            if self.rr[o]:
                self.need_reset = True
            return a

        def on_step(self, obs, reward, terminated, truncated, info):
            o = self.n_on_step
            self.n_on_step += 1
            a = ("a", "S", o)
            self.rec.events.append(f"onStep:{o}:{label(obs)}:{b(terminated)}:{b(truncated)}")
            self.rec.raw.append(("onStep", o, (obs, reward, terminated, truncated, info), a,
                                 self.rs[o]))
            if self.rs[o]:
                self.need_reset = True
            return a

        def step(self, observation):
            act = super().step(observation)          # the real GymAgent.step
            self.rec.events.append(f"ret:{act_label(act.action)}:{b(act.need_reset)}")
            self.rec.raw.append(("ret", act.action, act.need_reset))
            return act

    return (gymnasium, ScriptedEnv, RecordingAgent, GymEnvironment, Interaction, EnvReset,
            EnvStep)


_CLS = None


def classes():
    global _CLS
    if _CLS is None:
        _CLS = make_classes()
    return _CLS


def show_obs(obs, EnvReset, EnvStep) -> str:
    def one(o):
        if isinstance(o, EnvReset):
            return f"reset:{label(o.obs)}"
        if isinstance(o, EnvStep):
            return f"step:{label(o.obs)}:{b(o.terminated)}:{b(o.truncated)}"
        return "?"
    if isinstance(obs, tuple):
        if len(obs) == 2 and isinstance(obs[0], EnvStep) and isinstance(obs[1], EnvReset):
            return "both:" + one(obs[0])[5:] + ":" + label(obs[1].obs)
        return "?"
    return one(obs)


# ------------------------------------------------------------------------------------------------
# monitor: the property statement on the recorded calls (no reference to the Lean model)
# ------------------------------------------------------------------------------------------------

def monitor(raw: list[tuple], n_steps_done: int, case) -> list[Violation]:
    vs: list[Violation] = []

    def bad(key, what):
        vs.append(Violation("gym:" + key, what, case))

    produced: list[tuple] = []      # ("reset", payload) / ("step", payload) in production order
    n_delivered = 0
    last_cb_action = None           # return value of the latest callback
    last_cb_requested = None        # did it set need_reset
    have_cb = False
    must_reset_before_step = False  # a step ended the episode, no reset yet
    pending_request = 0             # 0 none; 1 = request standing, expecting env.step; 2 = expecting reset
    n_resets = 0
    n_need = 0                      # steps that ended the episode or carried a request
    last_ret = None
    for i, ev in enumerate(raw):
        kind = ev[0]
        if kind == "envReset":
            n_resets += 1
            if i == 0:
                pass
            else:
                prev = raw[i - 1]
                if prev[0] != "envStep":
                    bad("reset-count", f"event {i}: env.reset() not directly after an env.step")
                else:
                    _, _, _, out = prev
                    carried = last_ret[2] if last_ret is not None else False
                    if not (out[2] or out[3] or carried):
                        bad("reset-count", f"event {i}: env.reset() after step {prev[1]} that neither "
                                           f"ended the episode nor carried a request")
            if pending_request == 1:
                bad("request-not-honoured", f"event {i}: reset before the one more env.step")
            pending_request = 0
            must_reset_before_step = False
            produced.append(("reset", ev[2]))
        elif kind == "envStep":
            _, k, action, out = ev
            if i == 0 or n_resets == 0:
                bad("reset-count", "env.step before the setup reset")
            if must_reset_before_step:
                bad("step-after-done", f"env.step #{k} called after a step that ended the episode "
                                       f"without a reset in between")
            if pending_request == 2:
                bad("request-not-honoured", f"env.step #{k}: second step after a standing request "
                                            f"without a reset")
            if pending_request == 1:
                pending_request = 2
            if not have_cb or action is not last_cb_action:
                bad("action-provenance", f"env.step #{k} received {action!r}, the latest callback "
                                         f"returned {last_cb_action!r}")
            if last_ret is None or last_ret[1] is not action:
                bad("action-provenance", f"env.step #{k} received {action!r}, GymAgent.step had "
                                         f"returned {last_ret!r}")
            carried = last_ret[2] if last_ret is not None else False
            if out[2] or out[3]:
                must_reset_before_step = True
            if out[2] or out[3] or carried:
                n_need += 1
            produced.append(("step", out))
        elif kind in ("onReset", "onStep"):
            _, o, payload, a, requested = ev
            want = "reset" if kind == "onReset" else "step"
            if n_delivered >= len(produced):
                bad("delivery", f"{kind} #{o} called with {payload!r} but every produced result had "
                                f"already been delivered")
            else:
                pk, pp = produced[n_delivered]
                same = pk == want and len(pp) == len(payload) and all(
                    (x == y and type(x) is type(y)) for x, y in zip(pp, payload))
                if not same:
                    bad("delivery", f"{kind} #{o} received {payload!r}; next undelivered result is "
                                    f"{pk} {pp!r}")
            n_delivered += 1
            last_cb_action, last_cb_requested, have_cb = a, requested, True
        elif kind == "ret":
            _, action, req = ev
            if n_delivered != len(produced):
                bad("delivery", f"GymAgent.step returned with {len(produced) - n_delivered} produced "
                                f"result(s) undelivered")
            if have_cb and bool(req) != bool(last_cb_requested):
                bad("request-lost" if last_cb_requested else "spurious-request",
                    f"GymAction.need_reset = {req} but the latest callback "
                    f"{'set' if last_cb_requested else 'did not set'} need_reset")
            if req:
                pending_request = 1
            last_ret = ev
    if must_reset_before_step:
        bad("step-after-done", "episode ended by the last env.step and no reset followed")
    if pending_request in (1, 2) and n_steps_done > 0:
        bad("request-not-honoured", "a standing request was not followed by env.step and env.reset")
    if n_resets != 1 + n_need and n_resets > 0:
        bad("reset-count", f"{n_resets} resets, expected 1 + {n_need}")
    # everything produced before the last agent.step has been delivered, nothing twice
    if n_delivered > len(produced):
        bad("delivery", "more deliveries than results")
    return vs


# ------------------------------------------------------------------------------------------------
# one case on both sides
# ------------------------------------------------------------------------------------------------

def run_case(case: dict, driver):
    """case = {"flags": ["10",…], "rr": [0/1…], "rs": [0/1…], "n": steps,
               "early_step": bool (Interaction.step() before setup), "user_request": bool
               (agent.need_reset = True before setup), "by_id": bool (environment through make)}"""
    gymnasium, ScriptedEnv, RecordingAgent, GymEnvironment, Interaction, EnvReset, EnvStep = classes()
    flags = [(f[0] == "1", f[1] == "1") for f in case["flags"]]
    rr = [bool(x) for x in case["rr"]]
    rs = [bool(x) for x in case["rs"]]
    n = case["n"]
    rec = Rec()
    env = ScriptedEnv(flags, rec)
    if case.get("by_id"):
        gymnasium.registry["Scripted-v0"] = lambda **kw: env
        genv = GymEnvironment("Scripted-v0")
        del gymnasium.registry["Scripted-v0"]
    else:
        genv = GymEnvironment(env)
    agent = RecordingAgent(rr, rs, rec)
    inter = Interaction(agent, genv)
    per_step = case.get("per_step", True)
    # a second, unrelated agent / environment pair alive in the same process (an evaluation run next to the training
    # run) that asks for a reset at every step: nothing of it may show in the pair under test
    other = None
    if case.get("neighbour"):
        orec = Rec()
        oagent = RecordingAgent([True] * 4096, [True] * 4096, orec)
        other = Interaction(oagent, GymEnvironment(ScriptedEnv([(False, False)] * 4096, orec)))
        other.setup()
        _plain_step = inter.step

        def _step_with_neighbour():
            other.step()
            _plain_step()
            other.step()
        inter.step = _step_with_neighbour

    lines = [f"gym reset flags=[{','.join(case['flags'])}] rr=[{','.join(b(x) for x in rr)}] "
             f"rs=[{','.join(b(x) for x in rs)}]"]
    impl = ["ok"]
    if case.get("early_step"):
        lines.append("gym step")
        try:
            inter.step()
            impl.append("ok")
        except AttributeError:
            impl.append("err AttributeError")
    if case.get("user_request"):
        agent.need_reset = True
        lines.append("gym user_request")
        impl.append("ok")
    if per_step:
        inter.setup()
        lines.append("gym setup")
        impl.append("ok")
        lines += ["gym obs", "gym need_reset"]
        impl += [show_obs(genv.observe(), EnvReset, EnvStep), b(agent.need_reset)]
        for k in range(n):
            inter.step()
            if k == n - 1 and case.get("second"):
                # nobody looks at the environment between the last step and the teardown
                lines += ["gym step", "gym need_reset"]
                impl += ["ok", b(agent.need_reset)]
                continue
            lines += ["gym step", "gym obs", "gym need_reset"]
            impl += ["ok", show_obs(genv.observe(), EnvReset, EnvStep), b(agent.need_reset)]
    else:
        inter.setup()
        for _ in range(n):
            inter.step()
        if case.get("second"):
            lines += [f"gym run {n}", "gym need_reset"]
            impl += ["ok", b(agent.need_reset)]
        else:
            lines += [f"gym run {n}", "gym obs", "gym need_reset"]
            impl += ["ok", show_obs(genv.observe(), EnvReset, EnvStep), b(agent.need_reset)]
    cut = len(rec.raw)
    m = int(case.get("second", 0))
    if m:
        # the run is stopped and the same objects are set up again (a second launch in one process):
        # the new session starts with exactly one reset, whatever the last step of the first one was
        inter.teardown()
        inter.setup()
        lines += ["gym setup", "gym obs", "gym need_reset"]
        impl += ["ok", show_obs(genv.observe(), EnvReset, EnvStep), b(agent.need_reset)]
        for _ in range(m):
            inter.step()
            lines += ["gym step", "gym obs", "gym need_reset"]
            impl += ["ok", show_obs(genv.observe(), EnvReset, EnvStep), b(agent.need_reset)]
    lines.append("gym log")
    impl.append("[" + ",".join(rec.events) + "]")

    violations = monitor(rec.raw[:cut], n, case)
    if m:
        violations += [Violation(v.key + ":second-session", v.what, v.case)
                       for v in monitor(rec.raw[cut:], m, case)]
    env.closed = 0 if m else env.closed
    if env.closed:
        violations.append(Violation("gym:closed-early", "env.close() called while in use", case))
    disagreement = None
    if driver is not None:
        replies = driver.batch(lines)
        for k, (ln, a, m) in enumerate(zip(lines, impl, replies)):
            if a != m:
                disagreement = Disagreement(
                    "gym", f"line {k} `{ln}`: implementation {a[:300]!r}, model {m[:300]!r}", case)
                break
    return violations, disagreement, rec


# ------------------------------------------------------------------------------------------------
# generators
# ------------------------------------------------------------------------------------------------

def scripts_from_pattern(pattern, final_bits):
    """Per-step pattern [(flag, req_last)] -> occurrence scripts. `req_last`: the last callback of
    that step's agent.step sets need_reset. `final_bits[i]`: the final-step callback of a
    (step, reset) pair delivered at step i sets it (irrelevant for the protocol, cleared by
    `_on_reset`). Only chooses WHICH scripts are tested; both sides get the occurrence scripts."""
    rr: list[int] = []
    rs: list[int] = []
    prev_reset = True      # observation at step 0 is the setup reset
    first = True
    for i, (flag, req) in enumerate(pattern):
        if first:
            rr.append(req)
        elif prev_reset:
            rs.append(final_bits[i % len(final_bits)] if final_bits else 0)
            rr.append(req)
        else:
            rs.append(req)
        first = False
        prev_reset = flag != "00" or bool(req)
    # one spare entry each so that the scripts are never the binding constraint
    return rr + [0], rs + [0]


def case_from_pattern(pattern, final_bits=(0,), **extra):
    rr, rs = scripts_from_pattern(pattern, list(final_bits))
    return {"flags": [f for f, _ in pattern], "rr": rr, "rs": rs, "n": len(pattern), **extra}


def classify(case, rec: Rec) -> tuple:
    """Non-trivial features of an executed case."""
    ev = rec.events
    n_done = sum(1 for e in ev if e.startswith("envStep") and (e.endswith(":1:0") or
                                                               e.endswith(":0:1") or e.endswith(":1:1")))
    n_req = sum(1 for e in ev if e.startswith("ret") and e.endswith(":1"))
    n_resets = sum(1 for e in ev if e.startswith("envReset"))
    return n_done, n_req, n_resets


def account(res: SuiteResult, case, rec: Rec) -> None:
    raw = rec.raw
    res.hit("steps", sum(1 for e in raw if e[0] == "envStep"))
    for i, e in enumerate(raw):
        if e[0] == "envStep":
            out = e[3]
            carried = False
            for p in reversed(raw[:i]):
                if p[0] == "ret":
                    carried = p[2]
                    break
            done = out[2] or out[3]
            res.hit("branch:" + ("done+request" if done and carried else "done" if done else
                                 "request" if carried else "plain"))
            if out[2] and out[3]:
                res.hit("flags:terminated+truncated")
            elif out[2]:
                res.hit("flags:terminated")
            elif out[3]:
                res.hit("flags:truncated")
        elif e[0] == "onReset" and e[4]:
            res.hit("request:in-on_reset")
        elif e[0] == "onStep" and e[4]:
            nxt = raw[i + 1][0] if i + 1 < len(raw) else ""
            res.hit("request:in-final-on_step" if nxt == "onReset" else "request:in-on_step")


def run_into(res: SuiteResult, case, ctx: Ctx, nontrivial_rule=None) -> None:
    vs, d, rec = run_case(case, ctx.driver)
    res.evaluations += 1
    account(res, case, rec)
    feat = classify(case, rec)
    if feat[0] + feat[1] > 0:
        res.nontrivial.add((tuple(case["flags"]), tuple(case["rr"]), tuple(case["rs"]), case["n"]))
    res.violations += vs
    if d:
        res.disagreements.append(d)


ALPHABET = [(f, r) for f in ("00", "10", "01") for r in (0, 1)]


def suite_exhaustive(ctx: Ctx) -> SuiteResult:
    L = 7 if ctx.tier == "thorough" else 6
    res = SuiteResult(
        "gym-exhaustive-patterns", exhaustive=True,
        rule=f"every per-step pattern of length 1..{L} over (flags in {{none, terminated, truncated}}) "
             f"x (last callback of the step requests a reset: no/yes), requests in final-step "
             f"callbacks alternating; non-trivial = at least one episode end or reset request; "
             f"distinct = by (flags, scripts, length)")
    for c in corpus_cases("C20"):
        run_into(res, c["case"], ctx)
        res.hit("corpus")
    for n in range(1, L + 1):
        for pattern in itertools.product(ALPHABET, repeat=n):
            case = case_from_pattern(pattern, final_bits=(1, 0) if n % 2 else (0, 1),
                                     per_step=(n <= 3))
            run_into(res, case, ctx)
            if len(res.violations) > 20 or len(res.disagreements) > 20:
                return res
    res.sample(case)
    return res


def random_case(rng, max_len: int) -> dict:
    n = rng.randint(1, max_len)
    p_done = rng.choice([0.05, 0.2, 0.5, 0.9])
    p_req = rng.choice([0.0, 0.1, 0.4, 0.9])
    flags = []
    for _ in range(n):
        if rng.random() < p_done:
            flags.append(rng.choice(["10", "01", "11"]))
        else:
            flags.append("00")
    second = rng.randint(1, 6) if rng.random() < 0.25 else 0
    if second:
        # the first session often ends on an episode end or a request
        if rng.random() < 0.6:
            flags[-1] = rng.choice(["10", "01", "11", "00"])
        for _ in range(second):
            flags.append(rng.choice(["10", "01", "11"]) if rng.random() < p_done else "00")
    rr = [int(rng.random() < p_req) for _ in range(n + second + 2)]
    rs = [int(rng.random() < p_req) for _ in range(n + second + 2)]
    return {"flags": flags, "rr": rr, "rs": rs, "n": n, "second": second,
            "user_request": rng.random() < 0.15, "by_id": rng.random() < 0.1,
            "per_step": rng.random() < 0.5, "neighbour": rng.random() < 0.2}


def suite_random(ctx: Ctx) -> SuiteResult:
    res = SuiteResult(
        "gym-random-scripts",
        rule="random scripts of 1..40 steps: independent flags per step (incl. terminated+truncated), "
             "independent request bits per on_reset / on_step occurrence (incl. final-step "
             "callbacks), need_reset pre-set before setup in 15%, environment created through "
             "gymnasium.make in 10%; non-trivial = at least one episode end or request")
    for _ in range(ctx.n(2500, 60000)):
        case = random_case(ctx.rng, 40 if ctx.rng.random() < 0.3 else 10)
        run_into(res, case, ctx)
        res.sample(case)
        if len(res.violations) > 20 or len(res.disagreements) > 20:
            break
    return res


def suite_malformed(ctx: Ctx) -> SuiteResult:
    """Protocol misuse and malformed driver lines (never defaulted)."""
    res = SuiteResult("gym-misuse-and-malformed",
                      rule="Interaction.step() before setup() (AttributeError on both sides), then a "
                           "normal run; malformed driver lines answer bad-op; non-trivial = all")
    for pattern in itertools.product(ALPHABET, repeat=2):
        case = case_from_pattern(pattern, early_step=True)
        run_into(res, case, ctx)
        res.nontrivial.add(("early", pattern))
        res.hit("error:AttributeError")
    if ctx.driver is not None:
        bad_lines = ["gym", "gym reset", "gym reset flags=[2] rr=[] rs=[]", "gym reset flags=[10] rr=[x] rs=[]",
                     "gym reset flags=[100] rr=[0] rs=[0]", "gym run", "gym run -1", "gym step now",
                     "gym frobnicate", "gym reset flags=10 rr=[0] rs=[0]"]
        replies = ctx.driver.batch(bad_lines)
        for ln, r in zip(bad_lines, replies):
            res.evaluations += 1
            res.hit("malformed")
            if r != "bad-op":
                res.disagreements.append(Disagreement("gym-malformed", f"`{ln}` answered {r!r}", ln))
        # script exhaustion is refused, not defaulted
        replies = ctx.driver.batch(["gym reset flags=[00] rr=[0] rs=[0]", "gym run 2"])
        res.evaluations += 1
        if replies != ["ok", "bad-op"]:
            res.disagreements.append(Disagreement("gym-malformed", f"exhausted script: {replies}", None))
    res.sample(case)
    return res


def search(ctx: Ctx, disagreements, broken):
    import random
    out: list[Violation] = []
    for d in disagreements:
        if isinstance(d.case, dict):
            vs, _, _ = run_case(d.case, None)
            out += vs
    if out:
        return out
    for n in range(1, 7):
        for pattern in itertools.product(ALPHABET, repeat=n):
            for fb in ((0,), (1,)):
                vs, _, _ = run_case(case_from_pattern(pattern, final_bits=fb), None)
                if vs:
                    return vs
    rng = random.Random(ctx.seed + 1)
    for _ in range(ctx.n(25000, 200000)):
        vs, _, _ = run_case(random_case(rng, 30), None)
        if vs:
            return vs
    return out


def replay(ctx: Ctx, payload: dict) -> SuiteResult:
    res = SuiteResult("replay")
    case = payload.get("case") or payload.get("first_disagreement")
    vs, d, rec = run_case(case, ctx.driver)
    res.evaluations = 1
    res.violations = vs
    if d:
        res.disagreements.append(d)
    print("call log:", rec.events)
    return res


if __name__ == "__main__":
    import gentie
    setup_repo_path()
    sys.exit(run_check(
        "C20", lean_modules=["Pamiq.Props.C20", "Pamiq.Lemmas.Gym"],
        required_theorems=["Pamiq.Gym.run_ok", "Pamiq.Gym.no_step_after_done",
                           "Pamiq.Gym.reset_count", "Pamiq.Gym.reset_placement",
                           "Pamiq.Gym.setup_reset", "Pamiq.Gym.action_provenance",
                           "Pamiq.Gym.delivery", "Pamiq.Gym.delivery_pending",
                           "Pamiq.Gym.delivery_once", "Pamiq.Gym.delivery_causal",
                           "Pamiq.Gym.request_honoured", "Pamiq.Gym.request_origin",
                           "Pamiq.Gym.steps_follow_script"],
        suites=[gentie.suite_for("C20"), suite_exhaustive, suite_random, suite_malformed], search=search, replay=replay,
        assumptions=[
            "Gymnasium itself is replaced by the stand-in harness/stubs/gymnasium (only Env and "
            "make); real environments are assumed to follow the reset()/step() return conventions "
            "of the Gymnasium >= 0.26 API",
            "the user's on_reset/on_step terminate, do not raise, and touch need_reset only by "
            "setting it to True inside the callbacks (or before setup)",
            "one Interaction drives the pair from one thread; save/load of agent and environment "
            "state and GymEnvironment.__del__ (close) are not part of the model",
            "observation payloads are passed through dataclasses.asdict(): observations that are "
            "themselves dataclass instances would be converted to dicts (not modelled)",
        ],
        trusted_extra=["stand-in gymnasium package (harness/stubs/gymnasium/__init__.py), scripted "
                       "environment and recording GymAgent subclass (harness/corr/c20.py)"],
        level_text="invariants over every environment flag stream and every request pattern "
                   "(induction over the steps of Interaction.step) + correspondence of the model "
                   "with gym/env.py, gym/agent.py, Interaction.step on the full call log"))
