"""C01 — an acknowledged pause means every background thread is quiescent (DESIGN §7.1)."""
import sys
from pathlib import Path
sys.path.insert(0, str(Path(__file__).resolve().parent.parent))
from framework import run_check, setup_repo_path
import syscheck

if __name__ == "__main__":
    setup_repo_path()
    import gentie
    sys.exit(run_check(
        "C01", lean_modules=["Pamiq.Props.C01", "Pamiq.Lemmas.ProtoCtl", "Pamiq.Lemmas.ProtoBg"],
        required_theorems=["Pamiq.Proto.cedge_sound", "Pamiq.Proto.bedge_sound", "Pamiq.Proto.ack_quiescent", "Pamiq.Proto.ack_no_executing",
                           "Pamiq.Proto.ack_no_callback_begins", "Pamiq.Proto.clock_frozen",
                           "Pamiq.Proto.paused_ends_only_by_resume_or_shutdown",
                           "Pamiq.Proto.ack_requires_all_observed", "Pamiq.Proto.reachable_inv"],
        suites=[gentie.suite_for("C01")] + syscheck.make_suites("C01", [("C01", 450, 8000), ("any", 300, 6000), ("C02", 80, 2000), ("C03", 60, 2000)],
            "random scenarios (0-2 trainers, child agent, 1-3 attempts, queue 1-3, 1-10 web commands incl. "
            "pause/resume/save/status, save condition, faults, interrupts; 15% timed) x seeded random "
            "schedules of the real launch(); each trace replayed through Pamiq.Proto and checked by the "
            "C01 monitor; non-trivial = contains a pause attempt / save / fault / resume; distinct by "
            "(scenario, schedule)"),
        search=syscheck.make_search("C01", ["any", "C02"]), replay=syscheck.make_replay("C01"),
        assumptions=syscheck.PROTO_ASSUMPTIONS, trusted_extra=syscheck.PROTO_TRUSTED,
        level_text="invariant of the thread-protocol model proved for every number of threads, retry "
                   "limit and interleaving; implementation traces are traces of the model"))
