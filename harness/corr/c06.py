"""C06 — the system clock is the scaled, pausable image of real time.

Correspondence: random / enumerated histories of the public `TimeController` operations are run on
the real class against a scripted stdlib clock and, line by line, on the Lean model
(`Pamiq/Model/Clock.lean`); after every operation all observables (three clocks, scale, paused)
are compared for *equality* as exact rationals. Monitor: the integral specification written
directly in Python (independent of the Lean model) evaluated on the same executions.
"""
from __future__ import annotations

import itertools
import sys
from fractions import Fraction as F
from pathlib import Path

sys.path.insert(0, str(Path(__file__).resolve().parent.parent))
from framework import (Ctx, Disagreement, SuiteResult, Violation, corpus_cases, parse_frac,
                       run_check, setup_repo_path, show_frac, show_list)

SRCS = ["time", "perf_counter", "monotonic"]
BASES = {"time": F(1_000_000), "perf_counter": F(5_000), "monotonic": F(70_000)}


class RunawaySleep(BaseException):
    pass


class FakeStdTime:
    """Stand-in for the stdlib `time` module used by pamiq_core.time."""

    def __init__(self) -> None:
        self.now = F(0)
        self.script: list[F] = []       # advance after each read (advancing mode); empty = frozen
        self.reads: dict[str, list[F]] = {s: [] for s in SRCS}
        self.sleeps: list[float] = []

    def _read(self, src: str) -> float:
        v = BASES[src] + self.now
        self.reads[src].append(v)
        if self.script:
            self.now += self.script.pop(0)
        return float(v)

    def time(self) -> float: return self._read("time")
    def perf_counter(self) -> float: return self._read("perf_counter")
    def monotonic(self) -> float: return self._read("monotonic")
    def sleep(self, secs: float) -> None:
        # a real sleep lets real time pass: implementations that re-check the clock after sleeping
        # must see it advanced (and must not spin: more than 100 sleeps in one call is a runaway)
        self.sleeps.append(secs)
        if len(self.sleeps) > 100:
            raise RunawaySleep(f"{len(self.sleeps)} stdlib sleeps inside one call")
        if secs > 0:
            self.now += F(secs)

    def begin_op(self, script: list[F]) -> tuple[F, F, F]:
        self.reads = {s: [] for s in SRCS}
        self.script = list(script)
        self.sleeps = []
        return tuple(BASES[s] + self.now for s in SRCS)

    def end_op(self) -> None:
        # unread part of the script still elapses
        self.now += sum(self.script, F(0))
        self.script = []


def new_controller(fake: FakeStdTime):
    import pamiq_core.time as ptime
    ptime._original_time = fake  # the module reads the stdlib clock through this attribute
    return ptime.TimeController()


def reads_suffix(now, fake: FakeStdTime) -> str:
    return (f"now={','.join(show_frac(x) for x in now)} "
            f"t={show_list(fake.reads['time'], show_frac)} "
            f"p={show_list(fake.reads['perf_counter'], show_frac)} "
            f"m={show_list(fake.reads['monotonic'], show_frac)}")


def run_case(case: dict, driver, variant: str = "1"):
    """Run one history on the implementation (+ monitor) and on the model.
    Returns (violations, disagreement-or-None, trace)."""
    fake = FakeStdTime()
    fake.now = F(case.get("start", 0))
    violations: list[Violation] = []
    disagreement = None
    trace = []
    lines: list[str] = []
    impl_out: list[str] = []

    now = fake.begin_op([F(x) for x in case.get("init_script", [])])
    ctl = new_controller(fake)
    lines.append("clock variant " + variant)
    impl_out.append("ok")
    lines.append("clock init " + reads_suffix(now, fake))
    impl_out.append("ok")
    fake.end_op()

    # ---- monitor state: the integral specification -------------------------------------
    # `lo`/`hi` bracket the value the integral of the rate over real time allows: they coincide
    # when every operation observes a single instant and differ by (rate x time elapsed inside
    # operations) otherwise, because the instant at which such an operation "happens" is only
    # known to lie inside it. The origin of the system clock is fixed by the first observation.
    lo: dict[str, F | None] = {s: None for s in SRCS}
    hi: dict[str, F | None] = {s: None for s in SRCS}
    t_at = fake.now
    scale, paused = F(1), False
    last_seen: dict[str, F | None] = {s: None for s in SRCS}

    def advance_ideal():
        nonlocal t_at
        dt = fake.now - t_at
        rate = F(0) if paused else scale
        for s in SRCS:
            if lo[s] is not None:
                lo[s] += rate * dt
                hi[s] += rate * dt
        t_at = fake.now

    def probe(tag: str, opname: str):
        """Frozen probe of all observables on both sides + monitor comparison."""
        advance_ideal()
        for s in SRCS:
            now = fake.begin_op([])
            v = F(getattr(ctl, s)())
            fake.end_op()
            lines.append(f"clock read {s} " + reads_suffix(now, fake))
            impl_out.append(show_frac(v))
            if lo[s] is None:
                lo[s] = hi[s] = v
            if not (lo[s] <= v <= hi[s]):
                kind = "ahead-of-real-time" if v > hi[s] else "behind-real-time"
                violations.append(Violation(
                    f"clock:{opname}:{kind}",
                    f"after {tag}: {s}() = {show_frac(v)} but the integral of the scale over "
                    f"un-paused real time lies in [{show_frac(lo[s])}, {show_frac(hi[s])}]",
                    case))
                lo[s] = hi[s] = v   # re-synchronise: report each jump once
            if last_seen[s] is not None and v < last_seen[s]:
                violations.append(Violation(
                    f"clock:{opname}:decreased",
                    f"after {tag}: {s}() went from {show_frac(last_seen[s])} to {show_frac(v)}",
                    case))
            last_seen[s] = v
        lines.append("clock get_scale")
        impl_out.append(show_frac(F(ctl.get_time_scale())))
        lines.append("clock is_paused")
        impl_out.append("1" if ctl.is_paused() else "0")
        if F(ctl.get_time_scale()) != scale or ctl.is_paused() != paused:
            violations.append(Violation(
                f"clock:{opname}:rate", f"after {tag}: scale/paused = "
                f"{ctl.get_time_scale()}/{ctl.is_paused()}, expected {scale}/{paused}", case))

    probe("init", "init")
    for i, op in enumerate(case["ops"]):
        kind = op[0]
        fake.now += F(op[1])                      # real time passing before the operation
        advance_ideal()
        script = [F(x) for x in (op[3] if len(op) > 3 else [])]
        rate_before = F(0) if paused else scale
        now = fake.begin_op(script)
        arg = op[2] if len(op) > 2 else None
        out = "ok"
        try:
            if kind == "read":
                out = show_frac(F(getattr(ctl, arg)()))
            elif kind == "set_scale":
                ctl.set_time_scale(float(F(arg)))
            elif kind == "pause":
                ctl.pause()
            elif kind == "resume":
                ctl.resume()
            elif kind == "state_dict":
                d = ctl.state_dict()
                out = ",".join(show_frac(F(d[k])) for k in
                               ("scaled_anchor_time", "scaled_anchor_perf_counter",
                                "scaled_anchor_monotonic"))
            elif kind == "load_state_dict":
                t, p, m = (float(F(x)) for x in arg)
                ctl.load_state_dict({"scaled_anchor_time": t, "scaled_anchor_perf_counter": p,
                                     "scaled_anchor_monotonic": m})
            elif kind == "sleep":
                ctl.sleep(float(F(arg)))
                out = "+".join(show_frac(F(x)) for x in fake.sleeps) if fake.sleeps else "none"
            else:
                raise ValueError(kind)
        except AssertionError:
            out = "err AssertionError"
        except RunawaySleep as e:
            out = "err RunawaySleep"
            violations.append(Violation("clock:sleep:never-returns", f"sleep({arg}): {e}", case))
        suffix = reads_suffix(now, fake)
        fake.end_op()
        in_op = sum(script, F(0))
        # ---- model line ----
        if kind == "read":
            lines.append(f"clock read {arg} {suffix}")
        elif kind == "set_scale":
            lines.append(f"clock set_scale {show_frac(F(arg))} {suffix}")
        elif kind == "load_state_dict":
            lines.append(f"clock load_state_dict {','.join(show_frac(F(x)) for x in arg)} {suffix}")
        elif kind == "sleep":
            lines.append(f"clock sleep {show_frac(F(arg))} {suffix}")
        else:
            lines.append(f"clock {kind} {suffix}")
        impl_out.append(out)
        # ---- monitor: update the specification ----
        if kind == "set_scale":
            if F(arg) > 0:
                if out != "ok":
                    violations.append(Violation("clock:set_scale:rejected-valid",
                                                f"set_time_scale({arg}) raised", case))
                scale = F(arg)
            elif out == "ok":
                violations.append(Violation("clock:set_scale:accepted-invalid",
                                            f"set_time_scale({arg}) accepted", case))
        elif kind == "pause":
            paused = True
        elif kind == "resume":
            paused = False
        elif kind == "load_state_dict":
            for s, x in zip(SRCS, arg):
                lo[s] = hi[s] = F(x)
                last_seen[s] = None
        elif kind == "sleep":
            if paused:
                if fake.sleeps:
                    violations.append(Violation("clock:sleep:sleeps-while-paused",
                                                f"sleep({arg}) slept {fake.sleeps} while paused", case))
            else:
                # the real sleeps of one call (an implementation may sleep in slices) add up to d/scale
                if not fake.sleeps or any(x < 0 for x in fake.sleeps) or \
                        sum((F(x) for x in fake.sleeps), F(0)) * scale != F(arg):
                    violations.append(Violation(
                        "clock:sleep:length", f"sleep({arg}) at scale {scale} slept "
                        f"{fake.sleeps} real seconds, expected {F(arg)/scale}", case))
            # real time passed while sleeping: the clock ran at the current rate all along
            slept = sum((F(x) for x in fake.sleeps if x > 0), F(0))
            for s in SRCS:
                if lo[s] is not None:
                    lo[s] += rate_before * slept
                    hi[s] += rate_before * slept
        rate_after = F(0) if paused else scale
        for s in SRCS:
            if hi[s] is not None:
                hi[s] += max(rate_before, rate_after) * in_op
        t_at = fake.now
        if kind == "state_dict" and not script:
            # exported value must be the current value
            vals = [parse_frac(x) for x in out.split(",")]
            for s, v in zip(SRCS, vals):
                if not (lo[s] <= v <= hi[s]):
                    violations.append(Violation(
                        "clock:state_dict:exported-value", f"state_dict exported {s}={show_frac(v)}, "
                        f"clock value is in [{show_frac(lo[s])}, {show_frac(hi[s])}]", case))
        probe(f"op#{i} {kind}", kind)
        trace.append((kind, out))

    if driver is not None:
        replies = driver.batch(lines)
        for k, (ln, a, b) in enumerate(zip(lines, impl_out, replies)):
            if a != b:
                disagreement = Disagreement("clock-history", f"line {k} `{ln}`: implementation "
                                            f"{a!r}, model {b!r}", case)
                break
    return violations, disagreement, trace


# ------------------------------------------------------------------------------------------------
SCALES = ["1/4", "1/2", "1", "3/2", "2", "3", "4", "8"]
BAD_SCALES = ["0", "-1", "-1/2"]
GAPS = ["0", "1/8", "1/2", "1", "3", "10"]


def gen_op(rng, advancing: bool):
    kind = rng.choices(["read", "set_scale", "pause", "resume", "state_dict", "load_state_dict",
                        "sleep"], weights=[3, 3, 2, 2, 3, 1, 1])[0]
    gap = rng.choice(GAPS)
    arg = None
    if kind == "read":
        arg = rng.choice(SRCS)
    elif kind == "set_scale":
        arg = rng.choice(SCALES) if rng.random() < 0.9 else rng.choice(BAD_SCALES)
    elif kind == "load_state_dict":
        arg = [str(F(rng.randrange(0, 4096), 8)) for _ in range(3)]
    elif kind == "sleep":
        # from sub-millisecond sleeps (a sleep is never rounded away) to many seconds
        arg = str(F(rng.randrange(0, 64), 4)) if rng.random() < 0.7 else \
            str(F(rng.randrange(1, 64), rng.choice([1 << 10, 1 << 14, 1 << 20])))
    script = []
    if advancing and rng.random() < 0.7:
        script = [rng.choice(["0", "1/8", "1/4", "1"]) for _ in range(6)]
    return [kind, gap, arg, script]


def fix_sleep_exact(case):
    """sleep durations are made multiples of the current scale so that d/scale is exact."""
    scale = F(1)
    for op in case["ops"]:
        if op[0] == "set_scale" and F(op[2]) > 0:
            scale = F(op[2])
        if op[0] == "sleep":
            op[2] = str(F(op[2]) * scale)
    return case


def nontrivial_key(case, trace):
    kinds = tuple(k for k, _ in trace)
    return (kinds, bool(any(len(o) > 3 and o[3] for o in case["ops"])))


def suite_random(ctx: Ctx) -> SuiteResult:
    res = SuiteResult("clock-random-histories",
                      rule="random histories (1-8 ops) of read/set_scale/pause/resume/state_dict/"
                           "load_state_dict/sleep with dyadic real-time gaps, 30% with the real "
                           "clock advancing between reads inside an operation; non-trivial = "
                           "contains a rate change (set_scale/pause/resume/load) followed by a "
                           "later observation with time elapsed; distinct = by op-kind sequence")
    for c in corpus_cases("C06"):
        vs, d, tr = run_case(c["case"], ctx.driver)
        res.evaluations += 1
        res.violations += vs
        if d: res.disagreements.append(d)
        res.hit("corpus")
    n = ctx.n(1500, 40000)
    for _ in range(n):
        advancing = ctx.rng.random() < 0.3
        case = fix_sleep_exact({
            "start": str(F(ctx.rng.randrange(0, 1000), 8)),
            "init_script": [ctx.rng.choice(["0", "1/8"]) for _ in range(6)] if advancing else [],
            "ops": [gen_op(ctx.rng, advancing) for _ in range(ctx.rng.randint(1, 8))]})
        vs, d, tr = run_case(case, ctx.driver)
        res.evaluations += 1
        for k, out in tr:
            res.hit("op:" + k)
            if out.startswith("err"):
                res.hit("error:" + out)
        res.hit("mode:advancing" if advancing else "mode:frozen")
        kinds = [o[0] for o in case["ops"]]
        if any(k in ("set_scale", "pause", "resume", "load_state_dict") for k in kinds[:-1]) and \
                any(F(o[1]) > 0 for o in case["ops"][1:]):
            res.nontrivial.add(nontrivial_key(case, tr))
        res.sample({"case": case, "trace": tr})
        res.violations += vs
        if d:
            res.disagreements.append(d)
        if len(res.violations) > 20 or len(res.disagreements) > 20:
            break
    return res


def run_float_case(case: dict):
    """Float regime (monitor only, no model line): an epoch-sized real clock, a small time scale and
    very many reads a fraction of a millisecond apart, optionally with pause/resume/export in between.
    Each read must be within a few units in the last place of scale x un-paused real time: a clock that
    accumulates per-read increments loses them to rounding and stalls."""
    import math
    fake = FakeStdTime()
    fake.now = F(case["start"])
    fake.begin_op([])
    ctl = new_controller(fake)
    fake.end_op()
    scale = F(case["scale"])
    ctl.set_time_scale(float(scale))
    v0 = {s: F(getattr(ctl, s)()) for s in SRCS}
    ideal = dict(v0)
    paused = False
    reanchors = 1
    violations = []
    gap = F(case["gap"])
    for k in range(case["reads"]):
        fake.now += gap
        if not paused:
            for s in SRCS:
                ideal[s] += scale * gap
        ev = case.get("events", {}).get(str(k))
        if ev == "pause":
            ctl.pause(); paused = True; reanchors += 1
        elif ev == "resume":
            ctl.resume(); paused = False; reanchors += 1
        elif ev == "state_dict":
            ctl.state_dict(); reanchors += 1
        s = SRCS[k % 3]
        v = F(getattr(ctl, s)())
        tol = F(math.ulp(float(v))) * (4 + 2 * reanchors) + F(math.ulp(float(BASES[s] + fake.now))) * scale * 2
        if abs(v - ideal[s]) > tol:
            violations.append(Violation(
                "clock:float-regime:drift",
                f"read #{k} of {s}(): {float(v)!r}, but scale x un-paused real time gives "
                f"{float(ideal[s])!r} (off by {float(v - ideal[s]):.3e}, tolerance {float(tol):.3e}; "
                f"scale {case['scale']}, {case['gap']} s between reads)", {"float": case}))
            break
    return violations


def suite_float(ctx: Ctx) -> SuiteResult:
    res = SuiteResult("clock-float-regime",
                      rule="epoch-sized real clock, time scales 2^-10..2^-16, 3000-20000 reads 2^-14..2^-12 s "
                           "apart, some with pause/resume/state_dict in between; monitor only (IEEE rounding "
                           "is not modelled): every read within a few ulp of scale x un-paused real time; "
                           "non-trivial = all")
    for scale in ["1/1024", "1/8192", "1/65536"]:
        for gap in ["1/16384", "1/4096"]:
            for events in [{}, {"500": "pause", "900": "resume", "1500": "state_dict", "2000": "pause",
                                "2001": "resume"}]:
                case = {"start": "1700000000", "scale": scale, "gap": gap,
                        "reads": ctx.n(3000, 20000), "events": events}
                vs = run_float_case(case)
                res.evaluations += 1
                res.nontrivial.add((scale, gap, bool(events)))
                res.violations += vs
    res.sample(case)
    return res


def suite_exhaustive(ctx: Ctx) -> SuiteResult:
    """All histories of length <= L over a small grid (frozen mode)."""
    L = 3 if ctx.tier == "quick" else 4
    res = SuiteResult("clock-exhaustive-small",
                      rule=f"every history of length <= {L} over ops {{read time, set_scale 2, "
                           f"set_scale 1/2, pause, resume, state_dict, load}} x gaps {{0,1}}; "
                           "non-trivial = length >= 2", exhaustive=True)
    alphabet = [["read", None, "time"], ["set_scale", None, "2"], ["set_scale", None, "1/2"],
                ["pause", None, None], ["resume", None, None], ["state_dict", None, None],
                ["load_state_dict", None, ["100", "200", "300"]]]
    for n in range(1, L + 1):
        for combo in itertools.product(alphabet, repeat=n):
            for gaps in itertools.product(["0", "1"], repeat=n):
                case = {"start": "0", "ops": [[o[0], g, o[2], []] for o, g in zip(combo, gaps)]}
                vs, d, tr = run_case(case, ctx.driver)
                res.evaluations += 1
                if n >= 2:
                    res.nontrivial.add(tuple((o[0], o[2] if isinstance(o[2], str) else None, g)
                                             for o, g in zip(combo, gaps)))
                res.violations += vs
                if d:
                    res.disagreements.append(d)
                if len(res.violations) > 20 or len(res.disagreements) > 20:
                    return res
    res.sample({"case": case})
    return res


def search(ctx: Ctx, disagreements, broken):
    """§5: look for a concrete history on which the property fails on the implementation."""
    import random
    import c06_conc
    vs = c06_conc.search_concurrent(ctx, disagreements)
    if vs:
        return vs
    disagreements = [d for d in disagreements
                     if not (isinstance(d.case, dict) and d.case.get("kind") == "conc")]
    out = []
    # 1. the diverging cases themselves, under the monitor only
    for d in disagreements:
        vs, _, _ = run_case(d.case, None)
        out += vs
    if out:
        return out
    # 2. bigger random budget, implementation + monitor only
    rng = random.Random(ctx.seed + 1)
    for _ in range(ctx.n(15000, 100000)):
        advancing = rng.random() < 0.3
        case = fix_sleep_exact({"start": "0", "init_script": [],
                                "ops": [gen_op(rng, advancing) for _ in range(rng.randint(1, 8))]})
        vs, _, _ = run_case(case, None)
        if vs:
            return vs
    return out


def replay(ctx: Ctx, payload: dict) -> SuiteResult:
    res = SuiteResult("replay")
    case = payload.get("case") or payload.get("first_disagreement")
    if isinstance(case, dict) and case.get("kind") == "conc":
        import c06_conc
        return c06_conc.replay_concurrent(ctx, case)
    if isinstance(case, dict) and "float" in case:
        res.evaluations = 1
        res.violations = run_float_case(case["float"])
        return res
    vs, d, tr = run_case(case, ctx.driver)
    res.evaluations = 1
    res.violations = vs
    if d:
        res.disagreements.append(d)
    print("trace:", tr)
    return res


if __name__ == "__main__":
    import gentie
    setup_repo_path()
    sys.path.insert(0, str(Path(__file__).resolve().parent))
    import c06_conc
    sys.exit(run_check(
        "C06", lean_modules=["Pamiq.Props.C06", "Pamiq.Props.C06Conc"],
        required_theorems=["Pamiq.Clock.refines", "Pamiq.Clock.history_monotone",
                           "Pamiq.Clock.continuous_op", "Pamiq.Clock.export_pure",
                           "Pamiq.Clock.rate_between", "Pamiq.Clock.sleep_len",
                           "Pamiq.Clock.load_continues", "Pamiq.Clock.setScale_slip",
                           "Pamiq.Clock.clock_calls_atomic"],
        suites=[gentie.suite_for("C06"), suite_exhaustive, suite_random, suite_float, c06_conc.suite_concurrent], search=search, replay=replay,
        assumptions=["IEEE-754 rounding is not modelled: cases use dyadic values on which every "
                     "float operation of time.py is exact, and are compared for equality",
                     "the real clock never steps backwards",
                     "concurrent suite: 2-3 logical threads, line-granular preemption inside time.py, "
                     "scripted real time advances only when the lock changes hands; every schedule for a "
                     "few operation pairs, preemption-bounded beyond"],
        trusted_extra=["scripted stand-in for the stdlib time module (harness/corr/c06.py FakeStdTime)"],
        level_text="refinement theorem (clock = integral of scale over un-paused real time) for "
                   "all histories + correspondence of the model with time.py"))
