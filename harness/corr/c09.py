"""C09 — component callbacks follow a fixed protocol on their owning thread (DESIGN §7.9)."""
import sys
from pathlib import Path
sys.path.insert(0, str(Path(__file__).resolve().parent.parent))
from framework import run_check, setup_repo_path
import syscheck

if __name__ == "__main__":
    setup_repo_path()
    import gentie
    sys.exit(run_check(
        "C09", lean_modules=["Pamiq.Props.C09", "Pamiq.Props.C09Lang", "Pamiq.Lemmas.ProtoBg"],
        required_theorems=["Pamiq.Proto.bedge_sound", "Pamiq.Proto.cb_only_in_its_phase", "Pamiq.Proto.no_self_overlap", "Pamiq.Proto.setup_phase_not_reentered", "Pamiq.Proto.no_work_while_local_paused", "Pamiq.Proto.resumed_hook_needs_pause", "Pamiq.Proto.paused_hook_needs_not_paused", "Pamiq.Proto.save_callback_excludes_owner_callbacks", "Pamiq.Proto.step_only_in_tick", "Pamiq.Proto.phase_protocol", "Pamiq.Proto.rel_step", "Pamiq.Proto.automaton_rejects", "Pamiq.Proto.paused_state_no_step"],
        suites=[gentie.suite_for("C09")] + syscheck.make_suites("C09", [('C09', 220, 6000), ('any', 160, 4000)],
            "random scenarios (0-2 trainers, child agent, 1-3 attempts, queue 1-3, web commands incl. "
            "pause/resume/save/status/invalid, save condition, faults at every callback kind, interrupts, "
            "timed mode) x seeded random schedules of the real launch(); each trace replayed through "
            "Pamiq.Proto and checked by the C09 monitor; non-trivial = contains a pause attempt / save / "
            "fault / resume; distinct by (scenario, schedule)"),
        search=syscheck.make_search("C09", ["C09", "any"]), replay=syscheck.make_replay("C09"),
        assumptions=syscheck.PROTO_ASSUMPTIONS, trusted_extra=syscheck.PROTO_TRUSTED,
        level_text="theorems about the thread-protocol model Pamiq.Proto for every number of threads, "
                   "retry limit, fault point and interleaving; implementation traces are traces of the model"))
