"""C05, PyTorch trainer part — optimizer / LR-scheduler states survive save -> load into a fresh
`TorchTrainer` (suite of the C05 check; model `Pamiq.TorchTrainer`, theorems `Props/C05Torch.lean`).

The real `pamiq_core.torch.TorchTrainer` runs against the stand-in `harness/stubs/torch`
(`torch.save/load` = pickle, `Optimizer` / `LRScheduler` with `state_dict` round trip): trainer A creates
its optimizers and schedulers, trains (each object gets a payload), is torn down (states kept) and
saved; a fresh trainer B loads the directory and is set up. Compared with the model: the files written,
the states B holds after `load_state`, the outcome of `B.setup()`. Independent monitor: B's kept states
equal A's, `setup()` does not raise, and every freshly created optimizer / scheduler of B carries the
payload A's had.
"""
from __future__ import annotations

import shutil
import sys
import tempfile
from pathlib import Path

sys.path.insert(0, str(Path(__file__).resolve().parent.parent))
from framework import Ctx, Disagreement, SuiteResult, Violation, corpus_cases, setup_repo_path

STUBS = str(Path(__file__).resolve().parent.parent / "stubs")
_M: dict = {}


def _mods():
    if not _M:
        setup_repo_path()
        if STUBS not in sys.path:
            sys.path.insert(0, STUBS)
        import torch
        if "verif-standin" not in getattr(torch, "__version__", ""):
            raise RuntimeError("a real torch shadows the stand-in")
        from torch.optim import Optimizer
        from torch.optim.lr_scheduler import LRScheduler
        import torch.nn as nn
        from pamiq_core.torch import TorchTrainer

        class Opt(Optimizer):
            def __init__(self) -> None:
                super().__init__([nn.Parameter(0.0)], {"lr": 1.0})

        class VTrainer(TorchTrainer):
            def __init__(self, opt_names, sch_names) -> None:
                super().__init__()
                self.opt_names, self.sch_names = list(opt_names), list(sch_names)

            def create_optimizers(self):
                opts = {n: Opt() for n in self.opt_names}
                if not self.sch_names:
                    return opts
                anchor = next(iter(opts.values()), None) or Opt()
                return opts, {n: LRScheduler(anchor) for n in self.sch_names}

            def train(self) -> None:
                pass
        _M.update(VTrainer=VTrainer)
    return _M


def hx(s: str) -> str:
    return s.encode("utf-8").hex()


def show(entries: dict) -> str:
    return "[" + ",".join(sorted(f"{hx(k)}:{v}" for k, v in entries.items())) + "]"


def run_case(case: dict, driver, strict: int = 1):
    """case = {"opt": {name: payload}, "sch": {name: payload}}"""
    VTrainer = _mods()["VTrainer"]
    opt, sch = case["opt"], case["sch"]
    vs: list[Violation] = []

    def viol(key, what):
        vs.append(Violation(key, what, {"torch_trainer": case}))

    tmp = Path(tempfile.mkdtemp(prefix="pamiq-verif."))
    lines = [f"ttrainer reset {strict}"]
    impl = ["ok"]
    try:
        a = VTrainer(opt, sch)
        a.setup()
        for n, v in opt.items():
            a.optimizers[n].state = {"payload": v}
        for n, v in sch.items():
            a.lr_schedulers[n].payload = v
        a.teardown()
        kept_o = {n: d["state"]["payload"] for n, d in a.optimizer_states.items()}
        kept_s = {n: d["payload"] for n, d in a.lr_scheduler_states.items()}
        lines.append(f"ttrainer keep opt={show(kept_o)} sch={show(kept_s)}")
        impl.append("ok")
        path = tmp / "trainer"
        try:
            a.save_state(path)
            files = {p.name: p for p in path.iterdir() if p.name != "previous_training_time"}
            import torch
            out = "files=" + show({name: (torch.load(p).get("payload") if "payload" in torch.load(p)
                                          else torch.load(p)["state"]["payload"]) for name, p in files.items()})
        except Exception as e:
            out = "err " + type(e).__name__
        lines.append("ttrainer save")
        impl.append(out)
        b = VTrainer(opt, sch)
        try:
            b.load_state(path)
            got_o = {n: d["state"]["payload"] for n, d in b.optimizer_states.items()}
            got_s = {n: d["payload"] for n, d in b.lr_scheduler_states.items()}
            out = f"opt={show(got_o)} sch={show(got_s)}"
        except Exception as e:
            got_o = got_s = None
            out = "err " + type(e).__name__
        lines.append("ttrainer reload")
        impl.append(out)
        if got_o is not None and (got_o != kept_o or got_s != kept_s):
            viol("torch-trainer:states-not-restored",
                 f"kept optimizer states {kept_o} / scheduler states {kept_s} came back as {got_o} / {got_s} "
                 f"after save_state + load_state into a fresh trainer")
        try:
            b.setup()
            out = "ok"
            now_o = {n: o.state.get("payload") for n, o in b.optimizers.items()}
            now_s = {n: getattr(s, "payload", None) for n, s in b.lr_schedulers.items()}
            if now_o != dict(opt) or now_s != dict(sch):
                viol("torch-trainer:optimizers-not-restored",
                     f"after load + setup the optimizers carry {now_o} (saved {dict(opt)}), the schedulers "
                     f"{now_s} (saved {dict(sch)})")
        except KeyError as e:
            out = "err KeyError"
            viol("torch-trainer:setup-raised",
                 f"setup() after loading the saved state raised KeyError({e}) although the same optimizers "
                 f"{sorted(opt)} / schedulers {sorted(sch)} are created")
        lines.append(f"ttrainer setup opt=[{','.join(hx(n) for n in opt)}] sch=[{','.join(hx(n) for n in sch)}]")
        impl.append(out)
    finally:
        shutil.rmtree(tmp, ignore_errors=True)
    d = None
    if driver is not None:
        for k, (ln, x, y) in enumerate(zip(lines, impl, driver.batch(lines))):
            if x != y:
                d = Disagreement("torch-trainer", f"line {k} `{ln[:200]}`: implementation {x[:200]!r}, "
                                 f"model {y[:200]!r}", {"torch_trainer": case})
                break
    return vs, d


FRAGMENTS = ["policy", "enc", "v2", "adam", ".", "_", "-", ".optim.pt", ".lrsch.pt", ".optim", ".pt", "optim.pt",
             " ", "é", "*", "[a]", "?", "lr"]


def gen_name(rng) -> str:
    return "".join(rng.choice(FRAGMENTS) for _ in range(rng.randint(1, 4)))


def gen_case(rng) -> dict:
    n_o, n_s = rng.choice([0, 1, 1, 2, 3]), rng.choice([0, 0, 1, 2])
    opt, sch = {}, {}
    while len(opt) < n_o:
        opt[gen_name(rng)] = rng.randrange(1, 100)
    while len(sch) < n_s:
        sch[gen_name(rng)] = rng.randrange(1, 100)
    return {"opt": opt, "sch": sch}


def suite_torch_trainer(ctx: Ctx) -> SuiteResult:
    res = SuiteResult("torch-trainer-optimizer-states",
                      rule="corpus, then hand-picked names (plain, with further dots, containing / ending with the "
                           "suffix text of either kind, glob metacharacters, non-ASCII) and random name sets built "
                           "from such fragments; 0-3 optimizers x 0-2 schedulers; real TorchTrainer on the "
                           "stand-in torch; non-trivial = a name with a dot or suffix fragment")
    cases = [c["case"]["torch_trainer"] for c in corpus_cases("C05") if "torch_trainer" in c.get("case", {})]
    cases += [{"opt": {"policy": 3}, "sch": {}},
              {"opt": {"policy.adam": 3, "value.adam": 4}, "sch": {"policy.adam": 9}},
              {"opt": {"enc.optim.pt.v2": 7}, "sch": {}},
              {"opt": {"a.optim.pt": 1, "a": 2}, "sch": {"a.optim.pt": 3, "b.lrsch.pt": 4}},
              {"opt": {"x.lrsch.pt": 5}, "sch": {"x.optim.pt": 6}},
              {"opt": {"*": 1, "[a]": 2, "?": 3}, "sch": {}}]
    for _ in range(ctx.n(150, 3000)):
        cases.append(gen_case(ctx.rng))
    for case in cases:
        vs, d = run_case(case, ctx.driver)
        res.evaluations += 1
        names = list(case["opt"]) + list(case["sch"])
        res.hit(f"optimizers:{len(case['opt'])}")
        res.hit(f"schedulers:{len(case['sch'])}")
        if any(".optim.pt" in n or ".lrsch.pt" in n for n in names):
            res.hit("name-contains-suffix-text")
        if any("." in n for n in names):
            res.nontrivial.add(tuple(sorted(names)))
        res.violations += vs
        if d:
            res.disagreements.append(d)
        if len(res.violations) > 20:
            break
    res.sample(cases[2]); res.sample(cases[-1])
    return res
