"""C05 — loading a saved state reproduces it exactly.

Correspondence: random / enumerated systems (component trees of the real composite classes around
small stateful user components, versioned models, the four built-in buffers with collect/update
histories including overflow, trainers with arbitrary float markers, a `TimeController` with a
history on a scripted stdlib clock) are registered in a REAL `StateStore` in the order `launch()`
uses, saved by the real code, and loaded into freshly constructed objects (same or different
capacities) at a later real instant.  The same case is run on the Lean model
(`Pamiq/Model/Persist.lean`) by the compiled driver; every reply is compared for equality: save/load
outcome, the set of files written, every public observable before and after (leaf states, model and
inference versions, `len`, `get_data`, `max_queue_size`, `count_data_added_since` on a probe grid,
trainer markers, the three clocks at the load instant and later).

Monitor: the property statement written directly in Python on the implementation's observables,
independent of the Lean model.  A second suite runs the real `launch()` in child processes
(run, final save, relaunch from that state in a fresh process) and compares what the components see
in their first callbacks with what the previous run ended with.  A third exercises the byte-level
round trips (`str(float)`/`float(str)`, pickle) the model takes for granted.
"""
from __future__ import annotations

import json
import math
import os
import shutil
import struct
import subprocess
import sys
import tempfile
from concurrent.futures import ThreadPoolExecutor
from fractions import Fraction as F
from pathlib import Path

sys.path.insert(0, str(Path(__file__).resolve().parent.parent))
sys.path.insert(0, str(Path(__file__).resolve().parent))
from framework import (Ctx, Disagreement, SuiteResult, Violation, corpus_cases, run_check,
                       setup_repo_path)
import persist_common as pc
from persist_common import show_frac

SRCS = ["time", "perf_counter", "monotonic"]
BASES = {"time": F(1_000_000), "perf_counter": F(5_000), "monotonic": F(70_000)}
STATE_NAME = "case.state"


class FakeStdTime:
    """Stand-in for the stdlib `time` module used by pamiq_core.time (same as in c06)."""

    def __init__(self) -> None:
        self.now = F(0)
        self.script: list[F] = []
        self.reads: dict[str, list[F]] = {s: [] for s in SRCS}

    def _read(self, src: str) -> float:
        v = BASES[src] + self.now
        self.reads[src].append(v)
        if self.script:
            self.now += self.script.pop(0)
        return float(v)

    def time(self) -> float: return self._read("time")
    def perf_counter(self) -> float: return self._read("perf_counter")
    def monotonic(self) -> float: return self._read("monotonic")
    def sleep(self, secs: float) -> None: pass

    def begin_op(self, script=()):
        self.reads = {s: [] for s in SRCS}
        self.script = [F(x) for x in script]
        return tuple(BASES[s] + self.now for s in SRCS)

    def end_op(self) -> None:
        self.now += sum(self.script, F(0))
        self.script = []

    def suffix(self, now) -> str:
        def sl(xs): return "[" + ",".join(show_frac(x) for x in xs) + "]"
        return (f"now={','.join(show_frac(x) for x in now)} t={sl(self.reads['time'])} "
                f"p={sl(self.reads['perf_counter'])} m={sl(self.reads['monotonic'])}")


def clock_history(ctl_slot: list, fake: FakeStdTime, ops: list, lines: list[str], impl: list[str]):
    """Construct a TimeController and run `ops` on it; the model's work-area clock follows."""
    import pamiq_core.time as ptime
    now = fake.begin_op()
    ctl = ptime.TimeController()
    lines.append("persist clk init " + fake.suffix(now)); impl.append("ok")
    fake.end_op()
    for kind, gap, arg in ops:
        fake.now += F(gap)
        now = fake.begin_op()
        out = "ok"
        try:
            if kind == "set_scale":
                ctl.set_time_scale(float(F(arg)))
            elif kind == "pause":
                ctl.pause()
            elif kind == "resume":
                ctl.resume()
        except AssertionError:
            out = "err AssertionError"
        sfx = fake.suffix(now)
        fake.end_op()
        lines.append(f"persist clk {kind} {show_frac(F(arg)) + ' ' if kind == 'set_scale' else ''}{sfx}")
        impl.append(out)
    ctl_slot.append(ctl)
    return ctl


def read_clocks(ctl, fake: FakeStdTime, which: str, lines: list[str], impl: list[str]) -> dict:
    vals = {}
    for s in SRCS:
        now = fake.begin_op()
        v = F(getattr(ctl, s)())
        lines.append(f"persist clockread {which} {s} " + fake.suffix(now))
        impl.append(show_frac(v))
        fake.end_op()
        vals[s] = v
    return vals


def probes_of(spec: dict) -> list[str]:
    out = {"-inf", "inf", "nan"}
    for _n, _k, _c, _p, hist in spec["users"]:
        for h in hist:
            if h[0] == "c":
                t = F(h[2])
                out |= {show_frac(t), show_frac(t - F(1, 16)), show_frac(t + F(1, 16))}
    for _n, prev, _c in spec["trainers"]:
        out.add(prev)
    return sorted(out)


def same_float(a: float, b: float) -> bool:
    return struct.pack("<d", a) == struct.pack("<d", b)


def run_case(case: dict, driver):
    """One system: build, save, build fresh, load, observe — on the implementation (with the
    monitor) and on the model.  Returns (violations, disagreement, info)."""
    import pamiq_core.time as ptime
    from pamiq_core.state_persistence import StateStore
    spec = case["spec"]
    tol = bool(case.get("tol", False))
    caps = case.get("fresh_caps") or {}
    violations: list[Violation] = []
    lines: list[str] = ["persist reset"]
    impl: list[str] = ["ok"]
    info = {"save": None, "load": None}
    tmp = Path(tempfile.mkdtemp(prefix="pamiq-verif."))
    saved_std = ptime._original_time
    fake = FakeStdTime()
    fake.now = F(case.get("start", "0"))
    ptime._original_time = fake

    def viol(key, what):
        violations.append(Violation(key, what, case))

    try:
        # ---------------- the system that is saved ----------------
        slotA: list = []
        clk_lines: list[str] = []
        clk_impl: list[str] = []
        ctlA = clock_history(slotA, fake, case.get("clockA", []), clk_lines, clk_impl)
        try:
            A = pc.System(spec, tol, ctlA)
            build_err = None
        except Exception as e:              # an `update()` in the history raised
            build_err = pc.canon_exc(e)
        mlines = pc.model_lines(spec, "sys", clk_lines)
        # expected replies of the build lines: all ok, except an `update` that raised
        for ln in mlines:
            lines.append(ln)
            impl.append("ok")
        # the clock lines carry their own replies
        k0 = len(lines) - len(mlines)
        ci = 0
        for j, ln in enumerate(mlines):
            if ln.startswith("persist clk "):
                impl[k0 + j] = clk_impl[ci]
                ci += 1
        if build_err is not None:
            # find the failing update on the model side: first non-ok reply must carry this error
            info["build_error"] = build_err
            replies = driver.batch(lines) if driver is not None else []
            bad = [r for r in replies if r.startswith("err")]
            d = None
            if driver is not None and (not bad or bad[0] != "err " + build_err):
                d = Disagreement("persist-roundtrip", f"history raised {build_err} on the "
                                 f"implementation, model replies {bad[:1]}", case)
            return violations, d, info
        states_dir = tmp / "states"
        storeA = StateStore(states_dir, STATE_NAME)
        A.register(storeA)
        fake.now += F(case.get("save_gap", "0"))
        before_clk = {s: None for s in SRCS}
        for s in SRCS:
            fake.begin_op(); before_clk[s] = F(getattr(ctlA, s)()); fake.end_op()
        now = fake.begin_op(case.get("save_script", []))
        save_out = "ok"
        try:
            with pc.patched(A.fake_random, lambda: float(A._now)):
                path = storeA.save_state()
        except Exception as e:
            save_out = "err " + pc.canon_exc(e)
            path = states_dir / STATE_NAME
        sfx = fake.suffix(now)
        fake.end_op()
        lines.append(f"persist fs dirs=[states]"); impl.append("ok")
        lines.append(f"persist save root=states/{STATE_NAME} {sfx}"); impl.append(save_out)
        info["save"] = save_out
        # files and directories written
        listing = pc.tree_listing(states_dir)
        written = sorted(listing)
        lines.append("persist ops")
        impl.append(None)                   # compared structurally below
        ops_at = len(lines) - 1
        if save_out != "ok":
            replies = driver.batch(lines) if driver is not None else []
            d = None
            for k, (ln, a, b) in enumerate(zip(lines, impl, replies)):
                if a is not None and a != b:
                    d = Disagreement("persist-roundtrip", f"line {k} `{ln}`: implementation {a!r}, "
                                     f"model {b!r}", case)
                    break
            return violations, d, info
        lines.append("persist obs sys"); impl.append(A.dump())
        after_clk = read_clocks(ctlA, fake, "sys", lines, impl)
        probes = probes_of(spec)
        countsA = {}
        for name, *_ in spec["users"]:
            for x in probes:
                c = A.count(name, x)
                countsA[(name, x)] = c
                lines.append(f"persist count sys {name} {x}"); impl.append(str(c))
        dataA = {n: pc.data_of(A.kinds[n], A.buffers[n].get_data()) for n in A.buffers}
        leavesA = {i: c.state for i, c in A.comps.items()}
        # monitor: saving must not disturb the running system's clock (F4)
        for s in SRCS:
            lo, hi = before_clk[s], after_clk[s]
            if not case.get("save_script") and lo != hi:
                viol("save:clock-disturbed", f"{s}() changed from {lo} to {hi} across a save at one instant")

        # ---------------- the freshly constructed system ----------------
        fake.now += F(case.get("down", "0"))
        fspec = pc.fresh_spec(spec, caps)
        slotB: list = []
        clkB_lines: list[str] = []
        clkB_impl: list[str] = []
        ctlB = clock_history(slotB, fake, case.get("clockB", []), clkB_lines, clkB_impl)
        B = pc.System(fspec, tol, ctlB)
        k0 = len(lines)
        mlines = pc.model_lines(fspec, "fresh", clkB_lines)
        ci = 0
        for ln in mlines:
            lines.append(ln)
            if ln.startswith("persist clk "):
                impl.append(clkB_impl[ci]); ci += 1
            else:
                impl.append("ok")
        storeB = StateStore(tmp / "states_b", STATE_NAME)
        B.register(storeB)
        scaleB, pausedB = F(ctlB.get_time_scale()), ctlB.is_paused()
        now = fake.begin_op(case.get("load_script", []))
        load_out = "ok"
        try:
            storeB.load_state(path)
        except Exception as e:
            load_out = "err " + pc.canon_load_exc(e, tmp)
        sfx = fake.suffix(now)
        fake.end_op()
        lines.append(f"persist load root=states/{STATE_NAME} tol={1 if tol else 0} tp=err {sfx}")
        impl.append(load_out)
        info["load"] = load_out
        if load_out != "ok":
            viol("roundtrip:load-failed", f"loading the state just saved raised {load_out}")
        else:
            lines.append("persist obs loaded"); impl.append(B.dump())
            at_load = read_clocks(ctlB, fake, "loaded", lines, impl)
            fake.now += F(case.get("probe_gap", "1"))
            later = read_clocks(ctlB, fake, "loaded", lines, impl)
            for name, *_ in spec["users"]:
                for x in probes:
                    lines.append(f"persist count loaded {name} {x}"); impl.append(str(B.count(name, x)))
            # ------------- monitor: the property, directly -------------
            for i, c in B.comps.items():
                if c.state != leavesA[i]:
                    viol("roundtrip:leaf", f"component {i} had state {leavesA[i]} when saved, {c.state} after load")
            for name, v, sync, iv in spec["models"]:
                m = B.models[name]
                if m.version != v:
                    viol("roundtrip:model", f"model {name}: version {v} saved, {m.version} loaded")
                if sync and m.inference_model.version != v:
                    viol("roundtrip:model-not-synced", f"model {name}: inference side sees "
                         f"{m.inference_model.version}, saved parameters are {v}")
            for name, kind, cap, p, _h in spec["users"]:
                capB = caps.get(name, cap)
                got = pc.data_of(kind, B.data_users[name].get_data())
                exp = dataA[name]
                if capB < len(exp):
                    exp = exp[-capB:] if kind in ("seq", "dseq") else exp[:capB]
                    if capB == 0:
                        exp = []
                if got != exp:
                    viol("roundtrip:data" if capB >= cap else "smaller:data",
                         f"user {name} ({kind}, cap {cap}->{capB}): saved {dataA[name]}, loaded {got}, expected {exp}")
                if len(B.data_users[name]) != len(exp):
                    viol("roundtrip:len", f"user {name}: len {len(B.data_users[name])}, expected {len(exp)}")
                qB = B.buffers[name].max_queue_size
                for x in probes:
                    e = min(countsA[(name, x)], qB)
                    g = B.count(name, x)
                    if g != e:
                        viol("roundtrip:count", f"user {name}: count_data_added_since({x}) = {g} after "
                             f"load, {countsA[(name, x)]} before (queue size {qB})")
            for name, prev, cond in spec["trainers"]:
                a = A.trainers[name]._previous_training_time
                b = B.trainers[name]._previous_training_time
                if not same_float(a, b) and not (math.isnan(a) and math.isnan(b)):
                    viol("roundtrip:trainer", f"trainer {name}: marker {a!r} saved, {b!r} loaded")
            if not caps:
                with pc.patched(A.fake_random, lambda: 0.0):
                    for name, prev, cond in spec["trainers"]:
                        ta, tb = A.trainers[name].is_trainable(), B.trainers[name].is_trainable()
                        if ta != tb:
                            viol("roundtrip:is_trainable", f"trainer {name}: is_trainable {ta} before, {tb} after")
            for s in SRCS:
                lo, hi = before_clk[s], after_clk[s]
                v = at_load[s]
                if not case.get("load_script") and not (lo <= v <= hi):
                    viol("roundtrip:clock-restart", f"{s}() reads {show_frac(v)} right after the load; "
                         f"the saved clock stood in [{show_frac(lo)}, {show_frac(hi)}]")
                rate = F(0) if pausedB else scaleB
                exp = v + rate * F(case.get("probe_gap", "1"))
                if later[s] != exp:
                    viol("roundtrip:clock-rate", f"{s}() reads {show_frac(later[s])} "
                         f"{case.get('probe_gap', '1')}s after the load, expected {show_frac(exp)}")
        # ---------------- model ----------------
        d = None
        if driver is not None:
            replies = driver.batch(lines)
            for k, (ln, a, b) in enumerate(zip(lines, impl, replies)):
                if a is None:
                    continue
                if a != b:
                    d = Disagreement("persist-roundtrip", f"line {k} `{ln}`: implementation {a!r}, "
                                     f"model {b!r}", case)
                    break
            if d is None:
                # files written by the implementation == paths created by the model's operations
                mops = replies[ops_at].strip("[]").split(",") if replies[ops_at] != "[]" else []
                created = sorted({o.split(":")[1][len("states/"):] for o in mops
                                  if o.startswith(("mkdir:", "create:"))})
                if created != written:
                    d = Disagreement("persist-roundtrip", f"files written {written}, model {created}", case)
        return violations, d, info
    finally:
        ptime._original_time = saved_std
        shutil.rmtree(tmp, ignore_errors=True)


# ------------------------------------------------------------------------------------------------
# generators
# ------------------------------------------------------------------------------------------------
NAMES = ["a", "b", "c", "left", "right", "x1", "cam", "arm"]


def gen_tree(rng, big: bool):
    nid = [0]

    def fresh():
        nid[0] += 1
        return nid[0]

    def wrap():
        return ["W", fresh()] if rng.random() < 0.6 else ["F", fresh()]

    def agent(d):
        kids = []
        if d > 0 and rng.random() < (0.6 if big else 0.3):
            for n in rng.sample(NAMES, rng.randint(1, 3 if big else 2)):
                kids.append([n, agent(d - 1)])
        return ["A", fresh(), kids]

    def sensor(d):
        r = rng.random()
        if d == 0 or r < 0.5:
            return ["S", fresh()]
        if r < 0.8:
            return ["SD", [[n, sensor(d - 1)] for n in rng.sample(NAMES, rng.randint(0, 2))]]
        return ["SW", sensor(d - 1), wrap()]

    def actuator(d):
        r = rng.random()
        if d == 0 or r < 0.5:
            return ["C", fresh()]
        if r < 0.8:
            return ["CD", [[n, actuator(d - 1)] for n in rng.sample(NAMES, rng.randint(0, 2))]]
        return ["CW", actuator(d - 1), wrap()]

    def env(d):
        r = rng.random()
        if d == 0 or r < 0.4:
            return ["E", fresh()]
        if r < 0.8:
            return ["EM", sensor(d - 1), actuator(d - 1)]
        return ["EW", env(d - 1), wrap(), wrap()]

    depth = rng.randint(0, 3 if big else 2)
    return ["I", agent(depth), env(depth)]


AWKWARD = [0.1, 1e-05, 5e-324, 2.2250738585072014e-308, 1.7976931348623157e+308, -0.0, 1e22,
           123456.789, 1 / 3, 2.5, -7.25, 1e16 + 2]


def gen_spec(rng, big: bool = False) -> dict:
    tree = gen_tree(rng, big)
    states = {str(i): rng.randint(-50, 50) for i in pc.tree_ids(tree)}
    models = []
    for n in rng.sample(["m", "enc", "policy"], rng.randint(0, 3)):
        v = rng.randint(0, 20)
        models.append([n, v, rng.random() < 0.7, v if rng.random() < 0.6 else rng.randint(0, 20)])
    users = []
    for n in rng.sample(["d", "obs", "rew"], rng.randint(0, 3)):
        kind = rng.choice(["seq", "dseq", "rrb", "drrb"])
        cap = rng.choice([1, 1, 2, 3, 4, 8])
        p = rng.choice(["1", "1/2", "1/4"])
        q = cap if kind in ("seq", "dseq") else int(F(cap) / F(p))
        hist, t, x = [], F(rng.randrange(0, 64), 8), 100
        for _ in range(rng.choice([0, 1, 2, cap, cap + 1, 2 * cap + 2, q + 2])):
            if rng.random() < 0.25:
                hist.append(["u"])
            t += F(rng.randrange(0, 9), 8)
            x += 1
            hist.append(["c", x, show_frac(t), show_frac(F(rng.randrange(0, 8), 8)), rng.randrange(0, cap)])
        if rng.random() < 0.5:
            hist.append(["u"])
        users.append([n, kind, cap, p, hist])
    trainers = []
    for n in rng.sample(["t1", "t2", "t3"], rng.randint(0, 3)):
        r = rng.random()
        if r < 0.2:
            prev = "-inf"
        elif r < 0.3:
            prev = "inf"
        elif r < 0.35:
            prev = "nan"
        elif r < 0.6:
            prev = pc.ext_of_float(rng.choice(AWKWARD))
        else:
            prev = show_frac(F(rng.randrange(0, 128), 8))
        cond = rng.choice([u[0] for u in users]) if users and rng.random() < 0.7 else None
        trainers.append([n, prev, cond])
    return {"tree": tree, "states": states, "models": models, "users": users, "trainers": trainers}


def gen_clock_ops(rng, n):
    ops = []
    for _ in range(n):
        k = rng.choice(["set_scale", "set_scale", "pause", "resume"])
        ops.append([k, rng.choice(["0", "1/8", "1", "3"]), rng.choice(["1/2", "1", "2", "4"]) if k == "set_scale" else None])
    return ops


def gen_case(rng, big: bool = False) -> dict:
    spec = gen_spec(rng, big)
    caps = {}
    if rng.random() < 0.4:
        for n, kind, cap, p, _h in spec["users"]:
            if rng.random() < 0.7:
                caps[n] = rng.choice([1, max(1, cap - 1), cap + 2, max(1, cap // 2)])
    advancing = rng.random() < 0.25
    return {"spec": spec, "fresh_caps": caps, "tol": rng.random() < 0.3,
            "start": show_frac(F(rng.randrange(0, 800), 8)),
            "clockA": gen_clock_ops(rng, rng.randint(0, 3)),
            "save_gap": rng.choice(["0", "1/4", "2", "10"]),
            "save_script": [rng.choice(["0", "1/8", "1/4"]) for _ in range(6)] if advancing else [],
            "down": rng.choice(["0", "1", "1000", "86400"]),
            "clockB": gen_clock_ops(rng, rng.randint(0, 2)),
            "load_script": [rng.choice(["0", "1/8"]) for _ in range(3)] if advancing else [],
            "probe_gap": rng.choice(["0", "1/2", "1", "7"])}


def classify(case) -> tuple:
    spec = case["spec"]
    over = any(sum(1 for h in hist if h[0] == "c") > cap for _n, _k, cap, _p, hist in spec["users"])
    pend = any(hist and hist[-1][0] == "c" for *_x, hist in spec["users"])
    smaller = any(case.get("fresh_caps", {}).get(n, cap) < cap for n, _k, cap, *_ in spec["users"])
    kinds = tuple(sorted({k for _n, k, *_ in spec["users"]}))
    markers = tuple(sorted({"inf" if p in ("inf", "-inf", "nan") else "fin" for _n, p, _c in spec["trainers"]}))
    nested = any(a for a in [spec["tree"][1][2]])
    return (kinds, over, pend, smaller, markers, bool(nested), len(spec["models"]),
            bool(case.get("clockA")), case.get("down") != "0")


def run_many(ctx: Ctx, res: SuiteResult, cases) -> None:
    for case in cases:
        vs, d, info = run_case(case, ctx.driver)
        res.evaluations += 1
        res.hit("save:" + str(info.get("save")))
        res.hit("load:" + str(info.get("load")))
        if "build_error" in info:
            res.hit("history-error:" + info["build_error"])
        for _n, k, *_ in case["spec"]["users"]:
            res.hit("buffer:" + k)
        if case.get("fresh_caps"):
            res.hit("fresh:other-capacity")
        if case.get("tol"):
            res.hit("leaves:tolerant")
        c = classify(case)
        if case["spec"]["users"] or case["spec"]["trainers"] or c[5]:
            res.nontrivial.add(json.dumps([c, pc.term(case["spec"]["tree"])], default=str))
        res.sample({"case": case, "outcome": info})
        res.violations += vs
        if d:
            res.disagreements.append(d)
        if len(res.violations) > 20 or len(res.disagreements) > 10:
            return


def suite_small(ctx: Ctx) -> SuiteResult:
    """Corpus first, then every small data-user configuration."""
    res = SuiteResult("persist-small-exhaustive", exhaustive=True,
                      rule="corpus, then every (buffer kind in seq/dseq/rrb/drrb) x (capacity 1..3) x "
                           "(0..cap+2 samples, last one pending or not) x (fresh capacity 1..3) with a "
                           "nested agent, one model, one trainer at each of -inf/inf/nan/0.1; "
                           "non-trivial = has a data user or trainer or nested agent; distinct by "
                           "(kinds, overflow, pending, smaller, marker class, tree)")
    for c in corpus_cases("C05"):
        if "spec" not in c["case"]:
            continue                    # witnesses of other suites (e.g. the PyTorch trainer part)
        vs, d, _ = run_case(c["case"], ctx.driver)
        res.evaluations += 1
        res.hit("corpus")
        res.violations += vs
        if d:
            res.disagreements.append(d)
    tree = ["I", ["A", 1, [["kid", ["A", 2, []]]]], ["EM", ["S", 3], ["CW", ["C", 4], ["W", 5]]]]
    states = {"1": 7, "2": -3, "3": 11, "4": 0, "5": 9}
    cases = []
    marks = ["-inf", "inf", "nan", pc.ext_of_float(0.1)]
    mi = 0
    for kind in ["seq", "dseq", "rrb", "drrb"]:
        for cap in (1, 2, 3):
            for n in range(0, cap + 3):
                for pending in (False, True):
                    for capB in (1, 2, 3):
                        hist = [["c", 100 + j, show_frac(F(j + 1, 2)), show_frac(F(j % 4, 4)), j % cap]
                                for j in range(n)]
                        if not pending:
                            hist.append(["u"])
                        elif n >= 2:
                            hist.insert(1, ["u"])
                        spec = {"tree": tree, "states": states, "models": [["m", 4, True, 2]],
                                "users": [["d", kind, cap, "1/2", hist]],
                                "trainers": [["t", marks[mi % 4], "d"]]}
                        mi += 1
                        cases.append({"spec": spec, "fresh_caps": {"d": capB} if capB != cap else {},
                                      "tol": False, "start": "0", "clockA": [["set_scale", "1", "2"]],
                                      "save_gap": "1", "down": "1000", "clockB": [], "probe_gap": "1/2"})
    if ctx.tier == "quick":
        cases = cases[::2]
    run_many(ctx, res, cases)
    return res


def suite_random(ctx: Ctx) -> SuiteResult:
    res = SuiteResult("persist-random-systems",
                      rule="seeded random systems: component trees up to depth 3 over all composite "
                           "classes, 0-3 models (stale or synced inference side), 0-3 data users of "
                           "the four built-in buffers with collect/update histories up to overflow of "
                           "buffer and collector queue, trainers with -inf/inf/nan/awkward/dyadic "
                           "markers, clock histories before save and before load, save while the real "
                           "clock advances, load into other capacities (40%), tolerant leaves (30%); "
                           "non-trivial and distinct as in the small suite")
    n = ctx.n(1500, 40000)
    run_many(ctx, res, (gen_case(ctx.rng, big=(i % 3 == 0)) for i in range(n)))
    return res


def suite_malformed(ctx: Ctx) -> SuiteResult:
    """Malformed protocol lines are rejected, never defaulted; loading a path that does not exist
    raises FileNotFoundError on both sides."""
    res = SuiteResult("persist-malformed", rule="malformed driver lines and missing state paths")
    bad = ["persist", "persist tree I(A1{},E2)", "persist tree I(A1{},E2) states=[1:0]",
           "persist tree I(A1{a:A2{},a:A3{}},E4) states=[1:0,2:0,3:0,4:0]",
           "persist model m v=x sync=1 iv=0", "persist user d kind=lifo cap=2", "persist user d kind=rrb cap=2",
           "persist collect nobody x=1 t=0 u=0 i=0", "persist trainer t prev=soon", "persist commit other",
           "persist save root=a//b now=0,0,0", "persist crash k=1", "persist load root=a tol=2 tp=err now=0,0,0",
           "persist load root=a tol=1 tp=what now=0,0,0", "persist obs nothing", "persist count sys",
           "persist launch_order", "persist look a//b", "persist fs dirs=a"]
    if ctx.driver is not None:
        replies = ctx.driver.batch(["persist reset"] + bad)
        for ln, r in zip(bad, replies[1:]):
            res.evaluations += 1
            res.hit("reply:" + r)
            if r != "bad-op":
                res.disagreements.append(Disagreement("persist-malformed", f"`{ln}` answered {r!r}", ln))
        res.nontrivial |= set(bad)
    # missing state path
    from pamiq_core.state_persistence import StateStore
    tmp = Path(tempfile.mkdtemp(prefix="pamiq-verif."))
    try:
        store = StateStore(tmp / "states")
        out = "ok"
        try:
            store.load_state(tmp / "states" / "nothing.state")
        except Exception as e:
            out = "err " + pc.canon_load_exc(e, tmp).replace("@?", "@states/nothing.state")
        res.evaluations += 1
        res.hit("missing-path:" + out)
        if ctx.driver is not None:
            r = ctx.driver.batch(["persist reset", "persist commit fresh", "persist fs dirs=[states]",
                                  "persist load root=states/nothing.state tol=0 tp=err now=0,0,0"])[-1]
            if r != out:
                res.disagreements.append(Disagreement("persist-malformed", f"missing path: implementation "
                                                      f"{out}, model {r}", "missing-path"))
        if not out.startswith("err FileNotFoundError"):
            res.violations.append(Violation("load:missing-path-accepted",
                                            f"load_state of a missing directory: {out}", "missing-path"))
    finally:
        shutil.rmtree(tmp, ignore_errors=True)
    res.sample({"malformed": bad[:4]})
    return res


# ------------------------------------------------------------------------------------------------
# byte-level round trips the model takes for granted (monitor only)
# ------------------------------------------------------------------------------------------------

def gen_floats(rng, n):
    out = [0.0, -0.0, float("inf"), float("-inf"), float("nan"), 5e-324, -5e-324,
           2.2250738585072014e-308, 2.225073858507201e-308, 1.7976931348623157e+308,
           -1.7976931348623157e+308, 0.1, 0.30000000000000004, 1e22, 1e23, 9007199254740993.0]
    for _ in range(n):
        r = rng.random()
        if r < 0.4:
            out.append(struct.unpack("<d", struct.pack("<Q", rng.getrandbits(64)))[0])
        elif r < 0.6:
            out.append(struct.unpack("<d", struct.pack("<Q", rng.getrandbits(52)))[0])   # subnormal
        elif r < 0.8:
            out.append(rng.uniform(-1e6, 1e6))
        else:
            out.append(1_700_000_000 + rng.random() * 1e6)     # epoch-like
    return out


def suite_bytes(ctx: Ctx) -> SuiteResult:
    res = SuiteResult("persist-byte-roundtrips",
                      rule="real Trainer.save_state/load_state on random bit patterns of float "
                           "(subnormals, infinities, nan, -0.0, extremes) must return the identical "
                           "bits; real DataUser.save_state/load_state with such timestamps must "
                           "answer count_data_added_since identically; distinct = distinct floats")
    from pamiq_core.data import DataUser
    from pamiq_core.data.impls import SequentialBuffer
    from pamiq_core.trainer import Trainer

    class T(Trainer):
        def train(self): pass

    tmp = Path(tempfile.mkdtemp(prefix="pamiq-verif."))
    try:
        vals = gen_floats(ctx.rng, ctx.n(600, 20000))
        for k, x in enumerate(vals):
            a, b = T(), T()
            a._previous_training_time = x
            p = tmp / f"t{k}"
            a.save_state(p)
            b.load_state(p)
            y = b._previous_training_time
            res.evaluations += 1
            res.hit("float:" + ("nan" if math.isnan(x) else "inf" if math.isinf(x) else
                                "subnormal" if x != 0 and abs(x) < 2.2250738585072014e-308 else "finite"))
            res.nontrivial.add(struct.pack("<d", x))
            if not (same_float(x, y) or (math.isnan(x) and math.isnan(y))):
                res.violations.append(Violation("roundtrip:float-text", f"marker {x!r} came back as {y!r}",
                                                {"float_bits": struct.pack('<d', x).hex()}))
            shutil.rmtree(p, ignore_errors=True)
        # timestamps through pickle
        import pamiq_core.data.interface as di
        finite = sorted(v for v in vals if not math.isnan(v) and not math.isinf(v))
        for k in range(ctx.n(40, 600)):
            ts = sorted(ctx.rng.sample(finite, min(len(finite), ctx.rng.randint(1, 12))))
            cur = [0.0]
            old = di.time
            di.time = type("T", (), {"time": staticmethod(lambda: cur[0])})
            try:
                ua, ub = DataUser(SequentialBuffer(16)), DataUser(SequentialBuffer(16))
                for j, t in enumerate(ts):
                    cur[0] = t
                    ua._collector.collect(j)
                p = tmp / f"u{k}"
                ua.save_state(p)
                ub.load_state(p)
            finally:
                di.time = old
            res.evaluations += 1
            res.hit("timestamps-deque")
            for x in ts + [float("inf"), float("-inf"), float("nan")]:
                if ua.count_data_added_since(x) != ub.count_data_added_since(x):
                    res.violations.append(Violation(
                        "roundtrip:timestamp-pickle", f"count_data_added_since({x!r}) differs after "
                        f"reload", {"timestamps_bits": [struct.pack('<d', t).hex() for t in ts]}))
                    break
            if ua.get_data() != ub.get_data():
                res.violations.append(Violation("roundtrip:data", "buffer content differs after reload",
                                                {"timestamps_bits": [struct.pack('<d', t).hex() for t in ts]}))
            shutil.rmtree(p, ignore_errors=True)
        res.sample({"floats": [repr(v) for v in vals[:6]]})
    finally:
        shutil.rmtree(tmp, ignore_errors=True)
    return res


suite_bytes.needs_driver = False


# ------------------------------------------------------------------------------------------------
# real launch(), final save, relaunch in a fresh process
# ------------------------------------------------------------------------------------------------

def child_launch(arg: dict) -> dict:
    """Runs in a child process: a real `launch()` on a system whose stdlib clock is the real one
    shifted by `offset` seconds (so that a restarted or jumping system clock is unmistakable)."""
    import threading
    import time as real_time
    setup_repo_path()
    import pamiq_core.time as ptime

    offset = float(arg["offset"])

    class Shifted:
        @staticmethod
        def time(): return real_time.time() + offset
        @staticmethod
        def perf_counter(): return real_time.perf_counter() + offset
        @staticmethod
        def monotonic(): return real_time.monotonic() + offset
        sleep = staticmethod(real_time.sleep)

    ptime._original_time = Shifted
    ptime._time_controller.__init__()
    from pamiq_core import launch
    from pamiq_core.trainer import Trainer
    spec = arg["spec"]
    collect = bool(arg["collect"])
    first: dict = {}
    lock = threading.Lock()
    SAgent, *_ = pc.make_classes()
    VModel, _ = pc.model_classes()

    def snapshot_once(tag, fn):
        with lock:
            if tag not in first:
                first[tag] = fn()

    class LAgent(SAgent):
        n = [1000]
        last_seen = [float("-inf")]        # the latest system-clock value a component read during the run

        def __init__(self, rec, lid, state, tolerant, children):
            super().__init__(rec, lid, state, tolerant, children)
            self._ctor_state = state

        def on_inference_models_attached(self):
            # a component may well prepare its persisted members when it is wired up (the attach hooks
            # are the first place where models and collectors are available): the saved state is loaded
            # after the wiring and must win
            self.state = self._ctor_state

        def on_data_collectors_attached(self):
            self.colls = {}
            self.state = self._ctor_state
            if self.lid == spec["tree"][1][1]:
                self.colls = {name: self.get_data_collector(name) for name, *_ in spec["users"]}

        def setup(self):
            super().setup()
            if self.lid == spec["tree"][1][1]:
                snapshot_once("clock", lambda: ptime.time())
                snapshot_once("inference", lambda: {n: self.get_inference_model(n).version
                                                    for n, *_ in spec["models"]})

        def step(self, observation):
            self.state += 1
            LAgent.last_seen[0] = max(LAgent.last_seen[0], ptime.time())
            if collect:
                for name, c in self.colls.items():
                    LAgent.n[0] += 1
                    kind = [k for n, k, *_ in spec["users"] if n == name][0]
                    c.collect(pc.sample_of(kind, LAgent.n[0]))
            real_time.sleep(0.002)
            return pc.ANY_ACTION

    rec = pc.Rec()
    interaction, comps = pc.build_interaction(spec["tree"], spec["states"], False, rec, agent_cls=LAgent)
    models = {n: VModel(v, True, False) for n, v, _s, _iv in spec["models"]}
    fr = pc.FakeRandom()
    buffers = {n: pc.make_buffer(n, kind, cap, p, fr, {}) for n, kind, cap, p, _h in spec["users"]}
    kinds = {n: kind for n, kind, *_ in spec["users"]}

    probes = [pc.float_of_ext(x) for x in arg["probes"]] if arg.get("probes") else None

    def observe(tr, probes):
        out = {}
        for n in buffers:
            u = tr.get_data_user(n)
            data = pc.data_of(kinds[n], u.get_data())
            out[n] = {"data": data, "len": len(u),
                      "counts": [u.count_data_added_since(x) for x in probes or []]}
        return out

    class LTrainer(Trainer):
        def on_training_models_attached(self):
            self.ms = {n: self.get_training_model(n) for n in models}

        def is_trainable(self):
            snapshot_once("data", lambda: observe(self, probes))
            snapshot_once("markers", lambda: {n: t._previous_training_time for n, t in trainers.items()})
            snapshot_once("versions", lambda: {n: m.version for n, m in models.items()})
            return super().is_trainable() if collect else False

        def train(self):
            # the work takes a while and its result is written at the end: a run in flight when the system
            # is told to stop still completes, and the final state must contain what it wrote
            real_time.sleep(float(arg.get("train_secs", 0.002)))
            for m in self.ms.values():
                m.version += 1

    trainers = {n: LTrainer(training_condition_data_user=cond, min_new_data_count=2)
                for n, _p, cond in spec["trainers"]}
    err = None
    try:
        launch(interaction, models, buffers, trainers,
               dict(states_dir=arg["states_dir"], saved_state_path=arg.get("saved"),
                    max_uptime=float(F(arg["uptime"])), web_api_address=None,
                    time_scale=float(arg["scale"]),
                    timeout_for_all_threads_pause=float(arg.get("pause_timeout", 5.0))))
    except BaseException as e:      # noqa: BLE001 - reported to the parent
        err = f"{type(e).__name__}: {e}"
    # "the values the run ended with" are those after its last step / training run has finished: wait for
    # any thread launch() may have left behind (there is none on a correct system)
    t_end = real_time.monotonic() + 3.0
    leftovers = [t for t in threading.enumerate() if t is not threading.main_thread() and not t.name.startswith("asyncio")]
    for t in leftovers:
        t.join(max(0.0, t_end - real_time.monotonic()))
    end_clock = ptime.time()
    tr0 = next(iter(trainers.values())) if trainers else None
    if probes is None:
        span = float(F(arg["uptime"]))
        probes = [end_clock - k * span / 4 for k in range(6)] + [float("inf"), float("-inf")]
    final = {
        "leaves": {str(i): c.state for i, c in comps.items()},
        "versions": {n: m.version for n, m in models.items()},
        "inference": {n: m.inference_model.version for n, m in models.items()},
        "markers": {n: pc.ext_of_float(t._previous_training_time) for n, t in trainers.items()},
        "data": observe(tr0, probes) if tr0 is not None else {},
        "clock": end_clock,
        "last_seen": pc.ext_of_float(LAgent.last_seen[0]),
        "probes": [pc.ext_of_float(x) for x in probes],
    }
    if "markers" in first:
        first["markers"] = {n: pc.ext_of_float(x) for n, x in first["markers"].items()}
    first["leaves"] = {str(i): s for (_e, i, s) in rec.events}
    states = sorted(os.listdir(arg["states_dir"])) if os.path.isdir(arg["states_dir"]) else []
    return {"error": err, "final": final, "first": first, "states": states}


_SEEDS: list[str] = []


def hash_seeds() -> list[str]:
    """Two PYTHONHASHSEED values under which a set of the dict buffers' keys iterates in different orders: the
    saving and the loading process of a relaunch get one each (a saved state is read by another interpreter
    process, whose string hashes are its own)."""
    if not _SEEDS:
        seen: dict[str, str] = {}
        for sd in map(str, range(1, 40)):
            out = subprocess.run([sys.executable, "-c", "print(list({'a','b'}))"], capture_output=True, text=True,
                                 env={**os.environ, "PYTHONHASHSEED": sd}).stdout.strip()
            seen.setdefault(out, sd)
            if len(seen) == 2:
                break
        _SEEDS.extend(list(seen.values()) * 2)
    return _SEEDS[:2]


def run_child(mode: str, arg: dict, timeout: float = 60.0) -> dict:
    env = dict(os.environ)
    env["PYTHONDONTWRITEBYTECODE"] = "1"
    env["PYTHONHASHSEED"] = hash_seeds()[1 if arg.get("saved") else 0]
    proc = subprocess.run([sys.executable, __file__, "--child", mode], input=json.dumps(arg),
                          capture_output=True, text=True, timeout=timeout, env=env)
    for line in reversed(proc.stdout.splitlines()):
        if line.startswith("RESULT "):
            return json.loads(line[len("RESULT "):])
    raise RuntimeError(f"child {mode} failed (exit {proc.returncode}): {proc.stderr[-800:]}")


def launch_case(case: dict) -> tuple[list[Violation], dict]:
    """run 1 (collecting, training) -> final save -> run 2 in a fresh process from that state."""
    tmp = tempfile.mkdtemp(prefix="pamiq-verif.")
    vs: list[Violation] = []
    try:
        base = {"spec": case["spec"], "states_dir": os.path.join(tmp, "states"), "scale": case["scale"]}
        slow = {"train_secs": 0.4, "pause_timeout": 0.03} if case.get("slow_train") else {}
        r1 = run_child("launch", {**base, "offset": 1000.0, "collect": True, "uptime": case["uptime"],
                                  "probes": None, **slow})
        if r1["error"] or len(r1["states"]) != 1:
            return [Violation("launch:run-failed", f"first run: {r1['error']}, states {r1['states']}", case)], {}
        saved = os.path.join(tmp, "states", r1["states"][0])
        r2 = run_child("launch", {**base, "offset": 9000.0, "collect": False,
                                  "uptime": str(float(F(case["scale"]) / 10)), "saved": saved,
                                  "probes": r1["final"]["probes"]})
        if r2["error"]:
            return [Violation("relaunch:failed", f"relaunch from the final state raised {r2['error']}", case)], {}
        f1, g2 = r1["final"], r2["first"]

        inconclusive = []

        def cmp(key, what, a, b):
            if b is None:
                inconclusive.append(key)      # the thread never reached its first callback
                return
            if a != b:
                vs.append(Violation("relaunch:" + key, f"{what}: previous run ended with {a}, "
                                    f"relaunched system starts with {b}", case))
        cmp("leaf", "component states at first setup()", f1["leaves"], g2.get("leaves"))
        if case["spec"]["trainers"]:
            cmp("data", "data users at the first is_trainable()", f1["data"], g2.get("data"))
            cmp("trainer", "trainer markers", f1["markers"], g2.get("markers"))
            cmp("model", "model versions", f1["versions"], g2.get("versions"))
        if case["spec"]["models"]:
            cmp("inference", "versions the agent's inference models show", f1["versions"], g2.get("inference"))
        # clock: run 1 ended at f1.clock (its stdlib clock = real + 1000, system clock further ahead
        # by the time scale); run 2's stdlib clock = real + 9000.  Continuing means: first reading
        # in run 2 is just after f1.clock, not near run 2's stdlib clock and not near real time.
        c1, c2 = f1["clock"], g2.get("clock")
        if c2 is not None and not (c1 - 0.5 <= c2 <= c1 + 30.0):
            vs.append(Violation("relaunch:clock", f"system clock: previous run ended at {c1}, the "
                                f"relaunched system first reads {c2}", case))
        # ... and not before an instant the components of run 1 have already seen (their samples and training
        # markers carry such instants): the saved clock is the clock the run ended with, not an earlier one
        seen = pc.float_of_ext(f1["last_seen"]) if f1.get("last_seen") is not None else None
        if c2 is not None and seen is not None and seen != float("-inf") and c2 < seen - 1e-3:
            vs.append(Violation("relaunch:clock-backwards",
                                f"system clock: a step of the previous run read {seen}, the relaunched system "
                                f"first reads {c2} ({seen - c2:.3f} s earlier)", case))
        return vs, {"run1": {k: f1[k] for k in ("leaves", "versions", "markers")},
                    "n_data": {n: d["len"] for n, d in f1["data"].items()},
                    "inconclusive": inconclusive}
    finally:
        shutil.rmtree(tmp, ignore_errors=True)


def gen_launch_case(rng) -> dict:
    spec = gen_spec(rng, big=False)
    # the launch suite needs every data user fed by the root agent and trainers that can train
    spec["users"] = [[n, k, cap, "1", []] for n, k, cap, _p, _h in spec["users"]] or [["d", "seq", 4, "1", []]]
    spec["trainers"] = [[n, "-inf", spec["users"][0][0]] for n, _p, _c in spec["trainers"]] or \
                       [["t1", "-inf", spec["users"][0][0]]]
    spec["models"] = [[n, v, True, v] for n, v, _s, _iv in spec["models"]] or [["m", 3, True, 3]]
    scale = rng.choice(["1", "20", "200"])
    # in half of the cases a training run (0.4 s, far longer than the pause time-out) is in flight when the
    # uptime limit ends the run
    return {"spec": spec, "scale": scale, "uptime": show_frac(F(scale) * F(3, 20)),
            "slow_train": rng.random() < 0.5}


def suite_launch(ctx: Ctx) -> SuiteResult:
    res = SuiteResult("persist-relaunch-child-process",
                      rule="real launch() (threads, collection, training, final save) in a child "
                           "process, then launch(saved_state_path=...) of freshly constructed "
                           "components in another child process whose stdlib clocks are shifted by "
                           "8000 s; what the components observe in their first callbacks must equal "
                           "what the first run ended with; distinct by system description")
    cases = [gen_launch_case(ctx.rng) for _ in range(ctx.n(4, 24))]
    for i, c in enumerate(cases):
        c["slow_train"] = i % 2 == 0
        if i % 4 in (1, 3):
            # a dictionary buffer (keys given as a set) in every second case: saved by one interpreter process,
            # loaded by another with another hash seed
            c["spec"]["users"][0][1] = "dseq" if i % 4 == 1 else "drrb"
    # max_uptime is in system time: keep the real duration of run 1 around 0.1-0.3 s
    with ThreadPoolExecutor(max_workers=8) as ex:
        for case, (vs, info) in zip(cases, ex.map(launch_case, cases)):
            res.evaluations += 1
            res.hit("scale:" + case["scale"])
            res.nontrivial.add(json.dumps(case["spec"], sort_keys=True))
            res.violations += vs
            res.sample({"case": case, "observed": info})
            for n, k in (info.get("n_data") or {}).items():
                res.hit("run1-collected" if k else "run1-collected-nothing")
            for k in info.get("inconclusive") or []:
                res.hit("inconclusive:" + k)
    return res


suite_launch.needs_driver = False


# ------------------------------------------------------------------------------------------------
def search(ctx: Ctx, disagreements, broken):
    import random
    out: list[Violation] = []
    for d in disagreements:
        if isinstance(d.case, dict) and "spec" in d.case:
            vs, _, _ = run_case(d.case, None)
            out += vs
    if out:
        return out
    rng = random.Random(ctx.seed + 1)
    for i in range(ctx.n(3000, 20000)):
        vs, _, _ = run_case(gen_case(rng, big=(i % 3 == 0)), None)
        if vs:
            return vs
    for i in range(ctx.n(4, 16)):
        c = gen_launch_case(rng)
        # accelerated runs first: whatever the final save gets wrong about the clock grows with the scale
        c["scale"] = ["20", "200", "1", "20"][i % 4]
        c["uptime"] = show_frac(F(c["scale"]) * F(3, 20))
        vs, _ = launch_case(c)
        if vs:
            return vs
    return out


def replay(ctx: Ctx, payload: dict) -> SuiteResult:
    res = SuiteResult("replay")
    case = payload.get("case") or payload.get("first_disagreement")
    res.evaluations = 1
    if isinstance(case, dict) and "uptime" in case:
        vs, info = launch_case(case)
        res.violations = vs
        print("observed:", info)
    elif isinstance(case, dict) and "spec" in case:
        vs, d, info = run_case(case, ctx.driver)
        res.violations = vs
        if d:
            res.disagreements.append(d)
        print("outcome:", info)
    elif isinstance(case, dict) and "torch_trainer" in case:
        import c05_torch
        vs, d = c05_torch.run_case(case["torch_trainer"], ctx.driver)
        res.violations = vs
        if d:
            res.disagreements.append(d)
    elif isinstance(case, dict) and "float_bits" in case:
        x = struct.unpack("<d", bytes.fromhex(case["float_bits"]))[0]
        print("float:", repr(x), "->", repr(float(str(x))))
        if not same_float(x, float(str(x))) and not math.isnan(x):
            res.violations.append(Violation("roundtrip:float-text", "str/float round trip", case))
    else:
        print("nothing to replay in this file")
    return res


if __name__ == "__main__":
    if len(sys.argv) >= 3 and sys.argv[1] == "--child":
        arg = json.loads(sys.stdin.read())
        out = child_launch(arg)
        print("RESULT " + json.dumps(out))
        sys.stdout.flush()
        os._exit(0)
    setup_repo_path()
    import c05_torch
    sys.exit(run_check(
        "C05", lean_modules=["Pamiq.Props.C05", "Pamiq.Props.C05Torch"],
        required_theorems=["Pamiq.Persist.load_save", "Pamiq.Persist.load_save_id",
                           "Pamiq.Persist.load_into_smaller", "Pamiq.Persist.clock_continues",
                           "Pamiq.Persist.clock_no_jump", "Pamiq.Persist.relaunch",
                           "Pamiq.Persist.reload_data", "Pamiq.Persist.reload_models",
                           "Pamiq.Persist.reload_trainers", "Pamiq.Persist.update_keeps_invariants",
                           "Pamiq.Persist.trainable_preserved",
                           "Pamiq.TorchTrainer.load_save_torch", "Pamiq.TorchTrainer.setup_ok_after_reload",
                           "Pamiq.TorchTrainer.other_kind_not_matched", "Pamiq.TorchTrainer.as_found_renames_state",
                           "Pamiq.TorchTrainer.as_found_setup_fails"],
        suites=[suite_small, suite_random, suite_malformed, suite_bytes, suite_launch,
                c05_torch.suite_torch_trainer],
        search=search, replay=replay,
        assumptions=["byte formats are trusted: pickle and str(float)/float(str) round trips are "
                     "exact (exercised on random bit patterns by the byte-roundtrip suite, not proved)",
                     "IEEE-754 rounding is not modelled: clock cases use dyadic values on which every "
                     "float operation of time.py is exact",
                     "user components and models are the harness's (one integer of state in one "
                     "file); what an arbitrary user save_state/load_state does is outside the model",
                     "max_queue_size=None (custom unbounded buffers) is not modelled; the built-in "
                     "buffers always have an integer bound",
                     "the model performs all DataUser.update() calls before the file operations; the "
                     "code interleaves them (same result unless an update raises)",
                     "trainer markers are set through the private attribute (no public setter); "
                     "is_trainable() is compared as the public observable",
                     "PyTorch is replaced by the stand-in harness/stubs/torch (torch.save/load = pickle, "
                     "Optimizer/LRScheduler.state_dict round trip); optimizer / scheduler names contain no "
                     "path separator"],
        trusted_extra=["scripted stand-ins for the stdlib time module and for `random` inside "
                       "random_replacement_buffer.py (harness/corr/c05.py, harness/persist_common.py)"],
        level_text="round-trip theorem load(save s) = s on all observables for every system, "
                   "capacity and tree; load into other capacities; clock continuity; relaunch — "
                   "with correspondence of the model to the real StateStore/launch()"))
