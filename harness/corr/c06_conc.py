"""C06, concurrency suite — concurrent callers observe values of one single clock.

`suite_concurrent(ctx)` (to be listed among C06's suites): two or three logical threads under the
line-granular deterministic scheduler (`harness/linesched.py`, `sys.monitoring` LINE preemption
inside every function of `pamiq_core/time.py`, cooperating re-entrant lock in place of
`time.RLock`), each issuing public `TimeController` operations against a scripted stdlib clock.

Scripted real time: it advances by the next scripted gap whenever the lock CHANGES HANDS (at the
first stdlib read after a new outermost acquisition) and stands still otherwise, so an operation
that really holds the lock for all its accesses observes one single instant, and an operation
whose accesses are split over several critical sections observes several.

Correspondence: the results of all operations must equal those of the Lean `Clock` model (`clock …`
protocol) executed SEQUENTIALLY in the observed lock-acquisition order, each operation fed with
the stdlib readings the implementation made in it — `Clock.clock_calls_atomic` (Props/C06Conc.lean)
says this is all an interleaving can do when every public method holds the lock for all its field
accesses. It is also checked that every public call takes the lock exactly once (outermost).

Monitor (independent of the Lean model): the results are LINEARIZABLE with respect to the integral
specification written here in Python (value = value at the last rate change + rate x real time
since): there must be a total order of the operations, compatible with their real-time order
(an operation that returned before another was called comes first), in which every operation takes
effect at one of the instants at which it read the real clock (non-decreasing along the order) and
returns exactly what the specification returns; and per clock source the readings along that
order never decrease (no load in between).
"""
from __future__ import annotations

import itertools
import sys
from fractions import Fraction as F
from pathlib import Path

sys.path.insert(0, str(Path(__file__).resolve().parent.parent))
import linesched
from framework import (Ctx, Disagreement, SuiteResult, Violation, corpus_cases, setup_repo_path,
                       show_frac, show_list)

SRCS = ["time", "perf_counter", "monotonic"]
BASES = {"time": F(1_000_000), "perf_counter": F(5_000), "monotonic": F(70_000)}
KEYS = ("scaled_anchor_time", "scaled_anchor_perf_counter", "scaled_anchor_monotonic")
_ORIG: dict = {}


def _ptime():
    setup_repo_path()
    import pamiq_core.time as ptime
    if "real" not in _ORIG:
        _ORIG["real"] = (ptime._original_time, ptime.RLock)
    return ptime


class ConcStdTime:
    """Stand-in for the stdlib `time` module as seen by pamiq_core.time (see module docstring)."""

    def __init__(self, start: F, gaps: list[F], sections) -> None:
        self.now = start
        self.gaps = list(gaps)
        self.sections = sections          # callable: number of outermost lock acquisitions so far
        self.seen_sections = -1
        self.reads: list[tuple] = []      # (owner, src, value, now)
        self.sleeps: list[tuple] = []     # (owner, secs)
        self.owner = lambda: None         # callable: (thread, op index) of the caller

    def _read(self, src: str) -> float:
        n = self.sections()
        if n != self.seen_sections:
            if self.seen_sections >= 0:
                self.now += self.gaps.pop(0) if self.gaps else F(1)
            self.seen_sections = n
        v = BASES[src] + self.now
        self.reads.append((self.owner(), src, v, self.now))
        return float(v)

    def time(self) -> float: return self._read("time")
    def perf_counter(self) -> float: return self._read("perf_counter")
    def monotonic(self) -> float: return self._read("monotonic")
    def sleep(self, secs: float) -> None:
        self.sleeps.append((self.owner(), secs))
        if len(self.sleeps) > 400:
            raise RuntimeError(f"runaway: {len(self.sleeps)} stdlib sleeps in one case")


# ------------------------------------------------------------------------------------------------
# the integral specification (Python, independent of the Lean model)
# ------------------------------------------------------------------------------------------------

class Spec:
    def __init__(self, now: F) -> None:
        self.v = {s: BASES[s] + now for s in SRCS}
        self.at = now
        self.scale = F(1)
        self.paused = False

    def copy(self) -> "Spec":
        c = Spec.__new__(Spec)
        c.v, c.at, c.scale, c.paused = dict(self.v), self.at, self.scale, self.paused
        return c

    def advance(self, now: F) -> None:
        rate = F(0) if self.paused else self.scale
        for s in SRCS:
            self.v[s] += rate * (now - self.at)
        self.at = now

    def apply(self, op, now):
        """-> result string of `op` taking effect at real time `now` (None: no instant needed)."""
        kind = op[0]
        if now is not None:
            self.advance(now)
        if kind == "read":
            return show_frac(self.v[op[1]])
        if kind == "set_scale":
            if F(op[1]) > 0:
                self.scale = F(op[1])
                return "ok"
            return "err AssertionError"
        if kind == "pause":
            self.paused = True
            return "ok"
        if kind == "resume":
            self.paused = False
            return "ok"
        if kind == "state_dict":
            return ",".join(show_frac(self.v[s]) for s in SRCS)
        if kind == "load_state_dict":
            for s, x in zip(SRCS, op[1]):
                self.v[s] = F(x)
            return "ok"
        if kind == "sleep":
            return "none" if self.paused else show_frac(F(op[1]) / self.scale)
        if kind == "get_scale":
            return show_frac(self.scale)
        if kind == "is_paused":
            return "1" if self.paused else "0"
        raise ValueError(kind)


NEEDS_INSTANT = {"read", "set_scale", "pause", "resume", "state_dict", "load_state_dict"}


def linearizable(spec0: Spec, ops: list[dict]) -> tuple[bool, list | None]:
    """ops: [{"id", "op", "result", "call", "ret", "instants": [..]}] (call/ret = positions in the
    global event order). Depth-first search for a linearization; returns (found, order)."""
    n = len(ops)
    best: list = []

    def rec(done: frozenset, spec: Spec, last_instant: F, order: list, last_val: dict) -> bool:
        nonlocal best
        if len(order) > len(best):
            best = list(order)
        if len(done) == n:
            return True
        # candidates: operations not preceded (in real time) by an unfinished one
        for i, o in enumerate(ops):
            if i in done:
                continue
            if any(j not in done and ops[j]["ret"] < o["call"] for j in range(n) if j != i):
                continue
            instants = [x for x in o["instants"] if x >= last_instant] or \
                ([None] if not o["instants"] else [])
            if o["op"][0] in NEEDS_INSTANT and not o["instants"]:
                instants = [None]       # (e.g. reads while paused make no stdlib read)
            for inst in dict.fromkeys(instants):
                sp = spec.copy()
                try:
                    out = sp.apply(o["op"], inst)
                except Exception:
                    continue
                if out != o["result"]:
                    continue
                lv = dict(last_val)
                if o["op"][0] == "read":
                    s = o["op"][1]
                    v = F(out)
                    if s in lv and v < lv[s]:
                        continue
                    lv[s] = v
                elif o["op"][0] == "load_state_dict":
                    lv = {}
                if rec(done | {i}, sp, last_instant if inst is None else inst, order + [o["id"]], lv):
                    return True
        return False

    ok = rec(frozenset(), spec0.copy(), spec0.at, [], {})
    return ok, (best if not ok else None)


# ------------------------------------------------------------------------------------------------
# one run
# ------------------------------------------------------------------------------------------------

def do_op(ctl, fake: ConcStdTime, owner, op) -> str:
    kind = op[0]
    try:
        if kind == "read":
            return show_frac(F(getattr(ctl, op[1])()))
        if kind == "set_scale":
            ctl.set_time_scale(float(F(op[1])))
            return "ok"
        if kind == "pause":
            ctl.pause()
            return "ok"
        if kind == "resume":
            ctl.resume()
            return "ok"
        if kind == "state_dict":
            d = ctl.state_dict()
            return ",".join(show_frac(F(d[k])) for k in KEYS)
        if kind == "load_state_dict":
            ctl.load_state_dict({k: float(F(x)) for k, x in zip(KEYS, op[1])})
            return "ok"
        if kind == "sleep":
            n0 = len(fake.sleeps)
            ctl.sleep(float(F(op[1])))
            mine = [s for o, s in fake.sleeps[n0:] if o == owner]
            return "+".join(show_frac(F(x)) for x in mine) if mine else "none"
        if kind == "get_scale":
            return show_frac(F(ctl.get_time_scale()))
        if kind == "is_paused":
            return "1" if ctl.is_paused() else "0"
    except AssertionError:
        return "err AssertionError"
    raise ValueError(kind)


def trace_targets(ptime):
    tc = ptime.TimeController
    wrapped = [f.__wrapped__ for f in vars(tc).values() if hasattr(f, "__wrapped__")]
    return [tc] + wrapped


def build(case: dict, sched: linesched.LineSched):
    """case = {"start", "gaps", "prefix": [op..] (sequential, main thread), "threads": [[op..]..]}"""
    ptime = _ptime()
    cur = {"owner": None}
    fake = ConcStdTime(F(case.get("start", "0")), [F(g) for g in case.get("gaps", [])],
                       lambda: len(sched._result.lock_order) + cur.get("ext", 0))
    fake.owner = lambda: cur["owner"] if sched._current_lt() is None else \
        (sched._current_lt().idx, cur["op_of"].get(sched._current_lt().idx))
    ptime._original_time = fake
    ptime.RLock = sched.RLock
    record: list[dict] = []
    try:
        cur["owner"] = ("main", "init")
        ctl = ptime.TimeController()
    finally:
        ptime.RLock = _ORIG["real"][1]
    init_now = fake.now
    cur["op_of"] = {}
    # sequential prefix on the calling thread (each op = one "section" for the scripted clock)
    for k, op in enumerate(case.get("prefix", [])):
        cur["owner"] = ("main", k)
        cur["ext"] = cur.get("ext", 0) + 1
        n0 = len(fake.reads)
        out = do_op(ctl, fake, cur["owner"], op)
        record.append({"id": f"pre{k}", "thread": "main", "op": op, "result": out,
                       "reads": fake.reads[n0:], "phase": "prefix"})

    def make_thread(t, ops):
        def run():
            for k, op in enumerate(ops):
                cur["op_of"][t] = k
                entry = {"id": f"t{t}.{k}", "thread": t, "op": op, "phase": "conc",
                         "call": len(sched._result.events)}
                record.append(entry)
                entry["result"] = do_op(ctl, fake, (t, k), op)
                entry["ret"] = len(sched._result.events)
        return run

    ctx = {"ctl": ctl, "fake": fake, "record": record, "init_now": init_now, "cur": cur,
           "ptime": ptime}
    return [make_thread(t, ops) for t, ops in enumerate(case["threads"])], ctx


def restore():
    ptime = _ptime()
    ptime._original_time, ptime.RLock = _ORIG["real"]


def reads_suffix(now: F, reads: list[tuple]) -> str:
    by = {s: [v for _, src, v, _ in reads if src == s] for s in SRCS}
    return (f"now={','.join(show_frac(BASES[s] + now) for s in SRCS)} "
            f"t={show_list(by['time'], show_frac)} p={show_list(by['perf_counter'], show_frac)} "
            f"m={show_list(by['monotonic'], show_frac)}")


def model_line(op, now: F, reads) -> str:
    kind = op[0]
    suf = reads_suffix(now, reads)
    if kind == "read":
        return f"clock read {op[1]} {suf}"
    if kind == "set_scale":
        return f"clock set_scale {show_frac(F(op[1]))} {suf}"
    if kind == "load_state_dict":
        return f"clock load_state_dict {','.join(show_frac(F(x)) for x in op[1])} {suf}"
    if kind == "sleep":
        return f"clock sleep {show_frac(F(op[1]))} {suf}"
    return f"clock {kind} {suf}"


def finish(case: dict, res: linesched.RunResult, c: dict, driver):
    violations: list[Violation] = []
    disagreement = None
    fake, record, ctl, cur = c["fake"], c["record"], c["ctl"], c["cur"]
    try:
        if not res.ok:
            what = ("deadlock" if res.deadlock else "step budget exhausted" if res.exhausted
                    else "exception in a thread: " + repr([e for e in res.errors if e]))
            violations.append(Violation("clock:conc:thread-failed",
                                        f"{what}; schedule {res.schedule}", case))
            return violations, disagreement
        # final probe from the calling thread
        base = len(res.lock_order)
        for k, op in enumerate([["read", s] for s in SRCS] + [["get_scale"], ["is_paused"]]):
            cur["owner"] = ("main", f"f{k}")
            cur["ext"] = cur.get("ext", 0) + 1
            n0 = len(fake.reads)
            out = do_op(ctl, fake, cur["owner"], op)
            record.append({"id": f"fin{k}", "thread": "main", "op": op, "result": out,
                           "reads": fake.reads[n0:], "phase": "final"})
    finally:
        restore()
    conc = [e for e in record if e["phase"] == "conc"]
    for e in conc:
        t, k = e["thread"], int(e["id"].split(".")[1])
        e["reads"] = [r for r in fake.reads if r[0] == (t, k)]
    # ---- monitor: linearizability w.r.t. the integral specification ----------------------------
    spec = Spec(c["init_now"])
    seq_ok = True
    for e in record:
        if e["phase"] != "prefix":
            continue
        inst = e["reads"][0][3] if e["reads"] else None
        out = spec.apply(e["op"], inst)
        if out != e["result"]:
            seq_ok = False
            violations.append(Violation("clock:conc:prefix", f"sequential prefix op {e['op']} "
                                        f"returned {e['result']}, specification {out}", case))
    if seq_ok:
        ops = [{"id": e["id"], "op": e["op"], "result": e["result"], "call": e["call"],
                "ret": e["ret"], "instants": list(dict.fromkeys(r[3] for r in e["reads"]))}
               for e in conc]
        fin = [e for e in record if e["phase"] == "final"]
        big = 10 ** 9
        for k, e in enumerate(fin):
            ops.append({"id": e["id"], "op": e["op"], "result": e["result"], "call": big + 2 * k,
                        "ret": big + 2 * k + 1,
                        "instants": list(dict.fromkeys(r[3] for r in e["reads"]))})
        ok, best = linearizable(spec, ops)
        if not ok:
            kinds = sorted({e["op"][0] for e in conc})
            violations.append(Violation(
                "clock:conc:not-one-clock:" + "+".join(kinds),
                "no order of the operations explains the results as those of ONE clock that is "
                "the integral of the scale over un-paused real time: "
                + "; ".join(f"{e['id']} {e['op']} -> {e['result']} @real {[show_frac(x) for x in dict.fromkeys(r[3] for r in e['reads'])]}"
                            for e in conc + fin)
                + f"; longest consistent prefix {best}; schedule {res.schedule}", case))
    # ---- correspondence: model run sequentially in lock-acquisition order ------------------------
    order = [t for _, t in res.lock_order]
    per_thread = {t: [e for e in conc if e["thread"] == t] for t in range(len(case["threads"]))}
    shape_ok = all(order.count(t) == len(per_thread[t]) for t in per_thread)
    if not shape_ok:
        disagreement = Disagreement(
            "clock-conc", "lock shape: outermost acquisitions per thread "
            f"{ {t: order.count(t) for t in per_thread} } for "
            f"{ {t: len(v) for t, v in per_thread.items()} } public calls (every public method must "
            f"take the lock exactly once); schedule {res.schedule}", case)
    elif driver is not None:
        init_reads = [r for r in fake.reads if r[0] == ("main", "init")]
        lines = ["clock variant 1", "clock init " + reads_suffix(c["init_now"], init_reads)]
        impl = ["ok", "ok"]
        for e in record:
            if e["phase"] == "prefix":
                now = e["reads"][0][3] if e["reads"] else fake.now
                lines.append(model_line(e["op"], now, e["reads"]))
                impl.append(e["result"])
        nxt = {t: 0 for t in per_thread}
        seq = []
        for t in order:
            seq.append(per_thread[t][nxt[t]])
            nxt[t] += 1
        seq += [e for e in record if e["phase"] == "final"]
        last_now = c["init_now"]
        for e in seq:
            now = e["reads"][0][3] if e["reads"] else last_now
            last_now = now
            lines.append(model_line(e["op"], now, e["reads"]))
            impl.append(e["result"])
        replies = driver.batch(lines)
        for k, (ln, a, b) in enumerate(zip(lines, impl, replies)):
            if a != b:
                disagreement = Disagreement(
                    "clock-conc", f"lock order {order}: line {k} `{ln}`: implementation {a!r}, "
                                  f"model {b!r}; schedule {res.schedule}", case)
                break
    return violations, disagreement


def run_case(case: dict, driver, rng=None):
    ptime = _ptime()
    sched = linesched.LineSched(trace_targets(ptime), preempt=case.get("preempt", "lines"))
    threads, c = build(case, sched)
    try:
        r = sched.run(threads, case.get("schedule", []), rng=rng,
                      max_preemptions=case.get("max_preemptions"))
    except BaseException:
        restore()
        raise
    vs, d = finish(case, r, c, driver)
    return vs, d, r


def explore_case(base: dict, driver, res: SuiteResult, max_runs=None) -> int:
    ptime = _ptime()
    n = 0
    orders = set()
    gen = linesched.explore(lambda s: build(base, s), trace=trace_targets(ptime),
                            max_preemptions=base.get("max_preemptions"), max_runs=max_runs,
                            preempt=base.get("preempt", "lines"))
    for r, c in gen:
        case = dict(base, schedule=r.schedule)
        vs, d = finish(case, r, c, driver)
        n += 1
        res.evaluations += 1
        res.hit("runs")
        res.hit("decisions", len(r.choices))
        orders.add(tuple(t for _, t in r.lock_order))
        res.violations += vs
        if d:
            res.disagreements.append(d)
        if len(res.violations) > 10 or len(res.disagreements) > 10:
            break
    for o in orders:
        res.nontrivial.add((key_of(base), o))
    res.hit("lock-orders", len(orders))
    return n


def key_of(case):
    return (tuple(tuple(map(str, op)) for op in case.get("prefix", [])),
            tuple(tuple(tuple(map(str, op)) for op in ops) for ops in case["threads"]))


# ------------------------------------------------------------------------------------------------
OPS = [["read", "time"], ["read", "perf_counter"], ["read", "monotonic"], ["set_scale", "2"],
       ["set_scale", "1/2"], ["pause"], ["resume"], ["state_dict"],
       ["load_state_dict", ["100", "200", "300"]], ["sleep", "4"], ["get_scale"], ["is_paused"]]
WRITERS = [["set_scale", "2"], ["set_scale", "1/4"], ["pause"], ["resume"], ["state_dict"],
           ["load_state_dict", ["100", "200", "300"]]]
FULL_THOROUGH = [["read", "time"], ["state_dict"], ["set_scale", "1/2"], ["sleep", "4"]]
PREFIXES = [[["set_scale", "4"]], [["set_scale", "2"], ["pause"]], []]
GAPS = ["1", "1/2", "2", "1/4", "1", "3", "1/2", "1", "2", "1"]


def random_case(rng) -> dict:
    nthreads = rng.choice([2, 2, 3])
    threads = []
    for _ in range(nthreads):
        ops = []
        for _ in range(rng.randint(1, 3)):
            op = rng.choice(OPS + WRITERS + [["read", "time"], ["read", "monotonic"]])
            if op[0] == "set_scale" and rng.random() < 0.1:
                op = ["set_scale", rng.choice(["0", "-1"])]
            ops.append(op)
        threads.append(ops)
    return {"kind": "conc", "start": str(F(rng.randrange(0, 64), 4)),
            "gaps": [rng.choice(["0", "1/4", "1/2", "1", "3"]) for _ in range(40)],
            "prefix": rng.choice(PREFIXES), "threads": threads, "preempt": "lines",
            "schedule": [rng.randrange(0, 3) if rng.random() < 0.3 else 0 for _ in range(400)]}


def suite_concurrent(ctx: Ctx) -> SuiteResult:
    res = SuiteResult(
        "clock-concurrent-callers", exhaustive=True,
        rule="2-3 logical threads calling public TimeController operations, LINE preemption inside "
             "pamiq_core/time.py: (a) one operation || one operation for every writer (set_scale, "
             "pause, resume, state_dict, load_state_dict) x every operation kind, after a sequential "
             "prefix that leaves scale 4 and real time elapsed: EVERY schedule for two pairs "
             "(thorough: 24), every schedule with <= 1 (thorough 2) preemptions for the others; (b) schedules "
             "with <= 2 (thorough 3) preemptions of 2 x 2 and 1 x 1 x 1 operations for a spread of "
             "mixes (first 200 each; thorough: first 2000); (c) random programs (1-3 ops per thread) under random "
             "schedules; each run: model run sequentially in the observed lock order + one outermost "
             "acquisition per public call + linearizability against the integral specification; "
             "non-trivial = all; distinct = by (programs, lock order)")
    for c in corpus_cases("C06"):
        if c["case"].get("kind") == "conc":
            vs, d, _ = run_case(c["case"], ctx.driver)
            res.evaluations += 1
            res.hit("corpus")
            res.violations += vs
            if d:
                res.disagreements.append(d)
    thorough = ctx.tier == "thorough"

    def stop():
        return len(res.violations) > 10 or len(res.disagreements) > 10

    # (a) one operation || one operation
    full = [(["set_scale", "2"], ["read", "time"]), (["pause"], ["read", "monotonic"])]
    for w in WRITERS:
        for o in OPS:
            everything = (w, o) in full or (thorough and o in FULL_THOROUGH)
            base = {"kind": "conc", "start": "0", "gaps": GAPS, "prefix": PREFIXES[0],
                    "threads": [[w], [o]], "preempt": "lines",
                    "max_preemptions": None if everything else (2 if thorough else 1)}
            explore_case(base, ctx.driver, res)
            res.hit("pairs:all-schedules" if everything else "pairs:one-preemption")
            if stop():
                return res
    # (b) bounded preemptions, more operations / threads
    mixes = [[[["set_scale", "2"], ["read", "time"]], [["pause"], ["read", "time"]]],
             [[["pause"], ["resume"]], [["read", "monotonic"], ["state_dict"]]],
             [[["state_dict"], ["set_scale", "1/2"]], [["sleep", "4"], ["read", "perf_counter"]]],
             [[["sleep", "4"], ["is_paused"]], [["pause"], ["set_scale", "2"]]],
             [[["set_scale", "2"]], [["pause"]], [["read", "time"]]],
             [[["load_state_dict", ["100", "200", "300"]]], [["resume"]], [["state_dict"]]]]
    for threads in mixes:
        for prefix in (PREFIXES if thorough else PREFIXES[:2]):
            base = {"kind": "conc", "start": "1/2", "gaps": GAPS, "prefix": prefix,
                    "threads": threads, "preempt": "lines", "max_preemptions": 3 if thorough else 2}
            explore_case(base, ctx.driver, res, max_runs=2000 if thorough else 200)
            if stop():
                return res
    res.sample(base)
    # (c) random
    for _ in range(ctx.n(300, 6000)):
        case = random_case(ctx.rng)
        vs, d, r = run_case(case, ctx.driver)
        case = dict(case, schedule=r.schedule)
        res.evaluations += 1
        res.hit("random-runs")
        res.hit("preemptions", r.preemptions)
        for ops in case["threads"]:
            for op in ops:
                res.hit("op:" + op[0])
        res.nontrivial.add((key_of(case), tuple(t for _, t in r.lock_order)))
        res.sample({k: v for k, v in case.items() if k != "gaps"})
        res.violations += vs
        if d:
            res.disagreements.append(d)
        if stop():
            break
    return res


def search_concurrent(ctx: Ctx, disagreements) -> list[Violation]:
    """§5 for the concurrent cases: implementation + monitor only, bigger budget."""
    import random
    out: list[Violation] = []
    mine = [d for d in disagreements if isinstance(d.case, dict) and d.case.get("kind") == "conc"]
    for d in mine:
        vs, _, _ = run_case(d.case, None)
        out += vs
    if out:
        return out
    tmp = SuiteResult("search")
    for d in mine[:4]:
        base = {k: v for k, v in d.case.items() if k not in ("schedule", "max_preemptions")}
        base["max_preemptions"] = 3
        explore_case(base, None, tmp, max_runs=ctx.n(6000, 60000))
        if tmp.violations:
            return tmp.violations
    # the diverging programs against every pair of rate-changing operations in another thread
    for d in mine[:2]:
        for victim in d.case["threads"]:
            for w1 in WRITERS:
                for w2 in WRITERS:
                    base = {"kind": "conc", "start": d.case.get("start", "0"), "gaps": GAPS,
                            "prefix": d.case.get("prefix", []), "threads": [victim, [w1, w2]],
                            "preempt": "lines", "max_preemptions": 2}
                    explore_case(base, None, tmp, max_runs=ctx.n(400, 4000))
                    if tmp.violations:
                        return tmp.violations
    rng = random.Random(ctx.seed + 2)
    for _ in range(ctx.n(4000, 40000) if mine else 0):
        vs, _, _ = run_case(random_case(rng), None)
        if vs:
            return vs
    return out


def replay_concurrent(ctx: Ctx, case: dict) -> SuiteResult:
    res = SuiteResult("replay")
    vs, d, r = run_case(case, ctx.driver)
    print("lock order:", r.lock_order)
    res.evaluations = 1
    res.violations = vs
    if d:
        res.disagreements.append(d)
    return res
