"""C14 — each side sees only its own models, and trained parameters reach inference.

Correspondence: versioned harness models (subclasses of the REAL `TrainingModel` / `InferenceModel`:
the parameters are one integer `version`, `sync_impl` copies it, `save_state`/`load_state` write /
read it) are put into the REAL `TrainingModelsDict`; recording trainers (REAL `Trainer`, inside the
REAL `TrainersDict`) obtain models with `get_training_model` inside
`on_training_models_attached` and later; a recording agent (REAL `Agent`) is attached the
inference dictionary exactly as `launch()` does. Random sequences of trainer runs, later
retrievals, saves into real temporary directories and loads are executed and, line by line, on the
Lean model `Pamiq/Model/Models.lean`; after every operation the training version and the
inference version of every model, the identity (creation number) of every object handed out or
synchronised into, the set of `sync_impl` calls and the exception kinds are compared for equality.
A second suite runs the real `launch()` with running trainers, then a relaunch from the saved state.

Monitor: the property clauses written directly in Python on the same executions, independent of
the Lean model; object identity is checked with `is`.
"""
from __future__ import annotations

import itertools
import shutil
import sys
import tempfile
from collections import Counter
from pathlib import Path

sys.path.insert(0, str(Path(__file__).resolve().parent.parent))
from framework import (Ctx, Disagreement, SuiteResult, Violation, corpus_cases, run_check,
                       setup_repo_path)

FLAGS = [(True, False), (True, True), (False, False), (False, True)]


class Rec:
    def __init__(self) -> None:
        self.log: list[tuple] = []
        self.n_obj = 0

    def ev(self, *x) -> None:
        self.log.append(tuple(x))

    def take(self) -> list[tuple]:
        out, self.log = self.log, []
        return out


_CLASSES = None


class TrainBoom(Exception):
    """Raised by a harness trainer's train() after it has changed some parameters."""


def make_classes():
    from pamiq_core.interaction import Agent
    from pamiq_core.model import InferenceModel, TrainingModel
    from pamiq_core.trainer import Trainer

    class VInf(InferenceModel):
        falsy = False

        def __init__(self, oid: int, version: int) -> None:
            self.oid, self.version = oid, version

        def infer(self):
            return self.version

        def __bool__(self) -> bool:
            return not self.falsy

    class VModel(TrainingModel):
        def __init__(self, rec: Rec, name: str, has_inf: bool, inf_only: bool, version: int):
            if (has_inf or not inf_only) and (len(name) + version) % 2 == 1:
                # a subclass that fixes its flags after the base constructor ran (`super().__init__()` with the
                # defaults, then `self.inference_thread_only = True`): the flags are public attributes, and every
                # reader (wiring, synchronisation) is to see the values they have now
                super().__init__()
                self.has_inference_model, self.inference_thread_only = has_inf, inf_only
            else:
                super().__init__(has_inf, inf_only)
            self.rec, self.name, self.version = rec, name, version

        def _create_inference_model(self):
            if getattr(self.rec, "slow_create", False):
                import time as _t
                _t.sleep(0.002)                    # copying a real model takes its time
            oid = self.rec.n_obj
            self.rec.n_obj += 1
            self.rec.ev("create", self.name, oid)
            inf = VInf(oid, self.version)         # a new inference model starts as a copy
            # user inference models may well be falsy containers (an empty table, `__len__` == 0):
            # every second one is, so that truthiness is never mistaken for presence
            inf.falsy = (oid % 2 == 0)
            return inf

        def forward(self):
            return self.version

        # user models may define value equality (two critics with the same configuration compare
        # equal and hash alike): the framework must keep telling them apart by name / identity
        def __eq__(self, other) -> bool:
            return isinstance(other, VModel) and (self.has_inference_model, self.inference_thread_only) == \
                (other.has_inference_model, other.inference_thread_only)

        def __hash__(self) -> int:
            return hash((self.has_inference_model, self.inference_thread_only))

        def sync_impl(self, inference_model) -> None:
            self.rec.ev("sync", self.name, inference_model)
            inference_model.version = self.version

        def save_state(self, path: Path) -> None:
            path.write_text(str(self.version))

        def load_state(self, path: Path) -> None:
            self.version = int(path.read_text())

    class VTrainer(Trainer):
        def __init__(self, rec: Rec, name: str, wants: list[str]) -> None:
            super().__init__()
            self.rec, self.name, self.wants = rec, name, wants
            self.got: dict[str, object] = {}
            self.plan: list[tuple[str, int]] = []
            self.auto = False
            self.fail = False            # train() raises after having changed the planned parameters

        def obtain(self, k: str) -> str:
            try:
                m = self.get_training_model(k)
            except KeyError:
                self.rec.ev("trainer_get", self.name, k, "err KeyError")
                return "err KeyError"
            self.got[k] = m
            self.rec.ev("trainer_get", self.name, k, f"ok v={m.version}")
            return f"ok v={m.version}"

        def on_training_models_attached(self) -> None:
            for k in self.wants:
                self.obtain(k)

        def train(self) -> None:
            self.rec.ev("train_begin", self.name)
            if self.auto:                       # real-launch mode: every run bumps everything it holds
                for m in self.got.values():
                    m.version += 1
            for k, v in self.plan:
                self.got[k].version = v
            if self.fail:
                self.rec.ev("train_raise", self.name)
                raise TrainBoom(self.name)
            self.rec.ev("train_end", self.name)

    class VAgent(Agent):
        def __init__(self, rec: Rec, names: list[str]) -> None:
            super().__init__()
            self.rec, self.names = rec, names
            self.held: dict[str, object] = {}
            self.late = False       # fetch the models in setup() (on the inference thread), not when attached

        def on_inference_models_attached(self) -> None:
            if not self.late:
                for k in self.names:
                    self.look(k)

        def setup(self) -> None:
            super().setup()
            if self.late:
                for k in self.names:
                    self.look(k)

        def look(self, k: str):
            try:
                o = self.get_inference_model(k)
            except KeyError:
                self.rec.ev("agent_get", k, None)
                return None
            self.held[k] = o
            self.rec.ev("agent_get", k, o)
            return o

        def step(self, observation):
            self.rec.ev("step", {k: o.version for k, o in self.held.items()})
            return 0

    class VModelOwn(VModel):
        """A model that keeps its inference object under an attribute of its own and overrides the public
        `inference_model` property (built on first use): everything that goes through the public property works."""
        _own = None

        @property
        def inference_model(self):
            if not self.has_inference_model:
                raise RuntimeError
            if self._own is None:
                self._own = self._create_inference_model()
            return self._own

    def make_model(rec, name, has_inf, inf_only, version):
        cls = VModelOwn if (len(name) * 7 + version) % 3 == 0 else VModel
        return cls(rec, name, has_inf, inf_only, version)
    VModel.make = staticmethod(make_model)
    return VInf, VModel, VTrainer, VAgent


def classes():
    global _CLASSES
    if _CLASSES is None:
        _CLASSES = make_classes()
    return _CLASSES


# ------------------------------------------------------------------------------------------------

class Monitor:
    """The clauses of C14 on the implementation's behaviour."""

    def __init__(self, case, specs) -> None:
        self.case = case
        self.flags = {n: (h, i) for n, h, i, _ in specs}
        self.expected = {n: v for n, _, _, v in specs}      # latest *completed* training / load
        self.current = {n: v for n, _, _, v in specs}       # training-side parameters right now
        self.retrieved: dict[str, set[str]] = {}
        self.violations: list[Violation] = []

    def bad(self, key, what) -> None:
        self.violations.append(Violation("models:" + key, what, self.case))

    def need_sync(self, k) -> bool:
        h, i = self.flags[k]
        return h and not i

    def ctor(self, h, i, raised) -> None:
        if ((not h) and i) != (raised == "ValueError"):
            self.bad("ctor-guard", f"TrainingModel(has_inference_model={h}, inference_thread_only={i}) "
                                   f"-> {raised or 'accepted'}")

    def agent_get(self, k, obj, tmodel) -> None:
        want = k in self.flags and self.flags[k][0]
        if want != (obj is not None):
            self.bad("agent-gets", f"agent asked for {k!r} (flags {self.flags.get(k)}): "
                                   f"{'obtained' if obj is not None else 'KeyError'}")
        if obj is not None and tmodel is not None:
            from pamiq_core.model import InferenceModel, TrainingModel
            if not isinstance(obj, InferenceModel) or isinstance(obj, TrainingModel):
                self.bad("agent-gets-training-model", f"agent obtained a non-inference object for {k!r}")
            if self.flags.get(k, (False,))[0] and obj is not tmodel.inference_model:
                self.bad("same-object", f"the inference model the agent holds for {k!r} is not the "
                                        f"object its training model synchronises into")

    def trainer_get(self, t, k, outcome) -> None:
        want = k in self.flags and not self.flags[k][1]
        ok = outcome.startswith("ok")
        if want != ok:
            self.bad("trainer-gets", f"trainer {t} asked for {k!r} (flags {self.flags.get(k)}): {outcome}")
        if ok:
            self.retrieved.setdefault(t, set()).add(k)

    def after_sync_phase(self, what, log, want_synced: set[str], models, agent_held, before_inf) -> None:
        calls = Counter(x[1] for x in log if x[0] == "sync")
        if set(calls) != want_synced or any(c != 1 for c in calls.values()):
            self.bad("sync-exact" if what.startswith("run") else "load-syncs-all",
                     f"{what}: sync_impl ran for {dict(calls)}, expected exactly once each for "
                     f"{sorted(want_synced)}")
        for x in log:
            if x[0] == "sync":
                k, obj = x[1], x[2]
                if k in agent_held and obj is not agent_held[k]:
                    self.bad("same-object", f"{what}: sync of {k!r} wrote into an object that is not "
                                            f"the one the agent holds")
        for k, m in models.items():
            if not self.flags[k][0]:
                continue
            inf_v = agent_held[k].version if k in agent_held else None
            if inf_v is None:
                continue
            if k in want_synced:
                if inf_v != m.version:
                    self.bad("sync-exact" if what.startswith("run") else "load-syncs-all",
                             f"{what}: {k!r} inference version {inf_v} != training version {m.version}")
            elif inf_v != before_inf.get(k):
                self.bad("sync-exact" if what.startswith("run") else "load-syncs-all",
                         f"{what}: inference version of {k!r} changed from {before_inf.get(k)} to "
                         f"{inf_v} although it is not to be synchronised")

    def quiescent(self, what, agent_held) -> None:
        for k, o in agent_held.items():
            if self.need_sync(k) and o.version != self.expected[k]:
                self.bad("inference-fresh", f"after {what}: agent sees version {o.version} of {k!r}, "
                                            f"latest completed training / load is {self.expected[k]}")


def run_case(case: dict, driver):
    from pamiq_core.model import TrainingModelsDict
    from pamiq_core.trainer import TrainersDict
    VInf, VModel, VTrainer, VAgent = classes()
    rec = Rec()
    lines: list[str] = []
    impl: list[str] = []
    info = {"ops": Counter(), "errors": Counter()}
    tmp = Path(tempfile.mkdtemp(prefix="pamiq-verif."))
    try:
        # ---- constructing the models (all four flag combinations are attempted) ----
        specs = []
        models = {}
        mon = Monitor(case, [s for s in case["models"] if not ((not s[1]) and s[2])])
        for n, h, i, v in case["models"]:
            raised = None
            try:
                m = VModel.make(rec, n, h, i, v)
            except ValueError:
                raised = "ValueError"
            mon.ctor(h, i, raised)
            lines.append(f"models new {int(h)} {int(i)}")
            impl.append("ok" if raised is None else f"err {raised}")
            if raised is None:
                models[n] = m
                specs.append((n, h, i, v))
            else:
                info["errors"]["ValueError"] += 1
        # ---- launch()'s wiring: containers, attachments ----
        tmd = TrainingModelsDict(models)
        trainers = {t: VTrainer(rec, t, case["wants"].get(t, [])) for t in case["trainers"]}
        tdict = TrainersDict(trainers)
        probe_names = list(models) + ["ghost"]
        agent = VAgent(rec, probe_names)
        rec.take()
        lines.append("models reset ms=[" + ",".join(f"{n}:{int(h)}{int(i)}:{v}" for n, h, i, v in specs)
                     + "] ts=[" + ",".join(case["trainers"]) + "]")
        impl.append("ok")
        agent.attach_inference_models(tmd.inference_models_dict)
        for x in rec.take():
            if x[0] == "agent_get":
                mon.agent_get(x[1], x[2], models.get(x[1]))
                lines.append(f"models agent_get {x[1]}")
                impl.append(f"obj={x[2].oid} v={x[2].version}" if x[2] is not None else "err KeyError")
        tdict.attach_training_models(tmd)
        for x in rec.take():
            if x[0] == "trainer_get":
                mon.trainer_get(x[1], x[2], x[3])
                lines.append(f"models trainer_get {x[1]} {x[2]}")
                impl.append(x[3])
                if x[3].startswith("err"):
                    info["errors"]["KeyError"] += 1

        def state_line():
            out = []
            for n, m in models.items():
                try:
                    iv = str(m.inference_model.version)
                except RuntimeError:
                    iv = "-"
                out.append(f"{n}:{m.version}:{iv}")
            lines.append("models state")
            impl.append("[" + ",".join(out) + "]")

        state_line()
        saved: list[Path] = []
        saved_versions: list[dict[str, int]] = []
        for op in case["ops"]:
            kind = op[0]
            info["ops"][kind] += 1
            before_inf = {k: o.version for k, o in agent.held.items()}
            if kind == "trainer_get":
                _, t, k = op
                out = trainers[t].obtain(k)
                rec.take()
                mon.trainer_get(t, k, out)
                lines.append(f"models trainer_get {t} {k}")
                impl.append(out)
                if out.startswith("err"):
                    info["errors"]["KeyError"] += 1
            elif kind == "agent_get":
                o = agent.look(op[1])
                rec.take()
                mon.agent_get(op[1], o, models.get(op[1]))
                lines.append(f"models agent_get {op[1]}")
                impl.append(f"obj={o.oid} v={o.version}" if o is not None else "err KeyError")
            elif kind == "run":
                _, t, bumps = op
                tr = trainers[t]
                tr.plan = [(k, v) for k, v in bumps]
                ran = tr.run()
                log = rec.take()
                for k, v in bumps:
                    mon.current[k] = v
                want = {k for k in mon.retrieved.get(t, set()) if mon.need_sync(k)}
                for k in want:
                    mon.expected[k] = mon.current[k]      # the completed run hands over what it trained
                mon.after_sync_phase(f"run of {t}", log, want, models, agent.held, before_inf)
                if ran is not True:
                    mon.bad("run", f"run of {t} returned {ran!r}")
                synced = sorted((x[1], x[2].oid) for x in log if x[0] == "sync")
                lines.append(f"models run {t} [" + ",".join(f"{k}={v}" for k, v in bumps) + "]")
                impl.append("synced=[" + ",".join(f"{k}:{o}" for k, o in synced) + "]")
            elif kind == "reattach":
                # a second session in one process: the same trainer object is handed the same container again; what it
                # retrieved before (and still holds) keeps being synchronised - the hook only retrieves its usual names
                _, t = op
                trainers[t].attach_training_models(tmd)
                for x in rec.take():
                    if x[0] == "trainer_get":
                        mon.trainer_get(x[1], x[2], x[3])
                        lines.append(f"models trainer_get {x[1]} {x[2]}")
                        impl.append(x[3])
            elif kind == "run_fail":
                _, t, bumps = op
                tr = trainers[t]
                tr.plan = [(k, v) for k, v in bumps]
                tr.fail = True
                try:
                    tr.run()
                    outcome = "returned"
                except TrainBoom:
                    outcome = "raised"
                finally:
                    tr.fail = False
                log = rec.take()
                for k, v in bumps:
                    mon.current[k] = v                    # training side only: the run did not complete
                mon.after_sync_phase(f"aborted run of {t}", log, set(), models, agent.held, before_inf)
                if outcome != "raised":
                    mon.bad("run", f"run of {t} swallowed the exception of train()")
                synced = sorted((x[1], x[2].oid) for x in log if x[0] == "sync")
                lines.append(f"models run_fail {t} [" + ",".join(f"{k}={v}" for k, v in bumps) + "]")
                impl.append(outcome + " synced=[" + ",".join(f"{k}:{o}" for k, o in synced) + "]")
            elif kind == "set_item":
                # a model registered after launch() has wired the system: the agent holds the live dictionary
                _, n, h, i, v = op
                m = VModel.make(rec, n, h, i, v)
                tmd[n] = m
                rec.take()
                models[n] = m
                mon.flags[n] = (h, i)
                mon.expected[n] = mon.current[n] = v
                agent.held.pop(n, None)
                lines.append(f"models set_item {n}:{int(h)}{int(i)}:{v}")
                impl.append("ok")
                o = agent.look(n)                          # what a lazily looking agent does next
                rec.take()
                mon.agent_get(n, o, m)
                lines.append(f"models agent_get {n}")
                impl.append(f"obj={o.oid} v={o.version}" if o is not None else "err KeyError")
            elif kind == "save":
                d = tmp / f"s{len(saved)}"
                d.mkdir()
                tmd.save_state(d / "models")
                rec.take()
                saved.append(d / "models")
                on_disk = {p.name: int(p.read_text()) for p in sorted((d / "models").iterdir())}
                saved_versions.append(on_disk)
                lines.append("models save")
                impl.append("[" + ",".join(f"{n}={on_disk.get(n, '?')}" for n in models) + "]")
            elif kind == "load":
                if not saved:
                    continue
                idx = op[1] % len(saved)
                tmd.load_state(saved[idx])
                log = rec.take()
                for k, v in saved_versions[idx].items():
                    mon.expected[k] = mon.current[k] = v
                want = {k for k in models if mon.need_sync(k)}
                mon.after_sync_phase("load", log, want, models, agent.held, before_inf)
                for k, m in models.items():
                    if m.version != saved_versions[idx].get(k):
                        mon.bad("load", f"{k!r} holds {m.version} after loading {saved_versions[idx].get(k)}")
                lines.append("models load [" + ",".join(f"{n}={saved_versions[idx][n]}" for n in models) + "]")
                impl.append("synced=[" + ",".join(f"{x[1]}:{x[2].oid}" for x in log if x[0] == "sync") + "]")
            else:
                raise ValueError(kind)
            mon.quiescent(f"{kind} {op[1:] if len(op) > 1 else ''}", agent.held)
            state_line()
            if rec.log:
                rec.take()
    finally:
        shutil.rmtree(tmp, ignore_errors=True)
    disagreement = None
    if driver is not None:
        replies = driver.batch(lines)
        for k, (ln, a, b) in enumerate(zip(lines, impl, replies)):
            if a != b:
                disagreement = Disagreement("models", f"line {k} `{ln[:160]}`: implementation {a!r}, "
                                                      f"model {b!r}", case)
                break
    return mon.violations, disagreement, info


# ------------------------------------------------------------------------------------------------
# Generators
# ------------------------------------------------------------------------------------------------
MODEL_NAMES = ["enc", "dec", "pol", "val", "dyn", "m6"]
TRAINER_NAMES = ["t1", "t2", "t3"]


def gen_case(rng, n_models=None, n_ops=None):
    n_models = rng.randint(0, 5) if n_models is None else n_models
    names = rng.sample(MODEL_NAMES, n_models)
    ver = itertools.count(1)
    models = []
    for n in names:
        h, i = rng.choice(FLAGS)
        models.append([n, h, i, next(ver) * 10])
    valid = [m for m in models if not ((not m[1]) and m[2])]
    gettable = [m[0] for m in valid if not m[2]]
    trainers = TRAINER_NAMES[:rng.randint(0, 3)]
    pool = [m[0] for m in models] + ["ghost"]
    wants = {t: rng.sample(pool, rng.randint(0, len(pool))) for t in trainers}
    have = {t: [k for k in wants[t] if k in gettable] for t in trainers}
    ops = []
    n_saves = 0
    vcount = itertools.count(1000)
    for _ in range(rng.randint(0, 12) if n_ops is None else n_ops):
        r = rng.random()
        if trainers and r < 0.45:
            t = rng.choice(trainers)
            bump_names = [k for k in have[t] if rng.random() < 0.6]
            rng.shuffle(bump_names)
            ops.append(["run", t, [[k, next(vcount)] for k in bump_names]])
        elif trainers and r < 0.5:
            ops.append(["reattach", rng.choice(trainers)])
        elif trainers and r < 0.6:
            t = rng.choice(trainers)
            k = rng.choice(pool)
            ops.append(["trainer_get", t, k])
            if k in gettable and k not in have[t]:
                have[t].append(k)
        elif trainers and r < 0.66:
            # train() raises part-way: the parameters it touched stay changed on the training side only
            t = rng.choice(trainers)
            bump_names = [k for k in have[t] if rng.random() < 0.6]
            ops.append(["run_fail", t, [[k, next(vcount)] for k in bump_names]])
        elif r < 0.7 and n_saves == 0:
            # a model registered after the wiring (new name, or an unretrieved inference-bearing one replaced)
            free = [n for n in MODEL_NAMES + ["late1", "late2"] if n not in pool]
            repl = [m[0] for m in valid if m[1] and all(m[0] not in have[t] for t in trainers)]
            cand = free + repl
            if cand:
                n = rng.choice(cand)
                h, i = rng.choice([(True, False), (True, True), (False, False)]) if n in free else (True, rng.random() < 0.5)
                ops.append(["set_item", n, h, i, next(vcount)])
                if n in free:
                    pool.append(n)
                    valid.append([n, h, i, 0])
                else:
                    for m in valid:
                        if m[0] == n:
                            m[1], m[2] = h, i
                if not i and n not in gettable:
                    gettable.append(n)
                if i and n in gettable:
                    gettable.remove(n)
        elif r < 0.7:
            ops.append(["agent_get", rng.choice(pool)])
        elif r < 0.85:
            ops.append(["save"])
            n_saves += 1
        elif n_saves:
            ops.append(["load", rng.randrange(n_saves)])
    return {"models": models, "trainers": trainers, "wants": wants, "ops": ops}


def nontrivial(case) -> bool:
    kinds = [o[0] for o in case["ops"]]
    return any(o[0] == "run" and o[2] for o in case["ops"]) and len(case["models"]) >= 2 and \
        ("load" in kinds or sum(1 for k in kinds if k == "run") >= 2)


def key_of(case):
    return (tuple((h, i) for _, h, i, _ in case["models"]), tuple(o[0] for o in case["ops"]),
            tuple(sorted((t, len(w)) for t, w in case["wants"].items())))


def account(res: SuiteResult, case, vs, d, info) -> None:
    res.evaluations += 1
    res.violations += vs
    if d:
        res.disagreements.append(d)
    for k, n in info["ops"].items():
        res.hit("op:" + k, n)
    for k, n in info["errors"].items():
        res.hit("error:" + k, n)
    for _, h, i, _ in case["models"]:
        res.hit(f"flags:{int(h)}{int(i)}")


def suite_corpus(ctx: Ctx) -> SuiteResult:
    res = SuiteResult("models-corpus", rule="committed witnesses (corpus/C14), each distinct")
    for c in corpus_cases("C14"):
        vs, d, info = run_case(c["case"], ctx.driver)
        account(res, c["case"], vs, d, info)
        res.nontrivial.add(c["_corpus_file"])
    return res


def suite_exhaustive(ctx: Ctx) -> SuiteResult:
    """All flag combinations x presence for up to 2 models, every assignment of those models (and
    an absent name) to one or two trainers, with a fixed probing history."""
    res = SuiteResult("models-exhaustive-small", exhaustive=True,
                      rule="every pair of models over the 4 flag combinations (incl. the rejected "
                           "one) + absent, every subset of {m1, m2, ghost} wanted by trainer t1 and "
                           "t2 taking the complement, history: run t1, save, run t2, run t1, load, "
                           "late retrieval, run t2; non-trivial = at least one model that needs "
                           "synchronising is retrieved; distinct = by flags and assignment")
    combos = FLAGS + [None]
    pool = ["m1", "m2", "ghost"]
    for f1, f2 in itertools.product(combos, repeat=2):
        for mask in range(8):
            models = []
            if f1 is not None:
                models.append(["m1", f1[0], f1[1], 10])
            if f2 is not None:
                models.append(["m2", f2[0], f2[1], 20])
            w1 = [pool[b] for b in range(3) if mask >> b & 1]
            w2 = [pool[b] for b in range(3) if not mask >> b & 1]
            gettable = {m[0] for m in models if not m[2] and not ((not m[1]) and m[2])}
            g1 = [k for k in w1 if k in gettable]
            g2 = [k for k in w2 if k in gettable]
            late = [k for k in pool if k not in w2]
            ops = [["run", "t1", [[k, 101 + j] for j, k in enumerate(g1)]], ["save"],
                   ["run", "t2", [[k, 201 + j] for j, k in enumerate(g2)]],
                   ["run", "t1", [[k, 301 + j] for j, k in enumerate(g1[:1])]],
                   ["load", 0]]
            g2b = list(g2)
            for k in late:
                ops.append(["trainer_get", "t2", k])
                if k in gettable:
                    g2b.append(k)
            ops.append(["run", "t2", [[k, 401 + j] for j, k in enumerate(g2b)]])
            ops.append(["agent_get", "m1"])
            case = {"models": models, "trainers": ["t1", "t2"], "wants": {"t1": w1, "t2": w2}, "ops": ops}
            vs, d, info = run_case(case, ctx.driver)
            account(res, case, vs, d, info)
            if any(m[1] and not m[2] for m in models) and (g1 or g2b):
                res.nontrivial.add((f1, f2, mask))
            if (f1, f2, mask) in (((True, False), (True, True), 5),):
                res.sample(case)
            if len(res.violations) > 20 or len(res.disagreements) > 20:
                return res
    return res


def suite_random(ctx: Ctx) -> SuiteResult:
    res = SuiteResult("models-random-histories",
                      rule="seeded random model sets (0-5 models, flags uniform over the 4 "
                           "combinations), 0-3 trainers with random wanted names (incl. absent and "
                           "inference-only ones), 0-12 operations of run / late retrieval / agent "
                           "look-up / save / load; non-trivial = >= 2 models, a run that trains "
                           "something, and a load or a second run; distinct = by flags, op kinds and "
                           "assignment sizes")
    for _ in range(ctx.n(1200, 24000)):
        case = gen_case(ctx.rng)
        vs, d, info = run_case(case, ctx.driver)
        account(res, case, vs, d, info)
        if nontrivial(case):
            res.nontrivial.add(key_of(case))
        res.sample(case, limit=2)
        if len(res.violations) > 20 or len(res.disagreements) > 20:
            break
    return res


MALFORMED = [
    ("models reset ms=[a:10:5,a:11:7] ts=[t1]", "bad-op"),       # duplicate model name
    ("models reset ms=[a:12:5] ts=[t1]", "bad-op"),              # flag not a bit
    ("models reset ms=[a:10] ts=[t1]", "bad-op"),
    ("models reset ms=[a:10:x] ts=[t1]", "bad-op"),
    ("models reset ms=[a:10:5] ts=[t1,t1]", "bad-op"),           # duplicate trainer
    ("models reset ms=[a:10:5]", "bad-op"),
    ("models state", "bad-op"),                                  # no system after a failed reset
    ("models reset ms=[a:01:5] ts=[]", "err ValueError"),        # rejected flag combination
    ("models agent_get a", "bad-op"),
    ("models reset ms=[a:10:5,b:11:6] ts=[t1]", "ok"),
    ("models trainer_get t9 a", "bad-op"),                       # unknown trainer
    ("models run t1 [b=3]", "bad-op"),                           # trains a model it never obtained
    ("models run t1 [a]", "bad-op"),
    ("models run t1", "bad-op"),
    ("models load [a=1,a=2]", "bad-op"),
    ("models load [a=1]", "err FileNotFoundError"),              # b's file missing
    ("models new 2 0", "bad-op"),
    ("models frobnicate", "bad-op"),
]


def suite_malformed(ctx: Ctx) -> SuiteResult:
    res = SuiteResult("models-malformed-stream",
                      rule="ill-formed driver lines answer bad-op, never a default; distinct = by line")
    if ctx.driver is None:
        return res
    replies = ctx.driver.batch([l for l, _ in MALFORMED])
    for (ln, want), got in zip(MALFORMED, replies):
        res.evaluations += 1
        res.nontrivial.add(ln)
        res.hit("reply:" + got.split()[0])
        if want != got:
            res.disagreements.append(Disagreement("models-malformed", f"`{ln}` answered {got!r}, "
                                                                      f"expected {want!r}", {"line": ln}))
    return res


def run_launch_case(case: dict, driver=None):
    """Real `launch()` with running trainers; then a relaunch from the saved state. Monitor only
    (the number of runs is decided by the real threads)."""
    from pamiq_core import Interaction, LaunchConfig, launch
    from pamiq_core.interaction import Environment
    VInf, VModel, VTrainer, VAgent = classes()

    class Env(Environment):
        def observe(self):
            return 0

        def affect(self, action):
            pass

    specs = [s for s in case["models"] if not ((not s[1]) and s[2])]
    mon = Monitor(case, specs)
    tmp = Path(tempfile.mkdtemp(prefix="pamiq-verif."))
    info = {"ops": Counter(), "errors": Counter()}
    try:
        saved = None
        final_versions = None
        for round_ in range(2):
            rec = Rec()
            models = {n: VModel.make(rec, n, h, i, v) for n, h, i, v in specs}
            trainers = {t: VTrainer(rec, t, case["wants"].get(t, [])) for t in case["trainers"]}
            for t in trainers.values():
                t.auto = True
            agent = VAgent(rec, list(models) + ["ghost"])
            agent.late = (len(specs) + len(case["trainers"]) + round_) % 2 == 1
            rec.slow_create = True
            try:
                launch(Interaction(agent, Env()), models, {}, trainers, LaunchConfig(
                    states_dir=tmp / f"states{round_}", state_name_format="final.state",
                    saved_state_path=saved, web_api_address=None, max_uptime=0.004,
                    log_tick_time_statistics_interval=1e9))
            except Exception as e:   # noqa: BLE001
                mon.bad("launch-raised", f"launch() raised {type(e).__name__}: {e}")
                break
            log = rec.take()
            mon.retrieved = {}
            for x in log:
                if x[0] == "agent_get":
                    mon.agent_get(x[1], x[2], models.get(x[1]))
                elif x[0] == "trainer_get":
                    mon.trainer_get(x[1], x[2], x[3])
            info["ops"]["launch"] += 1
            info["ops"]["run"] += sum(1 for x in log if x[0] == "train_end")
            info["ops"]["step"] += sum(1 for x in log if x[0] == "step")
            # same object, sync only retrieved & needed
            allowed = set()
            for t, ks in mon.retrieved.items():
                allowed |= {k for k in ks if mon.need_sync(k)}
            if saved is not None:
                allowed_load = {k for k in models if mon.need_sync(k)}
            for x in log:
                if x[0] == "sync":
                    if x[1] in agent.held and x[2] is not agent.held[x[1]]:
                        mon.bad("same-object", f"sync of {x[1]!r} wrote into another object than the agent's")
                    if not mon.need_sync(x[1]):
                        mon.bad("sync-exact", f"{x[1]!r} (flags {mon.flags[x[1]]}) was synchronised")
            # per run: the sync calls between train_end and the next train_begin of the same thread
            cur_t, calls = None, Counter()
            phase = "load" if saved is not None else None
            first_train_seen = False
            for x in log:
                if x[0] == "train_begin":
                    if phase == "load" and not first_train_seen:
                        if set(calls) != allowed_load or any(c != 1 for c in calls.values()):
                            mon.bad("load-syncs-all", f"relaunch: load synchronised {dict(calls)}, "
                                                      f"expected {sorted(allowed_load)}")
                    elif cur_t is not None:
                        want = {k for k in mon.retrieved.get(cur_t, set()) if mon.need_sync(k)}
                        if set(calls) != want or any(c != 1 for c in calls.values()):
                            mon.bad("sync-exact", f"run of {cur_t}: sync_impl ran for {dict(calls)}, "
                                                  f"expected {sorted(want)}")
                    first_train_seen = True
                    calls = Counter()
                elif x[0] == "train_end":
                    cur_t = x[1]
                    calls = Counter()
                elif x[0] == "sync":
                    calls[x[1]] += 1
            if phase == "load" and not first_train_seen:
                if set(calls) != allowed_load or any(c != 1 for c in calls.values()):
                    mon.bad("load-syncs-all", f"relaunch: load synchronised {dict(calls)}, "
                                              f"expected {sorted(allowed_load)}")
            elif cur_t is not None:
                want = {k for k in mon.retrieved.get(cur_t, set()) if mon.need_sync(k)}
                if set(calls) != want or any(c != 1 for c in calls.values()):
                    mon.bad("sync-exact", f"last run of {cur_t}: sync_impl ran for {dict(calls)}, "
                                          f"expected {sorted(want)}")
            # relaunch: the first step of the agent already sees the loaded parameters
            if saved is not None and final_versions is not None:
                steps = [x for x in log if x[0] == "step"]
                firsts = [x for x in log if x[0] in ("step", "train_begin")]
                if steps and firsts and firsts[0][0] == "step":
                    for k, v in steps[0][1].items():
                        if mon.need_sync(k) and v != final_versions[k]:
                            mon.bad("inference-fresh", f"relaunch: first step sees {k!r} at {v}, "
                                                       f"saved parameters are {final_versions[k]}")
            # quiescent point at the end: inference == training for every model to be synchronised
            # that some trainer holds (nobody else can have changed the others)
            for k, o in agent.held.items():
                if mon.need_sync(k) and o.version != models[k].version:
                    mon.bad("inference-fresh", f"after launch round {round_}: agent sees {k!r} at "
                                               f"{o.version}, training parameters are {models[k].version}")
            final_versions = {k: m.version for k, m in models.items()}
            saved = tmp / f"states{round_}" / "final.state"
            on_disk = {p.name: int(p.read_text()) for p in (saved / "models").iterdir()}
            if on_disk != final_versions:
                mon.bad("save", f"saved {on_disk}, models hold {final_versions}")
    finally:
        shutil.rmtree(tmp, ignore_errors=True)
    return mon.violations, None, info


def suite_launch(ctx: Ctx) -> SuiteResult:
    res = SuiteResult("models-real-launch",
                      rule="real launch() with the versioned models and auto-training trainers "
                           "(every run bumps every model the trainer holds), max_uptime 4 ms, then "
                           "relaunch from the saved state; monitor clauses only; non-trivial = some "
                           "trainer holds a model that needs synchronising; distinct = by flags and wants")
    import random
    rng = random.Random(ctx.seed * 104729 + 5)
    for _ in range(ctx.n(30, 400)):
        case = gen_case(rng, n_ops=0)
        case["launch"] = True
        vs, d, info = run_launch_case(case)
        account(res, case, vs, d, info)
        if any(m[1] and not m[2] for m in case["models"]) and any(case["wants"].values()):
            res.nontrivial.add(key_of(case) + (tuple(sorted(map(tuple, case["wants"].values()))),))
        res.sample({"models": case["models"], "wants": case["wants"]}, limit=1)
        if len(res.violations) > 10:
            break
    return res


def run_any(case, driver):
    return run_launch_case(case) if case.get("launch") else run_case(case, driver)


def search(ctx: Ctx, disagreements, broken):
    import random
    out: list[Violation] = []
    for d in disagreements:
        if isinstance(d.case, dict) and "models" in d.case:
            vs, _, _ = run_any(d.case, None)
            out += vs
    if out:
        return out
    for c in corpus_cases("C14"):
        vs, _, _ = run_any(c["case"], None)
        out += vs
    if out:
        return out
    rng = random.Random(ctx.seed + 1)
    for _ in range(ctx.n(12000, 100000)):
        vs, _, _ = run_case(gen_case(rng), None)
        if vs:
            return vs
    for _ in range(ctx.n(150, 1500)):
        case = gen_case(rng, n_ops=0)
        case["launch"] = True
        vs, _, _ = run_launch_case(case)
        if vs:
            return vs
    return out


def replay(ctx: Ctx, payload: dict) -> SuiteResult:
    res = SuiteResult("replay")
    case = payload.get("case") or payload.get("first_disagreement")
    vs, d, info = run_any(case, ctx.driver)
    res.evaluations = 1
    res.violations = vs
    if d:
        res.disagreements.append(d)
    print("case:", case)
    return res


if __name__ == "__main__":
    import gentie
    setup_repo_path()
    sys.exit(run_check(
        "C14", lean_modules=["Pamiq.Props.C14"],
        required_theorems=["Pamiq.Models.ctor_guard", "Pamiq.Models.agent_gets",
                           "Pamiq.Models.trainer_gets", "Pamiq.Models.same_object",
                           "Pamiq.Models.sync_exact", "Pamiq.Models.load_syncs_all",
                           "Pamiq.Models.inference_fresh", "Pamiq.Models.reachable_inv",
                           "Pamiq.Models.run_completes"],
        suites=[gentie.suite_for("C14"), suite_corpus, suite_malformed, suite_exhaustive, suite_random, suite_launch],
        search=search, replay=replay,
        assumptions=["parameters are abstracted to one integer version per side; sync_impl, "
                     "save_state and load_state of the harness models copy / write / read it",
                     "a trainer changes only models it obtained through get_training_model "
                     "(it has no other reference to a model)",
                     "the set of models is fixed at launch (TrainingModelsDict is not mutated "
                     "afterwards): replacing or deleting an entry leaves a stale inference model "
                     "visible to agents — outside the property's quantifier, reported separately",
                     "an inference-only model shares or does not share parameters with its training "
                     "model as the subclass decides; here it never receives a sync, as the property says",
                     "thread interleaving of sync with inference is C19's subject, not modelled here"],
        trusted_extra=["versioned harness models / trainers / agent of harness/corr/c14.py"],
        level_text="decision-logic theorems (who obtains what, constructor guard), object identity, "
                   "and an invariant over all histories of runs and loads (inference version = "
                   "latest trained or loaded) + correspondence with the real containers and trainers, "
                   "including real launch() runs"))
