"""C16 — fixed-interval interaction paces steps in system time.

Correspondence ("timed mode"): the real `SleepIntervalAdjustor` and the real
`FixedIntervalInteraction.with_sleep_adjustor` (recording agent / environment whose callbacks take
a scripted virtual duration) run on a fresh `TimeController` over a virtual stdlib clock whose
`sleep` advances virtual real time; the case scripts step durations, loop overhead, pauses and scale
changes between and inside steps, the real clock advancing between the adjustor's own readings, a
late wake-up, and control events *during* the adjustor's sleep. The same script is given to the Lean
model (`Pamiq/Model/Adjust.lean`); step start, end of work, sleep asked for, real sleep, end of
step, `adjust()`/`reset()` return values and the callback order must be equal (exact dyadic values).

Monitor (independent of the model), all in system time, T = end of a step, S = start, E = end of
the step's own work, w = interval - offset:
  a  T_k - T_{k-1} >= w                                        (never early, no catch-up burst)
  b  T_k - T_{k-1} <= max(w, E_k - T_{k-1}) + scripted overhead    (exactly w when shorter)
  c  S_{k+1} - S_k >= w when the loop overhead did not shrink; == max(w, E_k - S_k) without overhead
Steps during whose `adjust()` the clock is paused or touched (not possible under `launch()`, C01)
are compared with the model but excused from a-c.
"""
from __future__ import annotations

import itertools
import sys
from fractions import Fraction as F
from pathlib import Path

sys.path.insert(0, str(Path(__file__).resolve().parent.parent))
from framework import (Ctx, Disagreement, SuiteResult, Violation, corpus_cases, run_check,
                       setup_repo_path, show_frac, show_list)


# ------------------------------------------------------------------------------------------------
# virtual clock (timed mode)
# ------------------------------------------------------------------------------------------------
class VirtualStdTime:
    """Stand-in for the stdlib `time` module under pamiq_core.time. Reads return the virtual real
    instant (and, while a script is armed, advance it afterwards); `sleep` advances it."""

    def __init__(self, world: "World") -> None:
        self.world = world
        self.now = F(0)
        self.script: list[F] = []
        self.sleeps: list[F] = []

    def _read(self) -> float:
        v = self.now
        if self.script:
            self.now += self.script.pop(0)
        return float(v)

    def time(self) -> float: return self._read()
    def perf_counter(self) -> float: return self._read()
    def monotonic(self) -> float: return self._read()

    def sleep(self, secs: float) -> None:
        real = F(secs)
        self.sleeps.append(real)
        saved, self.script = self.script, []          # control calls read the clock: not scripted
        used = F(0)
        for frac, ev in self.world.mid_plan:
            dt = F(frac) * real - used
            if dt > 0:
                self.now += dt
                used += dt
                self.world.mid_done.append(["w", show_frac(dt)])
            self.world.apply_ev(ev)
            self.world.mid_done.append(ev)
        self.now += real - used
        self.now += self.world.over
        self.script = saved


class World:
    """Fresh TimeController on a virtual clock; `pamiq_core.time`'s module-level functions are
    re-pointed to it (they are bound methods of the controller created at import)."""

    NAMES = ("is_paused", "sleep", "time", "perf_counter", "monotonic", "set_time_scale",
             "get_time_scale", "pause", "resume", "state_dict", "load_state_dict")

    def __init__(self, start: F, scale: F) -> None:
        import pamiq_core.time as ptime
        self.ptime = ptime
        self.std = VirtualStdTime(self)
        self.std.now = start
        ptime._original_time = self.std
        ptime.fixed_sleep = self.std.sleep
        ptime.fixed_time = self.std.time
        self.ctl = ptime.TimeController()
        ptime._time_controller = self.ctl
        for n in self.NAMES:
            setattr(ptime, n, getattr(self.ctl, n))
        self.sleep_requests: list[F] = []
        ctl_sleep = self.ctl.sleep

        def recorded_sleep(secs: float) -> None:
            self.sleep_requests.append(F(secs))
            ctl_sleep(secs)

        ptime.sleep = recorded_sleep
        if scale != 1:
            self.ctl.set_time_scale(float(scale))
        self.mid_plan: list = []
        self.mid_done: list = []
        self.over = F(0)
        # independent system clock of the monitor: integral of the rate over the virtual real time,
        # from the pause / resume / scale operations the harness itself issues
        self._ind_rate = F(scale)
        self._ind_paused = False
        self._ind_scale = F(scale)
        self._ind_at = F(start)
        self._ind_val = F(self.ctl.perf_counter())
        for nm in ("pause", "resume", "set_time_scale"):
            orig = getattr(ptime, nm)

            def wrapped(*a, _orig=orig, _nm=nm):
                self._ind_sync()
                r = _orig(*a)
                if _nm == "pause": self._ind_paused = True
                elif _nm == "resume": self._ind_paused = False
                else: self._ind_scale = F(a[0])
                self._ind_rate = F(0) if self._ind_paused else self._ind_scale
                return r
            setattr(ptime, nm, wrapped)

    def _ind_sync(self) -> None:
        self._ind_val += self._ind_rate * (self.std.now - self._ind_at)
        self._ind_at = self.std.now

    def sys_ind(self) -> F:
        self._ind_sync()
        return self._ind_val

    def sys(self) -> F:
        saved, self.std.script = self.std.script, []
        v = F(self.ctl.perf_counter())
        self.std.script = saved
        return v

    def apply_ev(self, ev) -> None:
        if ev[0] == "w":
            self.std.now += F(ev[1])
        elif ev[0] == "p":
            self.ptime.pause()
        elif ev[0] == "r":
            self.ptime.resume()
        elif ev[0] == "s":
            self.ptime.set_time_scale(float(F(ev[1])))
        elif ev[0] == "l":
            # an older (or newer) clock state is loaded: the system clock continues from another value
            d = dict(self.ctl.state_dict())
            for k in d:
                if k.startswith("scaled_anchor"):
                    d[k] = float(F(d[k]) + F(ev[1]))
            self.ctl.load_state_dict(d)
        elif ev[0] == "x":
            # exporting the clock state (what every state save does, also while paused) is pure
            # (C06 export_pure): it has no counterpart in the Adjust model
            self.ptime.state_dict()
        else:
            raise ValueError(ev)

    def apply(self, evs) -> None:
        for ev in evs:
            self.apply_ev(ev)

    def arm(self, adj: dict) -> None:
        self.std.script = [F(adj.get("a1", "0")), F(adj.get("a2", "0"))]
        self.mid_plan = [(m[0], m[1]) for m in adj.get("mid", [])]
        self.mid_done = []
        self.over = F(adj.get("over", "0"))
        self.std.sleeps = []
        self.sleep_requests = []

    def disarm(self) -> None:
        self.std.now += sum(self.std.script, F(0))
        self.std.script = []
        self.mid_plan = []
        self.over = F(0)


def show_ev(ev) -> str:
    return ev[0] if len(ev) == 1 else f"{ev[0]}:{ev[1]}"


def show_evs(evs) -> str:
    return show_list([e for e in evs if e[0] != "x"], show_ev)


def adj_tokens(adj: dict, world: World) -> str:
    return (f"a1={adj.get('a1', '0')} mid={show_evs(world.mid_done)} "
            f"over={adj.get('over', '0')} a2={adj.get('a2', '0')}")


def opt(xs: list[F]) -> str:
    return show_frac(xs[0]) if xs else "none"


# ------------------------------------------------------------------------------------------------
# one case
# ------------------------------------------------------------------------------------------------
def run_case(case: dict, driver):
    import math
    import pamiq_core.interaction.interval_adjustors as ia
    from pamiq_core.interaction import Agent, Environment, FixedIntervalInteraction

    violations: list[Violation] = []
    seen: set[str] = set()

    def violate(key: str, what: str) -> None:
        if key not in seen:
            seen.add(key)
            violations.append(Violation(key, what, case))

    interval, offset = F(case["interval"]), F(case.get("offset", "0"))
    w = interval - offset
    world = World(F(case.get("start", "0")), F(case.get("scale", "1")))
    if case.get("paused"):
        world.ptime.pause()
    lines = [f"adjust new {show_frac(interval)} {show_frac(offset)} sys={show_frac(world.sys())} "
             f"scale={show_frac(F(world.ctl.get_time_scale()))} "
             f"paused={'1' if world.ctl.is_paused() else '0'}"]
    impl = ["ok"]
    trace: list = []

    # ---- monitor state ----
    T_prev: F | None = None       # system time at which the previous step / reset ended
    prevS: tuple | None = None    # (S, E, G, excused, overhead-free) of the previous step

    def monitor_cycle(tag: str, E: F, T: F, excused: bool, ovh_sys: F) -> None:
        if T_prev is None or excused:
            return
        gap = T - T_prev
        if gap < w:
            violate("adjust:gap-short", f"{tag}: ended {show_frac(gap)} of system time after the "
                    f"previous one, less than interval-offset = {show_frac(w)}")
        bound = max(w, E - T_prev) + ovh_sys
        if gap > bound:
            violate("adjust:gap-long", f"{tag}: ended {show_frac(gap)} after the previous one; work "
                    f"took {show_frac(E - T_prev)}, interval-offset = {show_frac(w)}, scripted overhead "
                    f"{show_frac(ovh_sys)}: at most {show_frac(bound)} expected")

    if case["kind"] == "adjustor":
        adj = ia.SleepIntervalAdjustor(float(interval), float(offset))
        for i, op in enumerate(case["ops"]):
            if op[0] == "ev":
                world.apply(op[1])
                lines.append(f"adjust ev evs={show_evs(op[1])}")
                impl.append(f"sys={show_frac(world.sys())} scale={show_frac(F(world.ctl.get_time_scale()))} "
                            f"paused={'1' if world.ctl.is_paused() else '0'}")
                trace.append(("ev",))
            elif op[0] == "load":
                world.apply_ev(["l", op[1]])
                lines.append(f"adjust load {show_frac(world.sys())}")
                impl.append(f"sys={show_frac(world.sys())} scale={show_frac(F(world.ctl.get_time_scale()))} "
                            f"paused={'1' if world.ctl.is_paused() else '0'}")
                T_prev = None          # intervals are not compared across a jump of the clock
                trace.append(("load",))
            elif op[0] == "reset":
                before = world.sys()
                v = F(adj.reset())
                lines.append("adjust reset")
                impl.append(show_frac(v))
                if v != before:
                    violate("adjust:reset-value", f"reset() returned {v} at system time {before}")
                T_prev = v
                trace.append(("reset", str(v)))
            else:
                env = op[1]
                E = world.sys()
                paused_in = world.ctl.is_paused()
                scale_in = F(world.ctl.get_time_scale())
                world.arm(env)
                d = adj.adjust()
                world.disarm()
                T = world.sys()
                slept = bool(world.std.sleeps)
                lines.append("adjust adjust " + adj_tokens(env, world))
                impl.append(f"delta={'inf' if math.isinf(d) else show_frac(F(d))} "
                            f"sleep={opt(world.sleep_requests)} real={opt(world.std.sleeps)} "
                            f"sys={show_frac(T)}")
                excused = paused_in or bool(world.mid_done)
                ovh = (F(env.get("a1", "0")) + F(env.get("a2", "0"))
                       + (F(env.get("over", "0")) if slept else 0)) * scale_in
                monitor_cycle(f"op#{i} adjust", E, T, excused, ovh)
                if T_prev is None and not math.isinf(d):
                    violate("adjust:first-delta", f"adjust() before any reset returned {d}")
                if T_prev is not None and not excused and not math.isinf(d) and F(d) < w:
                    violate("adjust:delta-short", f"op#{i}: adjust() returned {d} < {w}")
                T_prev = T
                trace.append(("adjust", "sleep" if slept else "nosleep",
                              "excused" if excused else "calm"))
    else:
        log: list[str] = []
        marks: dict[str, F] = {}
        cur: dict = {"body": [[], [], []]}

        class RecAgent(Agent):
            def setup(self):
                super().setup(); log.append("agent.setup"); world.apply(cur.get("setup", [[], []])[0])

            def step(self, observation):
                log.append("agent.step"); world.apply(cur["body"][1]); return observation

        class RecEnv(Environment):
            def setup(self):
                super().setup(); log.append("environment.setup"); world.apply(cur.get("setup", [[], []])[1])

            def observe(self):
                marks["S"] = world.sys(); log.append("environment.observe")
                marks["S_ind"] = world.sys_ind()
                world.apply(cur["body"][0]); return 0

            def affect(self, action):
                log.append("environment.affect"); world.apply(cur["body"][2])
                marks["E"] = world.sys(); marks["paused"] = world.ctl.is_paused()
                marks["scale"] = F(world.ctl.get_time_scale())
                world.std.script = cur.pop("arm", [])

        # the adjustor's public entry points are observed at class level (outermost call only)
        depth = [0]
        orig_reset, orig_adjust = ia.IntervalAdjustor.reset, ia.IntervalAdjustor.adjust

        def rec_reset(self):
            if depth[0] == 0:
                log.append("adjustor.reset")
            depth[0] += 1
            try:
                return orig_reset(self)
            finally:
                depth[0] -= 1

        def rec_adjust(self):
            if depth[0] == 0:
                log.append("adjustor.adjust")
            depth[0] += 1
            try:
                return orig_adjust(self)
            finally:
                depth[0] -= 1

        ia.IntervalAdjustor.reset, ia.IntervalAdjustor.adjust = rec_reset, rec_adjust
        try:
            inter = FixedIntervalInteraction.with_sleep_adjustor(
                RecAgent(), RecEnv(), float(interval), float(offset))
            cur["setup"] = case.get("setup", [[], []])
            inter.setup()
            prev_ind = None
            T_prev = world.sys()
            lines.append(f"adjust isetup evs={show_evs(cur['setup'][0] + cur['setup'][1])}")
            impl.append(f"calls={show_list(log)} sys={show_frac(T_prev)}")
            trace.append(("setup",))
            for k, st in enumerate(case["steps"]):
                del log[:]
                world.apply(st.get("gap", []))
                cur["body"] = st.get("body", [[], [], []])
                env = st.get("adj", {})
                world.arm(env)
                # the read script is for adjust()'s own readings: it is armed when the work ends
                cur["arm"], world.std.script = world.std.script, []
                inter.step()
                world.disarm()
                T = world.sys()
                S, E = marks["S"], marks["E"]
                slept = bool(world.std.sleeps)
                body = st.get("body", [[], [], []])
                lines.append(f"adjust istep gap={show_evs(st.get('gap', []))} "
                             f"body={show_evs(body[0] + body[1] + body[2])} " + adj_tokens(env, world))
                impl.append(f"calls={show_list(log)} start={show_frac(S)} work={show_frac(E)} "
                            f"sleep={opt(world.sleep_requests)} real={opt(world.std.sleeps)} "
                            f"end={show_frac(T)}")
                excused = bool(marks["paused"]) or bool(world.mid_done)
                ovh_real = (F(env.get("a1", "0")) + F(env.get("a2", "0"))
                            + (F(env.get("over", "0")) if slept else 0))
                monitor_cycle(f"step#{k}", E, T, excused, ovh_real * marks["scale"])
                # the same pacing rule measured on the monitor's own system clock (integral of the
                # scale over un-paused real time): a clock that jumps must not hide a burst of steps
                if prevS is not None and marks.get("S_ind") is not None and prev_ind is not None \
                        and not prevS[3] and not excused and not world.std.script \
                        and F(env.get("a1", "0")) == 0 and F(env.get("a2", "0")) == 0:
                    if marks["S_ind"] - prev_ind < w and S - prevS[0] >= w:
                        violate("adjust:starts-close-in-true-system-time",
                                f"step#{k} started {show_frac(marks['S_ind'] - prev_ind)} of system time "
                                f"(scale x un-paused real time) after step#{k-1}, less than interval-offset "
                                f"= {show_frac(w)}, while the controller's clock claims {show_frac(S - prevS[0])}")
                prev_ind = marks.get("S_ind")
                G = S - T_prev
                if prevS is not None:
                    pS, pE, pG, pexc, pfree = prevS
                    if not pexc and G >= pG and S - pS < w:
                        violate("adjust:starts-close", f"step#{k} started {show_frac(S - pS)} of system "
                                f"time after step#{k-1}, less than interval-offset = {show_frac(w)}")
                    if not pexc and pfree and G == 0 and pG == 0 and S - pS != max(w, pE - pS):
                        violate("adjust:starts-not-exact", f"step#{k} started {show_frac(S - pS)} after "
                                f"step#{k-1} whose own duration was {show_frac(pE - pS)}; expected exactly "
                                f"{show_frac(max(w, pE - pS))} (interval-offset = {show_frac(w)})")
                prevS = (S, E, G, excused, ovh_real == 0)
                T_prev = T
                trace.append(("step", "sleep" if slept else "nosleep",
                              "excused" if excused else "calm",
                              "long" if E - S > w else ("equal" if E - S == w else "short")))
        finally:
            ia.IntervalAdjustor.reset, ia.IntervalAdjustor.adjust = orig_reset, orig_adjust

    disagreement = None
    if driver is not None:
        replies = driver.batch(lines)
        for j, (ln, a, b) in enumerate(zip(lines, impl, replies)):
            if a != b:
                disagreement = Disagreement("adjust-timeline", f"line {j} `{ln}`: implementation "
                                            f"{a!r}, model {b!r}", case)
                break
    return violations, disagreement, trace


# ------------------------------------------------------------------------------------------------
# generators
# ------------------------------------------------------------------------------------------------
INTERVALS = ["1", "2", "4", "8", "10", "1/1024", "1/2048"]      # incl. sub-millisecond pacing
OFFSETS = ["0", "0", "0", "1/4", "1", "3"]
SCALES = ["1/2", "1", "1", "2", "4"]
DUR = ["0", "1/4", "1", "2", "3", "4", "5", "8", "13", "40", "1/4096", "1/8192"]
OVH = ["0", "0", "0", "1/8", "1/2"]


def gen_evs(rng, pauses: bool, scales: bool, durs=DUR) -> list:
    """Events with balanced pauses (the clock runs again at the end)."""
    evs = []
    for _ in range(rng.choice([0, 1, 1, 2])):
        r = rng.random()
        if r < 0.6 or not (pauses or scales):
            evs.append(["w", rng.choice(durs)])
        elif r < 0.85 and pauses:
            mid = [["x"]] if rng.random() < 0.4 else []
            evs += [["p"], ["w", rng.choice(["0", "1", "7", "100"])], *mid,
                    ["w", rng.choice(["0", "1"])], ["r"]]
        elif scales:
            evs.append(["s", rng.choice(SCALES)])
    return evs


def gen_adj(rng, mode: str) -> dict:
    adj: dict = {}
    if mode in ("overhead", "wild"):
        adj = {"a1": rng.choice(OVH), "a2": rng.choice(OVH), "over": rng.choice(OVH)}
    if mode == "wild" and rng.random() < 0.5:
        plan = []
        fr = sorted(rng.sample(["1/4", "1/2", "3/4", "1"], rng.choice([1, 2])), key=F)
        for f in fr:
            plan.append([f, rng.choice([["p"], ["r"], ["s", rng.choice(SCALES)]])])
        adj["mid"] = plan
    return adj


def gen_case(rng) -> dict:
    mode = rng.choice(["tight", "tight", "overhead", "overhead", "wild"])
    base = {"interval": rng.choice(INTERVALS), "offset": rng.choice(OFFSETS),
            "start": str(F(rng.randrange(0, 400), 4)), "scale": rng.choice(SCALES), "mode": mode}
    if rng.random() < 0.3:
        base["kind"] = "adjustor"
        ops = [] if rng.random() < 0.1 else [["reset"]]
        for _ in range(rng.randint(1, 7)):
            if rng.random() < 0.15:
                ops.append(["reset"])
            if rng.random() < 0.12:
                # the same adjustor in a second session: a checkpoint (often an older one) is loaded, then setup()
                ops.append(["load", rng.choice(["-8", "-1", "-1/4", "3"])])
                ops.append(["reset"])
            evs = gen_evs(rng, True, True)
            if mode == "wild" and rng.random() < 0.2:
                evs.append(["p"])                      # enter adjust() with the clock paused
            if evs:
                ops.append(["ev", evs])
            ops.append(["adjust", gen_adj(rng, mode)])
            if evs and evs[-1] == ["p"]:
                ops.append(["ev", [["r"]]])
        base["ops"] = ops
        return base
    base["kind"] = "interaction"
    base["setup"] = [gen_evs(rng, False, False, ["0", "1"]), gen_evs(rng, False, False, ["0", "1"])]
    steps = []
    for _ in range(rng.randint(1, 7)):
        st = {"gap": gen_evs(rng, True, True, ["0", "0", "1/4", "1"]) if mode != "tight"
              else ([["p"], ["w", rng.choice(["1", "50"])], ["r"]] if rng.random() < 0.3 else []),
              "body": [gen_evs(rng, True, False), gen_evs(rng, True, True), gen_evs(rng, True, False)],
              "adj": gen_adj(rng, mode)}
        if mode == "wild" and rng.random() < 0.15:
            st["body"][2].append(["p"])
            steps.append(st)
            steps.append({"gap": [["r"]], "body": [[], [["w", "1"]], []], "adj": {}})
            continue
        steps.append(st)
    base["steps"] = steps
    return base


def account(res: SuiteResult, case, vs, d, tr) -> None:
    res.evaluations += 1
    res.violations += vs
    if d:
        res.disagreements.append(d)
    res.hit("kind:" + case["kind"])
    for t in tr:
        res.hit("op:" + t[0])
        for x in t[1:]:
            if x in ("sleep", "nosleep", "excused", "calm", "long", "short", "equal"):
                res.hit("branch:" + x)


def suite_corpus(ctx: Ctx) -> SuiteResult:
    res = SuiteResult("adjust-corpus", rule="committed witnesses; non-trivial = all")
    for c in corpus_cases("C16"):
        vs, d, tr = run_case(c["case"], ctx.driver)
        account(res, c["case"], vs, d, tr)
        res.nontrivial.add(c["_corpus_file"])
    return res


def suite_exhaustive(ctx: Ctx) -> SuiteResult:
    L = 2 if ctx.tier == "quick" else 3
    res = SuiteResult("adjust-exhaustive-small",
                      rule=f"FixedIntervalInteraction, interval 4, offset in {{0,1}}, scale in {{1,2}}, "
                           f"every sequence of <= {L} steps with own duration in {{0,1,3,4,6}} (real "
                           "seconds) x pause placement in {none, between steps, inside the step}, "
                           "followed by one empty step; non-trivial = contains a pause or a step "
                           "longer than the interval", exhaustive=True)
    durs = ["0", "1", "3", "4", "6"]
    places = ["none", "gap", "body"]
    alphabet = [(d, p) for d in durs for p in places]
    case = None
    for off in ["0", "1"]:
        for sc in ["1", "2"]:
            for n in range(1, L + 1):
                for combo in itertools.product(alphabet, repeat=n):
                    steps = []
                    for d, p in combo:
                        st = {"gap": [], "body": [[], [["w", d]], []], "adj": {}}
                        if p == "gap":
                            st["gap"] = [["p"], ["w", "9"], ["r"]]
                        elif p == "body":
                            st["body"][1] = [["w", str(F(d) / 2)], ["p"], ["w", "9"], ["r"],
                                             ["w", str(F(d) / 2)]]
                        steps.append(st)
                    steps.append({"gap": [], "body": [[], [], []], "adj": {}})
                    case = {"kind": "interaction", "interval": "4", "offset": off, "scale": sc,
                            "start": "0", "steps": steps}
                    vs, d_, tr = run_case(case, ctx.driver)
                    account(res, case, vs, d_, tr)
                    if any(p != "none" or F(d) * F(sc) > 4 for d, p in combo):
                        res.nontrivial.add((off, sc, combo))
                    if len(res.violations) > 20 or len(res.disagreements) > 20:
                        return res
    res.sample({"case": case})
    return res


def suite_random(ctx: Ctx) -> SuiteResult:
    res = SuiteResult("adjust-random-timelines",
                      rule="random timelines: stand-alone SleepIntervalAdjustor (reset/adjust with "
                           "events in between) and FixedIntervalInteraction.with_sleep_adjustor (1-7 "
                           "steps), intervals/offsets/scales/durations dyadic, pauses and scale changes "
                           "between and inside steps; modes tight (no overhead), overhead (clock "
                           "advances between the adjustor's reads, late wake-up), wild (clock paused / "
                           "rescaled during the sleep or on entry); non-trivial = at least one sleeping "
                           "and one non-sleeping adjust; distinct by (parameters, trace)")
    n = ctx.n(2500, 30000)
    for _ in range(n):
        case = gen_case(ctx.rng)
        vs, d, tr = run_case(case, ctx.driver)
        account(res, case, vs, d, tr)
        res.hit("mode:" + case["mode"])
        kinds = {t[1] for t in tr if t[0] in ("adjust", "step")}
        if {"sleep", "nosleep"} <= kinds:
            res.nontrivial.add((case["interval"], case["offset"], case["scale"], repr(tr)))
        res.sample({"case": case, "trace": tr})
        if len(res.violations) > 20 or len(res.disagreements) > 20:
            break
    return res


def suite_malformed(ctx: Ctx) -> SuiteResult:
    res = SuiteResult("adjust-malformed",
                      rule="adjust() before any reset (-inf marker), offset larger than the interval, "
                           "zero interval; malformed driver lines refused; non-trivial = every case",
                      exhaustive=True)
    cases = [
        {"kind": "adjustor", "interval": "4", "offset": "0", "scale": "1", "mode": "edge",
         "ops": [["adjust", {}], ["ev", [["w", "1"]]], ["adjust", {}]]},
        {"kind": "adjustor", "interval": "2", "offset": "3", "scale": "2", "mode": "edge",
         "ops": [["reset"], ["adjust", {}], ["ev", [["w", "1"]]], ["adjust", {}]]},
        {"kind": "interaction", "interval": "0", "offset": "0", "scale": "1", "mode": "edge",
         "steps": [{"body": [[], [["w", "1"]], []]}, {"body": [[], [], []]}]},
    ]
    for c in cases:
        vs, d, tr = run_case(c, ctx.driver)
        account(res, c, vs, d, tr)
        res.nontrivial.add(repr(c))
        res.sample({"case": c, "trace": tr})
    if ctx.driver is not None:
        bad = ["adjust", "adjust new 1", "adjust new 1 0 sys=0 scale=0 paused=0", "adjust ev",
               "adjust ev evs=[w:-1]", "adjust ev evs=[s:0]", "adjust ev evs=[x]", "adjust adjust a1=-1",
               "adjust adjust over=z", "adjust istep gap=[q]", "adjust reset now", "adjust frob"]
        pre = ["adjust new 4 0 sys=0 scale=1 paused=0", "adjust reset"]
        ctx.driver.batch(pre)
        for ln, rep in zip(bad, ctx.driver.batch(bad)):
            res.evaluations += 1
            res.hit("driver:bad-op")
            if rep != "bad-op":
                res.disagreements.append(Disagreement("adjust-malformed", f"driver accepted `{ln}`: {rep}",
                                                      {"line": ln}))
        # a sleep script that does not fit into the sleep is refused
        rep = ctx.driver.batch(["adjust adjust mid=[w:100]"])[0]
        res.evaluations += 1
        if rep != "bad-op":
            res.disagreements.append(Disagreement("adjust-malformed", f"over-long sleep script accepted: {rep}",
                                                  {"line": "mid=[w:100]"}))
    return res


def search(ctx: Ctx, disagreements, broken):
    import random
    import syscheck
    out: list[Violation] = []
    if any(isinstance(d.case, dict) and "scenario" in d.case for d in disagreements):
        out = syscheck.make_search("C16", ["C16"])(ctx, [d for d in disagreements
                                                         if isinstance(d.case, dict) and "scenario" in d.case], broken)
        if out:
            return out
    for d in disagreements:
        if isinstance(d.case, dict) and "kind" in d.case:
            vs, _, _ = run_case(d.case, None)
            out += vs
    if out:
        return out
    rng = random.Random(ctx.seed + 1)
    for _ in range(ctx.n(15000, 100000)):
        case = gen_case(rng)
        vs, _, _ = run_case(case, None)
        if vs:
            return vs
    return out


def replay(ctx: Ctx, payload: dict) -> SuiteResult:
    res = SuiteResult("replay")
    case = payload.get("case") or payload.get("first_disagreement")
    if isinstance(case, dict) and "scenario" in case:
        import syscheck
        return syscheck.make_replay("C16")(ctx, payload)
    vs, d, tr = run_case(case, ctx.driver)
    res.evaluations = 1
    res.violations = vs
    if d:
        res.disagreements.append(d)
    print("trace:", tr)
    return res


if __name__ == "__main__":
    setup_repo_path()
    import logging
    logging.disable(logging.CRITICAL)
    import syscheck
    import gentie
    sys_suites = syscheck.make_suites("C16", [("C16", 120, 3000)],
        "timed runs of the real launch() with FixedIntervalInteraction.with_sleep_adjustor (intervals 2-4 loop "
        "periods x time scales 1/2..4 x offsets x step durations) and scripted pause / resume / save commands "
        "between and during steps, under seeded random schedules; C16 monitor on a clock of its own (virtual "
        "real time x scale, frozen between the control thread's time.pause() and time.resume()): no step starts "
        "while the clock is frozen, consecutive step starts at least interval - offset apart up to the loop "
        "overhead; traces also replayed through Pamiq.Proto / Pamiq.Tick; non-trivial = contains a pause or save")
    sys.exit(run_check(
        "C16", lean_modules=["Pamiq.Props.C16"],
        required_theorems=["Pamiq.Adjust.reset_gap", "Pamiq.Adjust.reset_gap_ge",
                           "Pamiq.Adjust.reset_gap_exact", "Pamiq.Adjust.no_burst",
                           "Pamiq.Adjust.starts_paced", "Pamiq.Adjust.pause_free",
                           "Pamiq.Adjust.pause_free_step", "Pamiq.Adjust.sleep_spec",
                           "Pamiq.Adjust.pause_in_sleep_shortens"],
        suites=[gentie.suite_for("C16"), suite_corpus, suite_exhaustive, suite_random, suite_malformed, *sys_suites],
        search=search, replay=replay,
        assumptions=["IEEE-754 rounding is not modelled: all values dyadic, scales powers of two, so "
                     "every float operation of interval_adjustors.py / time.py is exact; equality",
                     "the clock is running when adjust() is entered and is not paused / rescaled while "
                     "the adjustor is inside the real sleep (under launch() this is C01: the clock is "
                     "paused only while the inference thread is quiescent); such steps are compared "
                     "with the model but excused from the pacing rules — theorem "
                     "pause_in_sleep_shortens shows the gap is then shorter than the interval",
                     "stand-alone runs only: the pacing of the inference thread inside launch() adds "
                     "the loop's own overhead (LOOP_DELAY), which the model carries as the `gap` input",
                     "the real sleep never returns early (late returns are scripted)"],
        trusted_extra=["virtual stdlib clock whose sleep advances virtual real time, fresh "
                       "TimeController re-pointed into pamiq_core.time (harness/corr/c16.py)",
                       "C06 (the system clock is the scaled, pausable image of real time) for the "
                       "meaning of the timeline's `wait`"],
        level_text="arithmetic recurrence for the reset instants (all inputs), no-burst and exact "
                   "pacing over all histories, pause insertion is the identity; correspondence of the "
                   "model with SleepIntervalAdjustor / FixedIntervalInteraction in timed mode"))
