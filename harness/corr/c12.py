"""C12 — composite components are transparent for events, state and data.

Correspondence: component trees are built from the REAL composite classes of
`pamiq_core.interaction` (Interaction, Agent with child agents, ModularEnvironment, SensorsDict,
ActuatorsDict, Environment/Sensor/Actuator wrappers, LambdaWrapper via `_ensure_wrapper`) around
recording leaves; the eight root events, a real save through `StateStore` into a temporary
directory, a load into a fresh copy of the tree and `Interaction.step()` with scripted actions are
executed and every observable (callback log with leaf ids, paths handed to the leaves, mkdir
attempts seen through an audit hook, observation seen by the agent, values received by the leaf
actuators, exception kinds) is compared for equality with the Lean model `Pamiq/Model/Tree.lean`
run by the compiled driver.  A second suite runs the real `launch()` (threads and all) on recording
trees, twice (fresh, then from the saved state), which ties the attachment lines of launcher.py.

Monitor: the property statement written directly in Python over the implementation's log,
independent of the Lean model (top-down walk of the tree description): exactly-once delivery,
distinct paths, load path = save path, parent directories exist, wrappers on the path applied once
each in order, dictionary routing by key.
"""
from __future__ import annotations

import itertools
import os
import shutil
import sys
import tempfile
from collections import Counter
from pathlib import Path

sys.path.insert(0, str(Path(__file__).resolve().parent.parent))
from framework import (Ctx, Disagreement, SuiteResult, Violation, corpus_cases, run_check,
                       setup_repo_path)

LIFECYCLE = ["setup", "teardown", "on_paused", "on_resumed", "save_state", "load_state"]
ATTACH = ["attach_inference_models", "attach_data_collectors"]
EVENTS = LIFECYCLE + ATTACH

# ------------------------------------------------------------------------------------------------
# Tree descriptions (JSON-able nested lists) and their driver terms
#   agent ["A", id, [[name, agent]…]]     env ["E", id] | ["EM", sensor, actuator] | ["EW", env, w, w]
#   sensor ["S", id] | ["SD", [[name, sensor]…]] | ["SW", sensor, w]      wrap ["W", id] | ["F", id]
#   actuator ["C", id] | ["CD", [[name, actuator]…]] | ["CW", actuator, w]
#   value ["v", src, [trail…]] | ["d", [[key, value]…]]
# ------------------------------------------------------------------------------------------------

def term(t) -> str:
    k = t[0]
    if k == "I":
        return f"I({term(t[1])},{term(t[2])})"
    if k == "A":
        return f"A{t[1]}{{" + ",".join(f"{n}:{term(c)}" for n, c in t[2]) + "}"
    if k in ("E", "S", "C", "W", "F"):
        return f"{k}{t[1]}"
    if k in ("SD", "CD"):
        return k + "{" + ",".join(f"{n}:{term(c)}" for n, c in t[1]) + "}"
    if k in ("SW", "CW", "EM"):
        return f"{k}({term(t[1])},{term(t[2])})"
    if k == "EW":
        return f"EW({term(t[1])},{term(t[2])},{term(t[3])})"
    raise ValueError(k)


def val_term(v) -> str:
    if v[0] == "v":
        return f"v{v[1]}[" + ",".join(str(x) for x in v[2]) + "]"
    return "d{" + ",".join(f"{k}:{val_term(x)}" for k, x in v[1]) + "}"


def to_py(v):
    """Value description -> Python value handed to the real code."""
    if v[0] == "v":
        return ("v", v[1], tuple(v[2]))
    return {k: to_py(x) for k, x in v[1]}


def show_py(v) -> str:
    if isinstance(v, dict):
        return "d{" + ",".join(f"{k}:{show_py(x)}" for k, x in v.items()) + "}"
    return f"v{v[1]}[" + ",".join(str(x) for x in v[2]) + "]"


def tag(w: int, v):
    """The transformation of every harness wrapper: append its id to the trail of every atom."""
    if isinstance(v, dict):
        return {k: tag(w, x) for k, x in v.items()}
    return ("v", v[1], v[2] + (w,))


# ------------------------------------------------------------------------------------------------
# Recording leaves around the real classes
# ------------------------------------------------------------------------------------------------

class Rec:
    def __init__(self) -> None:
        self.log: list[tuple] = []
        self.root: Path | None = None       # paths are reported relative to this directory
        self.internal = 0                   # >0 while a harness leaf touches the file system itself
        self.watch_fs = False
        self.problems: list[tuple[str, str]] = []
        self.next_action = None
        self.none_sources: set[int] = set()   # sources whose raw reading is None ("no value")
        self.last_none: int | None = None     # … and the one that returned None last
        self.styles: dict[int, str] = {}
        self.raise_setup: set[int] = set()    # leaves whose setup() raises (after having been recorded)

    def ev(self, *x) -> None:
        self.log.append(tuple(x))

    def rel(self, p) -> str:
        return os.path.relpath(str(p), str(self.root))

    def take(self) -> list[tuple]:
        out, self.log = self.log, []
        return out


_CURRENT: list[Rec | None] = [None]
_HOOKED = [False]


def _audit(event: str, args) -> None:
    if event != "os.mkdir":
        return
    rec = _CURRENT[0]
    if rec is None or not rec.watch_fs or rec.internal or rec.root is None:
        return
    p = os.path.abspath(os.fspath(args[0]))
    root = str(rec.root)
    if not p.startswith(root + os.sep):
        return
    if not os.path.isdir(os.path.dirname(p)):
        rec.problems.append(("parent-missing", f"mkdir {rec.rel(p)}: parent directory does not exist"))
    rec.ev("mkdir", rec.rel(p))


def install_hook() -> None:
    if not _HOOKED[0]:
        sys.addaudithook(_audit)
        _HOOKED[0] = True


def _leaf_save(rec: Rec, lid: int, path: Path, style: str) -> None:
    """What a user component does with the path it is handed: a file at `path`, or a directory of
    its own with a file inside."""
    rec.internal += 1
    try:
        if style == "file":
            path.write_text(str(lid))
            rec.ev("wrote", lid, rec.rel(path))
        else:
            if style == "dir":
                path.mkdir()
            else:
                path.mkdir(exist_ok=True)      # documented pattern for agents
            (path / "__self__").write_text(str(lid))
            rec.ev("wrote", lid, rec.rel(path / "__self__"))
    finally:
        rec.internal -= 1


def _leaf_load(rec: Rec, lid: int, path: Path) -> None:
    f = path if path.is_file() else path / "__self__"
    try:
        content = f.read_text()
    except OSError as e:
        rec.ev("read-failed", lid, rec.rel(f), type(e).__name__)
        return
    rec.ev("read", lid, rec.rel(f), content)


def _entry_check(rec: Rec, lid: int, path: Path) -> None:
    if not path.parent.is_dir():
        rec.problems.append(("parent-missing",
                             f"leaf {lid} handed {rec.rel(path)}: parent directory does not exist"))


def make_classes():
    from pamiq_core.interaction import Agent, Environment
    from pamiq_core.interaction.modular_env import Actuator, Sensor
    from pamiq_core.interaction.wrappers import Wrapper

    class LeafMixin:
        """Records the six lifecycle callbacks; calls super() as user code is told to."""

        def _init_leaf(self, rec: Rec, lid: int) -> None:
            self._rec, self._lid = rec, lid

        # user components may be value types (two wrappers / sensors configured alike compare equal and
        # hash alike): the composites must keep telling their parts apart by identity
        def __eq__(self, other) -> bool:
            return type(other) is type(self)

        def __hash__(self) -> int:
            return hash(type(self).__name__)

        # ... and may be containers (a frame-stack wrapper with `__len__`): every second leaf is falsy
        def __bool__(self) -> bool:
            return getattr(self, "_lid", 0) % 2 == 0

        def setup(self):
            self._rec.ev("setup", self._lid)
            super().setup()
            if self._lid in self._rec.raise_setup:
                raise RuntimeError(f"setup of leaf {self._lid} fails")

        def teardown(self):
            self._rec.ev("teardown", self._lid)
            super().teardown()

        def on_paused(self):
            self._rec.ev("on_paused", self._lid)
            super().on_paused()

        def on_resumed(self):
            self._rec.ev("on_resumed", self._lid)
            super().on_resumed()

        def save_state(self, path):
            rec = self._rec
            rec.ev("save_state", self._lid, rec.rel(path))
            _entry_check(rec, self._lid, path)
            style = rec.styles.get(self._lid, "file")
            if style == "dir-post":
                super().save_state(path)
                _leaf_save(rec, self._lid, path, style)
            else:
                _leaf_save(rec, self._lid, path, style)
                super().save_state(path)

        def load_state(self, path):
            self._rec.ev("load_state", self._lid, self._rec.rel(path))
            _leaf_load(self._rec, self._lid, path)
            super().load_state(path)

    class RAgent(LeafMixin, Agent):
        def __init__(self, rec, lid, children):
            Agent.__init__(self, children if children else None)
            self._init_leaf(rec, lid)

        def on_inference_models_attached(self):
            self._rec.ev("attach_inference_models", self._lid, id(self._inference_models))

        def on_data_collectors_attached(self):
            self._rec.ev("attach_data_collectors", self._lid, id(self._data_collectors))

        def step(self, observation):
            self._rec.ev("agent_step", self._lid, observation)
            return self._rec.next_action

    class REnv(LeafMixin, Environment):
        def __init__(self, rec, lid):
            self._init_leaf(rec, lid)

        def observe(self):
            self._rec.ev("observe", self._lid)
            if self._lid in self._rec.none_sources:
                self._rec.last_none = self._lid
                return None
            return ("v", self._lid, ())

        def affect(self, action):
            self._rec.ev("deliver", self._lid, action)

    class RSensor(LeafMixin, Sensor):
        def __init__(self, rec, lid):
            self._init_leaf(rec, lid)

        def read(self):
            self._rec.ev("observe", self._lid)
            if self._lid in self._rec.none_sources:
                self._rec.last_none = self._lid
                return None
            return ("v", self._lid, ())

    class RActuator(LeafMixin, Actuator):
        def __init__(self, rec, lid):
            self._init_leaf(rec, lid)

        def operate(self, action):
            self._rec.ev("deliver", self._lid, action)

    class RWrapper(LeafMixin, Wrapper):
        def __init__(self, rec, lid):
            self._init_leaf(rec, lid)

        def wrap(self, value):
            self._rec.ev("wrap", self._lid)
            if value is None:
                # a transformation applies to "no value" like to any other value: the trail starts here
                value = ("v", self._rec.last_none, ())
            return tag(self._lid, value)

    return RAgent, REnv, RSensor, RActuator, RWrapper


_CLASSES = None


def build(tree, rec: Rec):
    """Tree description -> real `Interaction` built from the real composite classes."""
    global _CLASSES
    if _CLASSES is None:
        _CLASSES = make_classes()
    RAgent, REnv, RSensor, RActuator, RWrapper = _CLASSES
    from pamiq_core.interaction import Interaction
    from pamiq_core.interaction.modular_env import ActuatorsDict, ModularEnvironment, SensorsDict
    from pamiq_core.interaction.wrappers import ActuatorWrapper, EnvironmentWrapper, SensorWrapper

    scratch: list[dict] = []      # the mappings handed to constructors; the caller reuses them afterwards

    def mapping(d: dict) -> dict:
        scratch.append(d)
        return d

    def wrap(w):
        if w[0] == "W":
            return RWrapper(rec, w[1])
        wid = w[1]

        def fn(value, _wid=wid):
            rec.ev("wrap", _wid)
            if value is None:
                value = ("v", rec.last_none, ())
            return tag(_wid, value)
        return fn

    def agent(a):
        return RAgent(rec, a[1], mapping({n: agent(c) for n, c in a[2]}))

    def sensor(s):
        if s[0] == "S":
            return RSensor(rec, s[1])
        if s[0] == "SD":
            return SensorsDict(mapping({n: sensor(c) for n, c in s[1]}))
        return SensorWrapper(sensor(s[1]), wrap(s[2]))

    def actuator(a):
        if a[0] == "C":
            return RActuator(rec, a[1])
        if a[0] == "CD":
            return ActuatorsDict(mapping({n: actuator(c) for n, c in a[1]}))
        return ActuatorWrapper(actuator(a[1]), wrap(a[2]))

    def env(e):
        if e[0] == "E":
            return REnv(rec, e[1])
        if e[0] == "EM":
            if e[1][0] == "SD" and e[2][0] == "CD" and (len(e[1][1]) + len(e[2][1])) % 2 == 0:
                # the public convenience constructor, on half of the eligible shapes
                return ModularEnvironment.from_dict(mapping({n: sensor(c) for n, c in e[1][1]}),
                                                    mapping({n: actuator(c) for n, c in e[2][1]}))
            s_obj, a_obj2 = sensor(e[1]), actuator(e[2])
            if (len(str(e[1])) + len(str(e[2]))) % 3 == 0:
                # the parts are put in place after the environment was built (`env.sensor = calibrated(env.sensor)`):
                # the public attributes `sensor` / `actuator` are what counts, for data and for events alike
                from pamiq_core.interaction.modular_env import Actuator as _A, Sensor as _S

                class _NoSensor(_S):
                    def read(self):
                        raise AssertionError("the placeholder sensor was used")

                class _NoActuator(_A):
                    def operate(self, action):
                        raise AssertionError("the placeholder actuator was used")
                m = ModularEnvironment(_NoSensor(), _NoActuator())
                m.sensor, m.actuator = s_obj, a_obj2
                return m
            return ModularEnvironment(s_obj, a_obj2)
        return EnvironmentWrapper(env(e[1]), wrap(e[2]), wrap(e[3]))

    a_obj = agent(tree[1])
    if tree[2][0] == "EW" and (tree[2][2][1] if len(tree[2][2]) > 1 else 0) % 2 == 0:
        # the user decorates the environment after the interaction has been put together
        # (`interaction.environment = Wrapper(interaction.environment)`): the public attributes are what counts
        inner = env(tree[2][1])
        root = Interaction(a_obj, inner)
        root.environment = EnvironmentWrapper(root.environment, wrap(tree[2][2]), wrap(tree[2][3]))
    else:
        root = Interaction(a_obj, env(tree[2]))
    # the composites are built: what the caller does with its own dictionaries afterwards (a builder
    # reusing one scratch dict for several groups) must not change what they consist of
    for d in scratch:
        d.clear()
    return root


# ------------------------------------------------------------------------------------------------
# The property, evaluated top-down on the tree description (independent of the Lean model)
# ------------------------------------------------------------------------------------------------

def spec_components(tree):
    """[(id, kind)] of all user components: kind in agent / component (lambda wrappers excluded)."""
    out = []

    def w(x):
        if x[0] == "W":
            out.append((x[1], "component"))

    def agent(a):
        out.append((a[1], "agent"))
        for _, c in a[2]:
            agent(c)

    def node(t):
        k = t[0]
        if k in ("E", "S", "C"):
            out.append((t[1], "component"))
        elif k in ("SD", "CD"):
            for _, c in t[1]:
                node(c)
        elif k in ("SW", "CW"):
            node(t[1]); w(t[2])
        elif k == "EM":
            node(t[1]); node(t[2])
        elif k == "EW":
            node(t[1]); w(t[2]); w(t[3])
    agent(tree[1])
    node(tree[2])
    return out


def spec_sources(tree):
    """Leaf sensors / leaf environments: id -> (key path from the root, wrappers innermost first),
    and the ids of all observation-side wrappers."""
    out, wrappers = {}, []

    def sensor(s, keys, outer):
        if s[0] == "S":
            out[s[1]] = (keys, outer)
        elif s[0] == "SD":
            for n, c in s[1]:
                sensor(c, keys + [n], outer)
        else:
            wrappers.append(s[2][1])
            sensor(s[1], keys, [s[2][1]] + outer)

    def env(e, outer):
        if e[0] == "E":
            out[e[1]] = ([], outer)
        elif e[0] == "EM":
            sensor(e[1], [], outer)
        else:
            wrappers.append(e[2][1])
            env(e[1], [e[2][1]] + outer)
    env(tree[2], [])
    return out, wrappers


def none_eligible_sources(tree) -> list[int]:
    """Leaf sensors / leaf environments that sit directly inside a wrapper: their raw reading may be
    `None`, which the wrapper must transform like any other value (the model's atoms carry no payload,
    so the observation the agent sees is the same term)."""
    out = []

    def sensor(s):
        if s[0] == "S":
            return
        if s[0] == "SD":
            for _n, c in s[1]:
                sensor(c)
        else:
            if s[1][0] == "S":
                out.append(s[1][1])
            sensor(s[1])

    def env(e):
        if e[0] == "E":
            return
        if e[0] == "EM":
            sensor(e[1])
        else:
            if e[1][0] == "E":
                out.append(e[1][1])
            env(e[1])
    env(tree[2])
    return out


def assign_none_sources(tree, salt: int) -> set[int]:
    return {sid for sid in none_eligible_sources(tree) if (sid * 5 + salt) % 2 == 0}


def spec_sinks(tree):
    """Action side, in delivery order: ("need", key path) for every named child of an
    ActuatorsDict (the action must hold a value there), ("sink", id, key path, wrappers outermost
    first) for every leaf actuator / leaf environment; and the ids of all action-side wrappers."""
    out, wrappers = [], []

    def actuator(a, keys, outer):
        if a[0] == "C":
            out.append(("sink", a[1], keys, outer))
        elif a[0] == "CD":
            for n, c in a[1]:
                out.append(("need", keys + [n]))
                actuator(c, keys + [n], outer)
        else:
            wrappers.append(a[2][1])
            actuator(a[1], keys, outer + [a[2][1]])

    def env(e, outer):
        if e[0] == "E":
            out.append(("sink", e[1], [], outer))
        elif e[0] == "EM":
            actuator(e[2], [], outer)
        else:
            wrappers.append(e[3][1])
            env(e[1], outer + [e[3][1]])
    env(tree[2], [])
    return out, wrappers


def get_path(v, keys):
    for k in keys:
        if not isinstance(v, dict) or k not in v:
            return None
        v = v[k]
    return v


class Monitor:
    def __init__(self, case) -> None:
        self.case = case
        self.tree = case["tree"]
        self.comps = spec_components(self.tree)
        self.violations: list[Violation] = []

    def bad(self, key: str, what: str) -> None:
        self.violations.append(Violation("tree:" + key, what, self.case))

    def event(self, e: str, log: list[tuple], exc) -> None:
        if exc is not None:
            self.bad(f"{e}:raised", f"{e} at the root raised {exc}")
        want = Counter(i for i, k in self.comps if e in LIFECYCLE or k == "agent")
        got = Counter(x[1] for x in log if x[0] == e)
        if want != got:
            missing = sorted((want - got).elements())
            extra = sorted((got - want).elements())
            self.bad(f"{e}:not-exactly-once",
                     f"{e} issued at the root: components not reached {missing}, reached more than "
                     f"once or wrongly {extra}")

    def attach_same_object(self, e: str, log, obj) -> None:
        for x in log:
            if x[0] == e and x[2] != id(obj):
                self.bad(f"{e}:other-object", f"agent {x[1]} was attached a different container")

    def save(self, log, problems, exc) -> dict[int, str]:
        if exc is not None:
            key = "save_state:parent-missing" if exc == "FileNotFoundError" else "save_state:raised"
            self.bad(key, f"saving raised {exc}")
        for kind, what in problems:
            self.bad("save_state:" + kind, what)
        paths: dict[int, str] = {}
        for x in log:
            if x[0] == "save_state":
                paths[x[1]] = x[2]
        by_path: dict[str, list[int]] = {}
        for i, p in paths.items():
            by_path.setdefault(p, []).append(i)
        for p, ids in by_path.items():
            if len(ids) > 1:
                self.bad("save_state:path-collision", f"components {sorted(ids)} are all saved under {p}")
        return paths

    def load(self, log, save_paths: dict[int, str], exc) -> None:
        if exc is not None:
            self.bad("load_state:raised", f"loading raised {exc}")
        for x in log:
            if x[0] == "load_state" and save_paths.get(x[1]) != x[2]:
                self.bad("load_state:path-mismatch",
                         f"component {x[1]} saved under {save_paths.get(x[1])} but loaded from {x[2]}")
            if x[0] == "read-failed":
                self.bad("load_state:file-missing", f"component {x[1]} cannot read back {x[2]}: {x[3]}")
            if x[0] == "read" and x[3] != str(x[1]):
                self.bad("load_state:foreign-file",
                         f"component {x[1]} read {x[2]} which holds the state of component {x[3]}")

    def step(self, action_py, log, exc) -> None:
        sources, obs_wrappers = spec_sources(self.tree)
        sinks, act_wrappers = spec_sinks(self.tree)
        seen = [x for x in log if x[0] == "agent_step"]
        wraps = Counter(x[1] for x in log if x[0] == "wrap")
        if len(seen) != 1 or seen[0][1] != self.tree[1][1]:
            self.bad("data:agent-step", f"root agent stepped {len(seen)} times")
            return
        obs = seen[0][2]
        # observation: every source under its key path, with exactly the wrappers on its path
        n_atoms = 0

        def count(v):
            nonlocal n_atoms
            if isinstance(v, dict):
                for x in v.values():
                    count(x)
            else:
                n_atoms += 1
        count(obs)
        for sid, (keys, ws) in sources.items():
            got = get_path(obs, keys)
            if got != ("v", sid, tuple(ws)):
                self.bad("data:obs-path", f"source {sid} expected under keys {keys} with wrappers "
                                          f"{ws}, observation holds {got!r}")
        if n_atoms != len(sources):
            self.bad("data:obs-path", f"observation holds {n_atoms} readings for {len(sources)} sources")
        for w in obs_wrappers:
            if wraps[w] != 1:
                self.bad("data:wrapper-count", f"observation wrapper {w} applied {wraps[w]} times")
        # action
        delivered = [(x[1], x[2]) for x in log if x[0] == "deliver"]
        expected = []
        failed = None
        for item in sinks:
            if item[0] == "need":
                if get_path(action_py, item[1]) is None:
                    failed = "/".join(item[1])
                    break
                continue
            _, aid, keys, ws = item
            v = get_path(action_py, keys)
            for w in ws:
                v = tag(w, v)
            expected.append((aid, v))
        if delivered != expected:
            self.bad("data:act-path", f"deliveries {delivered!r}, expected {expected!r}")
        if failed is None:
            if exc is not None:
                self.bad("data:act-raised", f"well-formed action raised {exc}")
            for w in act_wrappers:
                if wraps[w] != 1:
                    self.bad("data:wrapper-count", f"action wrapper {w} applied {wraps[w]} times")
        else:
            if exc not in ("KeyError", "TypeError"):
                self.bad("data:act-missing-key", f"action lacks the value for child {failed} but "
                                                 f"delivery ended with {exc}")
            for w in act_wrappers:
                if wraps[w] > 1:
                    self.bad("data:wrapper-count", f"action wrapper {w} applied {wraps[w]} times")


# ------------------------------------------------------------------------------------------------
# One case: implementation + monitor, and the model through the driver
# ------------------------------------------------------------------------------------------------

def assign_styles(tree, salt: int) -> dict[int, str]:
    """How each recording leaf uses the path it is handed (harness freedom, not modelled)."""
    styles = {}

    def agent(a):
        h = (a[1] * 7 + salt) % 3
        if a[2]:
            styles[a[1]] = ("dir-pre", "dir-post")[h % 2]
        else:
            styles[a[1]] = ("file", "dir-pre", "dir-post")[h]
        for _, c in a[2]:
            agent(c)
    agent(tree[1])
    for i, k in spec_components(tree):
        if k == "component":
            styles[i] = "file" if (i + salt) % 2 else "dir"
    return styles


def call(fn):
    try:
        fn()
        return None
    except Exception as e:   # noqa: BLE001 - the kind of exception is the observable
        return type(e).__name__


def show_ids(log, e) -> str:
    return "[" + ",".join(str(x[1]) for x in log if x[0] == e) + "]"


def show_paths(log, e) -> str:
    return "[" + ",".join(f"{x[1]}={x[2]}" for x in log if x[0] == e) + "]"


def run_case(case: dict, driver):
    """Returns (violations, disagreement-or-None, info)."""
    from pamiq_core.data import DataUsersDict
    from pamiq_core.model import TrainingModelsDict
    from pamiq_core.state_persistence import StateStore

    install_hook()
    tree = case["tree"]
    mon = Monitor(case)
    lines: list[str] = [f"tree reset {term(tree)}"]
    impl: list[str] = ["ok"]
    tmp = Path(tempfile.mkdtemp(prefix="pamiq-verif."))
    info = {"events": 0, "errors": Counter()}
    try:
        rec = Rec()
        rec.styles = assign_styles(tree, case.get("salt", 0))
        rec.none_sources = assign_none_sources(tree, case.get("salt", 0))
        _CURRENT[0] = rec
        inter = build(tree, rec)
        n_saves = 0
        save_paths: dict[int, str] = {}
        saved_dir = None
        for op in case["ops"]:
            kind = op[0]
            info["events"] += 1
            if kind in ("setup", "teardown", "on_paused", "on_resumed"):
                exc = call(getattr(inter, kind))
                log = rec.take()
                mon.event(kind, log, exc)
                lines.append(f"tree dispatch {kind}")
                impl.append(show_ids(log, kind) if exc is None else f"err {exc}")
            elif kind in ATTACH:
                # the two lines of launch(): interaction.agent.attach_*(container)
                if kind == "attach_inference_models":
                    obj = TrainingModelsDict({}).inference_models_dict
                    exc = call(lambda: inter.agent.attach_inference_models(obj))
                else:
                    obj = DataUsersDict.from_data_buffers({}).data_collectors_dict
                    exc = call(lambda: inter.agent.attach_data_collectors(obj))
                log = rec.take()
                mon.event(kind, log, exc)
                mon.attach_same_object(kind, log, obj)
                lines.append(f"tree dispatch {kind}")
                impl.append(show_ids(log, kind) if exc is None else f"err {exc}")
            elif kind == "save_state":
                rec.watch_fs = True
                holder = {}

                n_saves += 1
                store = StateStore(tmp / "states", state_name_format=f"s{n_saves}.state")
                store.register("interaction", inter)

                def do_save():
                    # StateStore.save_state creates <states>/<stamp>.state and hands
                    # <that>/interaction to Interaction.save_state
                    holder["p"] = store.save_state()
                # paths are reported relative to the state directory, which is only known after
                # the call: use a provisional root that is a prefix of it
                rec.root = tmp / "states"
                exc = call(do_save)
                rec.watch_fs = False
                log = rec.take()
                # strip the "<stamp>.state/" component
                def strip(p: str) -> str:
                    parts = p.split(os.sep)
                    return "/".join(parts[1:]) if len(parts) > 1 else "."
                log = [(x[0], x[1], strip(x[2])) if x[0] in ("save_state", "wrote")
                       else ((x[0], strip(x[1])) if x[0] == "mkdir" else x) for x in log]
                log = [x for x in log if not (x[0] == "mkdir" and x[1] == ".")]
                problems, rec.problems = rec.problems, []
                saved_dir = holder.get("p")
                mon.event("save_state", log, exc)
                save_paths = mon.save(log, problems, exc)
                lines.append("tree dispatch save_state")
                impl.append(show_ids(log, "save_state") if exc is None else f"err {exc}")
                lines.append("tree save_paths")
                impl.append(show_paths(log, "save_state"))
                lines.append("tree fs_ops")
                ops_seen = []
                for x in log:
                    if x[0] == "mkdir":
                        ops_seen.append("M:" + x[1])
                    elif x[0] == "save_state":
                        ops_seen.append(f"L{x[1]}:{x[2]}")
                impl.append("[" + ",".join(ops_seen) + "]")
                lines.append("tree run_fs")
                impl.append("ok" if exc is None else f"err {exc}")
                info["saved"] = True
            elif kind == "load_state":
                if saved_dir is None:
                    continue
                # load into a FRESH copy of the tree (new objects), as a restart does
                rec2 = Rec()
                rec2.root = saved_dir
                _CURRENT[0] = rec2
                inter2 = build(tree, rec2)
                store2 = StateStore(tmp / "states2", state_name_format="s%f.state")
                store2.register("interaction", inter2)
                exc = call(lambda: store2.load_state(saved_dir))
                log = rec2.take()
                _CURRENT[0] = rec
                mon.event("load_state", log, exc)
                mon.load(log, save_paths, exc)
                lines.append("tree dispatch load_state")
                impl.append(show_ids(log, "load_state") if exc is None else f"err {exc}")
                lines.append("tree load_paths")
                impl.append(show_paths(log, "load_state"))
            elif kind == "step":
                action_py = to_py(op[1])
                rec.next_action = action_py
                exc = call(inter.step)
                log = rec.take()
                mon.step(action_py, log, exc)
                seen = [x for x in log if x[0] == "agent_step"]
                obs = show_py(seen[0][2]) if seen else "?"
                dl = "[" + ",".join(f"{x[1]}={show_py(x[2])}" for x in log if x[0] == "deliver") + "]"
                lines.append(f"tree step {val_term(op[1])}")
                impl.append(f"obs={obs} log={dl} err={exc or 'none'}")
                if exc:
                    info["errors"][exc] += 1
            else:
                raise ValueError(kind)
    finally:
        _CURRENT[0] = None
        shutil.rmtree(tmp, ignore_errors=True)
    disagreement = None
    if driver is not None:
        replies = driver.batch(lines)
        for k, (ln, a, b) in enumerate(zip(lines, impl, replies)):
            b = b.replace("X:", "M:") if ln == "tree fs_ops" else b
            if a != b:
                disagreement = Disagreement("tree", f"line {k} `{ln[:200]}`: implementation {a!r}, "
                                                    f"model {b!r}", case)
                break
    return mon.violations, disagreement, info


# ------------------------------------------------------------------------------------------------
# Generators
# ------------------------------------------------------------------------------------------------
NAMES = ["a", "b", "c", "sensor", "wrapper", "actuator", "env", "agent", "x_1", "obs_wrapper"]


class Ids:
    def __init__(self) -> None:
        self.n = 0

    def __call__(self) -> int:
        self.n += 1
        return self.n


def relabel(t, ids: Ids):
    """Fresh distinct ids in pre-order (descriptions are enumerated with id 0 everywhere)."""
    k = t[0]
    if k == "I":
        return ["I", relabel(t[1], ids), relabel(t[2], ids)]
    if k == "A":
        i = ids()
        return ["A", i, [[n, relabel(c, ids)] for n, c in t[2]]]
    if k in ("E", "S", "C", "W", "F"):
        return [k, ids()]
    if k in ("SD", "CD"):
        return [k, [[n, relabel(c, ids)] for n, c in t[1]]]
    if k in ("SW", "CW", "EM"):
        return [k, relabel(t[1], ids), relabel(t[2], ids)]
    return ["EW", relabel(t[1], ids), relabel(t[2], ids), relabel(t[3], ids)]


def enum_agents(depth: int, fan: int):
    if depth == 0:
        return [["A", 0, []]]
    sub = enum_agents(depth - 1, fan)
    out = []
    for n in range(fan + 1):
        for combo in itertools.product(sub, repeat=n):
            out.append(["A", 0, [[NAMES[i], c] for i, c in enumerate(combo)]])
    return out


def enum_parts(kind: str, depth: int, fan: int):
    """kind 'S' or 'C': all sensors/actuators of depth <= depth."""
    leaf = [[kind, 0]]
    if depth == 0:
        return leaf
    sub = enum_parts(kind, depth - 1, fan)
    out = list(leaf)
    for n in range(fan + 1):
        for combo in itertools.product(sub, repeat=n):
            out.append([kind + "D", [[NAMES[i], c] for i, c in enumerate(combo)]])
    for s in sub:
        for w in ("W", "F"):
            out.append([kind + "W", s, [w, 0]])
    return out


def enum_envs(depth: int, fan: int):
    leaf = [["E", 0]]
    if depth == 0:
        return leaf
    out = list(leaf)
    for s in enum_parts("S", depth - 1, fan):
        for a in enum_parts("C", depth - 1, fan):
            out.append(["EM", s, a])
    for e in enum_envs(depth - 1, fan):
        for wo in ("W", "F"):
            for wa in ("W", "F"):
                out.append(["EW", e, [wo, 0], [wa, 0]])
    return out


def rand_agent(rng, depth, fan):
    n = rng.randint(0, fan) if depth > 0 else 0
    names = rng.sample(NAMES, n)
    return ["A", 0, [[nm, rand_agent(rng, depth - 1, fan)] for nm in names]]


def rand_part(rng, kind, depth, fan):
    r = rng.random()
    if depth == 0 or r < 0.25:
        return [kind, 0]
    if r < 0.65:
        names = rng.sample(NAMES, rng.randint(0, fan))
        return [kind + "D", [[nm, rand_part(rng, kind, depth - 1, fan)] for nm in names]]
    return [kind + "W", rand_part(rng, kind, depth - 1, fan), [rng.choice("WWF"), 0]]


def rand_env(rng, depth, fan):
    r = rng.random()
    if depth == 0 or r < 0.15:
        return ["E", 0]
    if r < 0.6:
        return ["EM", rand_part(rng, "S", depth - 1, fan), rand_part(rng, "C", depth - 1, fan)]
    return ["EW", rand_env(rng, depth - 1, fan), [rng.choice("WWF"), 0], [rng.choice("WWF"), 0]]


def action_for(tree, rng, src: int = 900, malformed: float = 0.0):
    """An action value of the shape the actuator side expects (optionally damaged)."""
    counter = [src]

    def atom():
        counter[0] += 1
        return ["v", counter[0], [] if rng is None or rng.random() < 0.7 else [rng.randrange(800, 810)]]

    def for_act(a):
        if a[0] == "C":
            if rng is not None and rng.random() < 0.15:   # a leaf may receive a structured value
                return ["d", [["p", atom()], ["q", atom()]]]
            return atom()
        if a[0] == "CW":
            return for_act(a[1])
        kvs = [[n, for_act(c)] for n, c in a[1]]
        if rng is not None:
            if malformed and kvs and rng.random() < malformed:
                r = rng.random()
                if r < 0.5:
                    del kvs[rng.randrange(len(kvs))]      # missing key -> KeyError
                elif r < 0.8:
                    return atom()                         # not a mapping -> TypeError
            if rng.random() < 0.2:
                kvs.append(["extra", atom()])             # unused key: ignored
            if rng.random() < 0.3:
                rng.shuffle(kvs)                          # key order of the action is irrelevant
        return ["d", kvs]

    def for_env(e):
        if e[0] == "E":
            return atom()
        if e[0] == "EM":
            return for_act(e[2])
        return for_env(e[1])
    return for_env(tree[2])


FULL_OPS = ["attach_inference_models", "attach_data_collectors", "setup", "on_paused", "on_resumed",
            "save_state", "load_state", "teardown"]


def make_case(tree0, rng, salt=0, malformed=0.0, shuffle=False):
    tree = relabel(tree0, Ids())
    ops = [[e] for e in FULL_OPS]
    steps = [["step", action_for(tree, rng, malformed=0.0)]]
    if rng is not None:
        for _ in range(rng.randint(0, 2)):
            steps.append(["step", action_for(tree, rng, malformed=malformed)])
        if shuffle:
            extra = [[rng.choice(FULL_OPS)] for _ in range(rng.randint(0, 4))]
            ops = ops + extra
            rng.shuffle(ops)
    pos = 3
    ops = ops[:pos] + steps + ops[pos:]
    return {"tree": tree, "ops": ops, "salt": salt}


def shape_key(t) -> str:
    """Tree shape with ids erased (for counting distinct cases)."""
    import re
    return re.sub(r"\d+", "", term(t))


def depth_of(t) -> int:
    k = t[0]
    if k == "I":
        return 1 + max(depth_of(t[1]), depth_of(t[2]))
    if k == "A":
        return 1 + max((depth_of(c) for _, c in t[2]), default=-1) if t[2] else 0
    if k in ("E", "S", "C", "W", "F"):
        return 0
    if k in ("SD", "CD"):
        return 1 + max((depth_of(c) for _, c in t[1]), default=0)
    if k in ("SW", "CW"):
        return 1 + depth_of(t[1])
    if k == "EM":
        return 1 + max(depth_of(t[1]), depth_of(t[2]))
    return 1 + depth_of(t[1])


def account(res: SuiteResult, case, vs, d, info) -> None:
    res.evaluations += 1
    res.violations += vs
    if d:
        res.disagreements.append(d)
    res.hit("events", info["events"])
    for k, n in info["errors"].items():
        res.hit("error:" + k, n)
    t = term(case["tree"])
    for tok in ("SD{", "CD{", "SW(", "CW(", "EM(", "EW(", "F"):
        if tok in t:
            res.hit("has:" + tok.strip("({"))
    res.hit(f"depth:{depth_of(case['tree'])}")


# ------------------------------------------------------------------------------------------------
# Suites
# ------------------------------------------------------------------------------------------------

def suite_corpus(ctx: Ctx) -> SuiteResult:
    res = SuiteResult("tree-corpus", rule="committed witnesses (corpus/C12), each distinct")
    for c in corpus_cases("C12"):
        vs, d, info = run_case(c["case"], ctx.driver)
        account(res, c["case"], vs, d, info)
        res.nontrivial.add(c["_corpus_file"])
        res.sample({"corpus": c["_corpus_file"]})
    return res


def suite_exhaustive(ctx: Ctx) -> SuiteResult:
    """Every tree whose agent side and environment side have depth <= 2 (fan-out <= 2), plus every
    sensor / actuator sub-tree of depth <= 2 under a modular environment."""
    res = SuiteResult("tree-exhaustive-small", exhaustive=True,
                      rule="all interactions agent(depth<=2, fan-out<=2) x environment(depth<=2, "
                           "fan-out<=2), and ModularEnvironment over every sensor/actuator tree of "
                           "depth<=2; each runs the 8 events, a real save, a load into a fresh tree "
                           "and one step; non-trivial = contains at least one composite; distinct "
                           "= by tree shape")
    agents = enum_agents(2, 2)
    envs = enum_envs(2, 2)
    extra_envs = [["EM", s, ["C", 0]] for s in enum_parts("S", 2, 2)] + \
                 [["EM", ["S", 0], a] for a in enum_parts("C", 2, 2)]
    cases = [["I", a, e] for a in agents for e in envs] + \
            [["I", agents[k % len(agents)], e] for k, e in enumerate(extra_envs)]
    salt = ctx.seed
    for k, t in enumerate(cases):
        case = make_case(t, None, salt=salt + k)
        vs, d, info = run_case(case, ctx.driver)
        account(res, case, vs, d, info)
        if depth_of(case["tree"]) >= 2:
            res.nontrivial.add(shape_key(case["tree"]))
        if k % 400 == 7:
            res.sample({"tree": term(case["tree"])})
        if len(res.violations) > 20 or len(res.disagreements) > 20:
            break
    res.extra["agents"] = len(agents)
    res.extra["environments"] = len(envs) + len(extra_envs)
    return res


def suite_random(ctx: Ctx) -> SuiteResult:
    res = SuiteResult("tree-random-deep",
                      rule="seeded random trees, depth <= 4 below the interaction, fan-out <= 3, "
                           "names drawn from a pool that includes the composites' own sub-path "
                           "names; events in random order with repetitions, 1-3 steps with "
                           "well-formed and damaged actions (missing key, atom for mapping, extra "
                           "key, permuted keys); non-trivial = depth >= 3; distinct = by tree shape")
    rng = ctx.rng
    for k in range(ctx.n(350, 7000)):
        t = ["I", rand_agent(rng, rng.randint(0, 4), 3), rand_env(rng, rng.randint(0, 4), 3)]
        case = make_case(t, rng, salt=rng.randrange(1000), malformed=0.35, shuffle=rng.random() < 0.5)
        vs, d, info = run_case(case, ctx.driver)
        account(res, case, vs, d, info)
        if depth_of(case["tree"]) >= 3:
            res.nontrivial.add(shape_key(case["tree"]))
        res.sample({"tree": term(case["tree"]), "ops": [o[0] for o in case["ops"]]})
        if len(res.violations) > 20 or len(res.disagreements) > 20:
            break
    return res


def failing_setup_case(t, bad: int, everyone=None) -> list[Violation]:
    if everyone is None:
        rec = Rec()
        inter = build(t, rec)
        inter.setup()
        rec.take()
        inter.teardown()
        everyone = [x[1] for x in rec.take() if x[0] == "teardown"]
    rec2 = Rec()
    rec2.raise_setup = {bad}
    inter2 = build(t, rec2)
    try:
        inter2.setup()
    except RuntimeError:
        pass
    log1 = rec2.take()
    inter2.teardown()
    log2 = rec2.take()
    case = {"tree": t, "failing_setup": bad, "kind": "failing-setup"}
    counts = Counter(x[1] for x in log1 + log2 if x[0] == "teardown")
    scount = Counter(x[1] for x in log1 if x[0] == "setup")
    if any(c > 1 for c in counts.values()) or any(c > 1 for c in scount.values()):
        return [Violation("tree:event-more-often-than-issued",
                          f"setup of leaf {bad} raises; after one setup and one teardown issued at the root the leaves saw "
                          f"teardown {dict(counts)} and setup {dict(scount)} times", case)]
    if sorted(counts) != sorted(set(everyone)):
        return [Violation("tree:teardown-not-everywhere",
                          f"setup of leaf {bad} raises; the teardown issued afterwards reached {sorted(counts)}, "
                          f"not every leaf {sorted(set(everyone))}", case)]
    return []


def suite_failing_setup(ctx: Ctx) -> SuiteResult:
    """One leaf's `setup()` raises; the owner then issues `teardown` once (what the inference thread does in its
    `finally`): no component sees an event more often than it was issued at the root. Monitor only - the model has no
    failing callbacks."""
    res = SuiteResult("tree-failing-setup",
                      rule="random trees; the setup() of one leaf raises; root.setup() (the exception comes out), then "
                           "root.teardown() once: every leaf sees setup at most once and teardown at most once, and "
                           "teardown reaches every leaf; monitor only; non-trivial = the failing leaf is not the first "
                           "to be set up")
    rng = ctx.rng
    for k in range(ctx.n(120, 2000)):
        t = ["I", rand_agent(rng, rng.randint(0, 3), 3), rand_env(rng, rng.randint(0, 3), 3)]
        t = make_case(t, rng, salt=rng.randrange(1000), malformed=0.0, shuffle=False)["tree"]     # numbered leaves
        rec = Rec()
        inter = build(t, rec)
        inter.setup()
        order = [x[1] for x in rec.take() if x[0] == "setup"]
        inter.teardown()
        everyone = [x[1] for x in rec.take() if x[0] == "teardown"]
        if not order:
            continue
        bad = rng.choice(order)
        res.evaluations += 1
        if order.index(bad) > 0:
            res.nontrivial.add((shape_key(t), order.index(bad)))
        vs = failing_setup_case(t, bad, everyone)
        res.hit("violation" if vs else "ok")
        res.violations += vs
    res.sample({"tree": term(t)})
    return res


suite_failing_setup.needs_driver = False


MALFORMED = [
    "tree reset I(A1{x:A2{},x:A3{}},E4)",            # duplicate child name
    "tree reset I(A1{},EM(SD{a:S2,a:S3},C4))",       # duplicate sensor name
    "tree reset I(A1{},E2",                          # unbalanced
    "tree reset I(E1,A2{})",                         # wrong sorts
    "tree reset I(A1{},EM(C2,S3))",                  # sensor/actuator swapped
    "tree reset I(A1{},EW(E2,W3))",                  # missing wrapper
    "tree reset I(A1{},SW(S2,W3))",                  # sensor where an environment is needed
    "tree reset I(A1{:A2{}},E3)",                    # empty name
    "tree reset",
    "tree dispatch setup",                           # no tree after a failed reset
    "tree reset I(A1{},E2)",
    "tree dispatch start",                           # unknown event
    "tree dispatch",
    "tree step",
    "tree step v1",                                  # malformed value
    "tree step d{a:v1[],a:v2[]}",                    # duplicate key
    "tree step d{a:v1[]",
    "tree observe now",
    "tree frobnicate",
]
MALFORMED_EXPECT = ["bad-op"] * 10 + ["ok"] + ["bad-op"] * 8


def suite_malformed(ctx: Ctx) -> SuiteResult:
    res = SuiteResult("tree-malformed-stream",
                      rule="ill-formed driver lines must answer bad-op (never defaulted); on the "
                           "implementation side the corresponding inputs are rejected by Python "
                           "itself (dict keys are unique, constructors are typed); distinct = by line")
    if ctx.driver is None:
        return res
    replies = ctx.driver.batch(MALFORMED)
    for ln, want, got in zip(MALFORMED, MALFORMED_EXPECT, replies):
        res.evaluations += 1
        res.nontrivial.add(ln)
        res.hit("reply:" + got)
        if want != got:
            res.disagreements.append(Disagreement("tree-malformed", f"`{ln}` answered {got!r}, "
                                                                    f"expected {want!r}", {"line": ln}))
    res.sample({"lines": MALFORMED[:4]})
    return res


def run_launch_case(case: dict, driver):
    """The real `launch()` on a recording tree: fresh start, then restart from the saved state."""
    from pamiq_core import LaunchConfig, launch
    install_hook()
    tree = case["tree"]
    mon = Monitor(case)
    lines = [f"tree reset {term(tree)}"]
    impl = ["ok"]
    tmp = Path(tempfile.mkdtemp(prefix="pamiq-verif."))
    try:
        saved = None
        for round_ in range(2):
            rec = Rec()
            rec.styles = assign_styles(tree, case.get("salt", 0))
            rec.none_sources = assign_none_sources(tree, case.get("salt", 0))
            rec.root = tmp
            rec.next_action = to_py(case["action"])
            _CURRENT[0] = rec
            inter = build(tree, rec)
            exc = call(lambda: launch(inter, {}, {}, {}, LaunchConfig(
                states_dir=tmp / f"states{round_}", state_name_format="final.state",
                saved_state_path=saved, web_api_address=None, max_uptime=0.002,
                log_tick_time_statistics_interval=1e9)))
            log = rec.take()
            if exc is not None:
                mon.bad("launch:raised", f"launch() raised {exc}")
            base = f"states{round_}/final.state/"
            rel = lambda p: p[len(base):] if p.startswith(base) else p   # noqa: E731
            order = []
            for x in log:
                if x[0] in EVENTS and (not order or order[-1] != x[0]):
                    order.append(x[0])
            want_order = ATTACH + (["load_state"] if saved else []) + ["setup", "teardown", "save_state"]
            if order != want_order:
                mon.bad("launch:event-order", f"round {round_}: callbacks came as {order}, "
                                              f"expected {want_order}")
            for e in want_order:
                mon.event(e, log, None)
                lines.append(f"tree dispatch {e}")
                impl.append(show_ids(log, e))
            sv = [(x[0], x[1], rel(x[2])) for x in log if x[0] == "save_state"]
            save_paths = mon.save(sv, rec.problems, None)
            lines.append("tree save_paths")
            impl.append(show_paths(sv, "save_state"))
            if saved:
                old = f"states{round_ - 1}/final.state/"
                ld = [(x[0], x[1], x[2][len(old):] if x[2].startswith(old) else x[2]) + tuple(x[3:])
                      for x in log if x[0] in ("load_state", "read", "read-failed")]
                mon.load(ld, save_paths, None)
                lines.append("tree load_paths")
                impl.append(show_paths(ld, "load_state"))
            # every step of the inference thread obeys the data-path clause (the action is the
            # same in every step, so the data events of the run are n_steps equal blocks)
            data = [x for x in log if x[0] in ("observe", "wrap", "agent_step", "deliver")]
            n_steps = sum(1 for x in data if x[0] == "agent_step")
            if n_steps == 0 or len(data) % n_steps:
                mon.bad("launch:steps", f"round {round_}: {n_steps} agent steps, {len(data)} data events")
            else:
                size = len(data) // n_steps
                for k in range(0, len(data), size):
                    mon.step(rec.next_action, data[k:k + size], None)
            saved = tmp / f"states{round_}" / "final.state"
    finally:
        _CURRENT[0] = None
        shutil.rmtree(tmp, ignore_errors=True)
    disagreement = None
    if driver is not None:
        replies = driver.batch(lines)
        for k, (ln, a, b) in enumerate(zip(lines, impl, replies)):
            if a != b:
                disagreement = Disagreement("tree-launch", f"line {k} `{ln[:200]}`: implementation "
                                                           f"{a!r}, model {b!r}", case)
                break
    return mon.violations, disagreement, {"events": len(lines), "errors": Counter(), "steps": n_steps}


def suite_launch(ctx: Ctx) -> SuiteResult:
    res = SuiteResult("tree-real-launch",
                      rule="real launch() (control, inference and training threads) on random "
                           "recording trees with no models/buffers/trainers, max_uptime 2 ms, then "
                           "a second launch from the saved state; per-event callback lists, save "
                           "and load paths compared with the model, every completed step checked "
                           "by the monitor; non-trivial = depth >= 2; distinct = by tree shape")
    import random
    rng = random.Random(ctx.seed * 7919 + 13)
    for _ in range(ctx.n(25, 400)):
        t = ["I", rand_agent(rng, rng.randint(0, 3), 3), rand_env(rng, rng.randint(0, 3), 3)]
        tree = relabel(t, Ids())
        case = {"launch": True, "tree": tree, "action": action_for(tree, rng), "salt": rng.randrange(100)}
        vs, d, info = run_launch_case(case, ctx.driver)
        account(res, case, vs, d, info)
        res.hit("steps", info["steps"])
        if depth_of(tree) >= 2:
            res.nontrivial.add(shape_key(tree))
        res.sample({"tree": term(tree)}, limit=1)
        if len(res.violations) > 10 or len(res.disagreements) > 10:
            break
    return res


def run_any(case: dict, driver):
    return run_launch_case(case, driver) if case.get("launch") else run_case(case, driver)


def search(ctx: Ctx, disagreements, broken):
    """§5: look for a concrete tree on which the property fails on the implementation."""
    import random
    out: list[Violation] = []
    for d in disagreements:
        if isinstance(d.case, dict) and "tree" in d.case:
            vs, _, _ = run_any(d.case, None)
            out += vs
    if out:
        return out
    for c in corpus_cases("C12"):
        vs, _, _ = run_any(c["case"], None)
        out += vs
    if out:
        return out
    agents = enum_agents(2, 2)
    envs = enum_envs(2, 2)
    for k, (a, e) in enumerate(itertools.product(agents, envs)):
        vs, _, _ = run_case(make_case(["I", a, e], None, salt=k), None)
        if vs:
            return vs
    rng = random.Random(ctx.seed + 1)
    for _ in range(ctx.n(3000, 30000)):
        t = ["I", rand_agent(rng, rng.randint(0, 4), 3), rand_env(rng, rng.randint(0, 4), 3)]
        vs, _, _ = run_case(make_case(t, rng, salt=rng.randrange(1000), malformed=0.3,
                                      shuffle=True), None)
        if vs:
            return vs
    for _ in range(ctx.n(100, 1000)):
        t = ["I", rand_agent(rng, rng.randint(0, 3), 3), rand_env(rng, rng.randint(0, 3), 3)]
        tree = relabel(t, Ids())
        vs, _, _ = run_launch_case({"launch": True, "tree": tree, "action": action_for(tree, rng),
                                    "salt": 0}, None)
        if vs:
            return vs
    return out


def replay(ctx: Ctx, payload: dict) -> SuiteResult:
    res = SuiteResult("replay")
    case = payload.get("case") or payload.get("first_disagreement")
    if case.get("kind") == "failing-setup":
        res.violations = failing_setup_case(case["tree"], case["failing_setup"])
        res.evaluations = 1
        return res
    vs, d, info = run_any(case, ctx.driver)
    res.evaluations = 1
    res.violations = vs
    if d:
        res.disagreements.append(d)
    print("tree:", term(case["tree"]))
    return res


if __name__ == "__main__":
    setup_repo_path()
    sys.exit(run_check(
        "C12", lean_modules=["Pamiq.Props.C12"],
        required_theorems=["Pamiq.Tree.dispatch_once", "Pamiq.Tree.paths_injective",
                           "Pamiq.Tree.load_paths_eq_save_paths", "Pamiq.Tree.parents_exist",
                           "Pamiq.Tree.save_never_fails", "Pamiq.Tree.data_path_observe",
                           "Pamiq.Tree.data_path_affect", "Pamiq.Tree.dict_routes_read",
                           "Pamiq.Tree.dict_routes_operate"],
        suites=[suite_corpus, suite_malformed, suite_exhaustive, suite_random, suite_failing_setup, suite_launch],
        search=search, replay=replay,
        assumptions=["child names are single path components (no separator, not '.' or '..'): the "
                     "model's paths are lists of components",
                     "a component object occurs at one place of the tree (distinct ids); sharing "
                     "one object between two places is outside the property",
                     "user components call super() in their overrides (as the user guide "
                     "prescribes) and use the path they are handed as a file or a directory of "
                     "their own; an agent with children creates its directory with exist_ok=True",
                     "wrapper transformations are arbitrary user code: the harness wrappers append "
                     "their id to every atom of the value so that order and multiplicity are visible",
                     "the save runs into a fresh state directory (StateStore creates it)"],
        trusted_extra=["recording leaf classes and the os.mkdir audit hook of harness/corr/c12.py"],
        level_text="structural-induction theorems over all component trees (dispatch, paths, file "
                   "system operations, data paths) + correspondence of the model with the real "
                   "composite classes, including real launch() runs"))
