"""C18 — state retention keeps the newest states and deletes nothing else.

Correspondence: histories of append / cleanup / removals and creations by somebody else are run on
the real `LatestStatesKeeper` over real directories (under one `tempfile.mkdtemp` root, removed
at the end; modification times set with `os.utime` to distinct values) and on the Lean model
(`Pamiq/Model/Keeper.lean`); after every cleanup the returned list of removed paths and the
directory listing are compared for equality. Monitor: the three clauses of the property written
directly in Python on the directory listings, independent of the Lean model.
"""
from __future__ import annotations

import fnmatch
import itertools
import logging
import os
import shutil
import sys
import tempfile
from pathlib import Path

sys.path.insert(0, str(Path(__file__).resolve().parent.parent))
from framework import (Ctx, Disagreement, SuiteResult, Violation, corpus_cases, run_check,
                       setup_repo_path, show_list)

MTIME0 = 1_600_000_000
# the keeper logs every removal and a warning for a missing directory: not part of the comparison
logging.getLogger("pamiq_core").addHandler(logging.NullHandler())
logging.getLogger("pamiq_core").propagate = False
_ROOT: Path | None = None
_COUNTER = 0


def root() -> Path:
    global _ROOT
    if _ROOT is None:
        _ROOT = Path(tempfile.mkdtemp(prefix="pamiq-verif."))
    return _ROOT


def cleanup_root() -> None:
    global _ROOT
    if _ROOT is not None:
        shutil.rmtree(_ROOT, ignore_errors=True)
        _ROOT = None


def make_entry(path: Path, kind: str) -> None:
    if kind == "d":
        path.mkdir(parents=True)
        (path / "model.pkl").write_bytes(b"x")      # a state directory is not empty
    else:
        path.parent.mkdir(parents=True, exist_ok=True)
        path.write_bytes(b"f")


def remove_any(path: Path) -> None:
    if path.is_dir() and not path.is_symlink():
        shutil.rmtree(path)
    elif path.exists():
        path.unlink()


def listing(base: Path) -> list[str]:
    """Entries of the two directories, and what foreign directories contain (one level down;
    `model.pkl` is the content every state directory gets and goes with it)."""
    out = []
    for sub in ("states", "other"):
        d = base / sub
        if d.is_dir():
            for p in d.iterdir():
                out.append(f"{sub}/{p.name}")
                if p.is_dir():
                    out += [f"{sub}/{p.name}/{q.name}" for q in p.iterdir() if q.name != "model.pkl"]
    return sorted(out)


def run_case(case: dict, driver):
    """One history on the implementation (+ monitor) and on the model.
    Returns (violations, disagreement-or-None, trace)."""
    global _COUNTER
    from pamiq_core.state_persistence import LatestStatesKeeper
    _COUNTER += 1
    base = root() / f"case{_COUNTER}"
    states, other = base / "states", base / "other"
    other.mkdir(parents=True)
    malformed = bool(case.get("malformed"))
    violations: list[Violation] = []
    lines: list[str] = []
    impl: list[str] = []
    trace: list[str] = []
    max_keep = case["max_keep"]
    pattern = case.get("pattern")
    entries = case.get("entries", [])
    extra = case.get("extra", [])

    def viol(key, what):
        violations.append(Violation(key, what, case))

    try:
        if not case.get("missing_dir"):
            states.mkdir()
            for name, kind, _m in entries:
                make_entry(states / name, kind)
        for rel, kind in extra:
            make_entry(base / rel, kind)
        if not case.get("missing_dir"):
            for name, _k, m in entries:
                # pre-existing states may carry modification times ahead of the local clock (restored
                # backup, clock stepped back): `mtime_base` is either far in the past or in the future
                t0 = case.get("mtime_base", MTIME0)
                os.utime(states / name, (t0 + m, t0 + m))
        ls_arg = [] if case.get("missing_dir") else entries
        line = (f"keeper new keep={max_keep} dir=states"
                + (f" pat={pattern}" if pattern is not None else "")
                + " ls=" + show_list(ls_arg, lambda e: f"{e[0]}:{e[1]}:{e[2]}")
                + " extra=" + show_list(extra, lambda e: f"{e[0]}:{e[1]}"))
        try:
            keeper = (LatestStatesKeeper(states, max_keep) if pattern is None
                      else LatestStatesKeeper(states, max_keep, pattern))
            out = "ok"
        except Exception as e:
            keeper = None
            out = "err " + type(e).__name__
        lines.append(line)
        impl.append(out)
        trace.append("ctor:" + out)
        if max_keep < 0 and out != "err ValueError":
            viol("keeper:negative-max-keep-accepted", f"LatestStatesKeeper(max_keep={max_keep}) answered {out!r}")
        if max_keep >= 0 and keeper is None:
            viol(f"keeper:ctor-raised:{out[4:]}", f"LatestStatesKeeper(max_keep={max_keep}) raised {out[4:]}")
        if keeper is None:
            return violations, _compare(driver, lines, impl, case), trace

        # ---- monitor reference (its own reading of the property) ----
        pat = pattern if pattern is not None else "*.state"
        init = sorted((e for e in ls_arg if fnmatch.fnmatchcase(e[0], pat)), key=lambda e: e[2])
        tracked = [f"states/{e[0]}" for e in init]          # oldest first
        allowed = set(tracked)                               # found at start-up or given later
        k = max_keep

        for op in case["ops"]:
            kind = op[0]
            if kind == "append":
                rel, create = op[1], op[2]
                p = base / rel
                if create and not p.exists():
                    make_entry(p, "d")
                try:
                    keeper.append(p)
                    aout = "ok"
                except Exception as e:     # an implementation that cannot take this path: reported as a
                    aout = "err " + type(e).__name__   # disagreement with the model, not a harness crash
                exists_now = p.exists()
                lines.append(("keeper append " if exists_now else "keeper append_missing ") + rel)
                impl.append(aout)
                if rel in tracked:
                    tracked.remove(rel)          # saved again under the same name: its newest incarnation counts
                tracked.append(rel)
                allowed.add(rel)
                trace.append("append" if exists_now else "append-missing")
            elif kind == "ext_remove":
                remove_any(base / op[1])
                lines.append("keeper ext_remove " + op[1])
                impl.append("ok")
                trace.append("ext_remove")
            elif kind == "ext_create":
                if not (base / op[1]).exists():
                    make_entry(base / op[1], op[2])
                lines.append(f"keeper ext_create {op[1]} {op[2]}")
                impl.append("ok")
                trace.append("ext_create")
            elif kind == "select":
                got = [str(Path(p).relative_to(base)) for p in keeper.select_removal_states()]
                lines.append("keeper select")
                impl.append(show_list(got))
                trace.append(f"select:{len(got)}")
            elif kind == "cleanup":
                before = set(listing(base))
                try:
                    removed = [str(Path(p).relative_to(base)) for p in keeper.cleanup()]
                    err = None
                except Exception as e:
                    removed, err = [], type(e).__name__
                after_l = listing(base)
                after = set(after_l)
                lines.append("keeper cleanup")
                if err is None:
                    impl.append(f"{show_list(removed)} ls={show_list(after_l)}")
                else:
                    impl.append(f"err {err} ls={show_list(after_l)}")
                trace.append(f"cleanup:{len(removed)}" if err is None else f"cleanup:err:{err}")
                if malformed and case.get("malformed_kind") != "files":
                    continue
                # ---- monitor: the three clauses ----
                newest = tracked[-k:] if k > 0 else []
                older = tracked[:len(tracked) - k] if len(tracked) > k else []
                for p in newest:
                    if (p in before and p not in after) or p in removed:
                        viol("keeper:deleted-newest",
                             f"max_keep={k}: {p} is among the {k} most recently saved states "
                             f"{newest} and was deleted by cleanup()")
                if malformed:
                    # a removal failed or may fail (a regular file among the tracked paths): what is
                    # deleted of the older ones is unspecified, the newest stay protected
                    tracked = newest
                    continue
                if err is not None:
                    viol(f"keeper:cleanup-raised:{err}", f"cleanup() raised {err}")
                for p in older:
                    if p in after:
                        viol("keeper:older-kept",
                             f"max_keep={k}: {p} is older than the {k} newest tracked states "
                             f"{newest} and still exists after cleanup()")
                for p in sorted(before - after):
                    if p not in allowed:
                        viol("keeper:foreign-deleted",
                             f"cleanup() deleted {p}, which was neither found at start-up under the "
                             f"pattern {pat!r} nor appended")
                for p in removed:
                    if p not in before or p in after or p not in allowed:
                        viol("keeper:removed-list", f"cleanup() reports {p} as removed "
                             f"(existed before: {p in before}, exists after: {p in after})")
                if set(removed) != before - after:
                    viol("keeper:removed-list", f"cleanup() returned {removed}, the listing lost "
                         f"{sorted(before - after)}")
                if after - before:
                    viol("keeper:created", f"cleanup() created {sorted(after - before)}")
                if not states.is_dir() or not other.is_dir():
                    viol("keeper:foreign-deleted", "cleanup() removed the directory that holds the states")
                tracked = newest
            else:
                raise ValueError(f"unknown op {kind}")
        return violations, _compare(driver, lines, impl, case), trace
    finally:
        shutil.rmtree(base, ignore_errors=True)


def _compare(driver, lines, impl, case):
    if driver is None:
        return None
    replies = driver.batch(lines)
    for i, (ln, a, b) in enumerate(zip(lines, impl, replies)):
        if a != b:
            return Disagreement("keeper", f"line {i} `{ln[:200]}`: implementation {a[:200]!r}, "
                                f"model {b[:200]!r}", case)
    return None


# ------------------------------------------------------------------------------------------------
# generators

PATTERNS = [None, None, None, "*.state", "ckpt_*", "*", "s?.state", "*.st*"]
FOREIGN = [("notes.txt", "f"), ("tmp", "d"), ("x.state.bak", "f"), ("y.state.bak", "d"),
           (".hidden", "f"), ("STATE", "d"), ("a.State", "d"), ("readme", "f"), ("state", "d")]


def matching_name(rng, pattern: str | None, i: int) -> str:
    pat = pattern or "*.state"
    t = rng.randrange(10 ** 4)
    if pat == "ckpt_*":
        return f"ckpt_{t}-{i}"
    if pat == "s?.state":
        return f"s{'abcdefghijklmnopqrstuvwxyz0123456789'[i % 36]}.state"
    if pat == "*":
        return rng.choice([f"d{t}-{i}", f"{t}-{i}.state"])
    if pat == "*.st*":
        return rng.choice([f"{t}-{i}.state", f"{t}-{i}.st", f"{t}-{i}.stuff"])
    return rng.choice([f"{t}-{i}.state", f".h{t}-{i}.state", f"z{t}_{i}.state"])


def gen_case(rng, max_ops: int = 14) -> dict:
    pattern = rng.choice(PATTERNS)
    pat = pattern or "*.state"
    max_keep = rng.choice([0, 1, 1, 2, 2, 3, 4, 5, 8])
    n_match = rng.choice([0, 1, 2, 3, 4, 5, 6, 8])
    names = []
    for i in range(n_match):
        names.append((matching_name(rng, pattern, i), "d"))
    for name, kind in rng.sample(FOREIGN, rng.randint(0, 4)):
        if not fnmatch.fnmatchcase(name, pat):
            names.append((name, kind))
    seen = set()
    names = [n for n in names if not (n[0] in seen or seen.add(n[0]))]
    rng.shuffle(names)
    mtimes = rng.sample(range(1, 10 * len(names) + 10), len(names))
    entries = [[n, kd, m] for (n, kd), m in zip(names, mtimes)]
    extra = [[f"other/{n}", kd] for n, kd in rng.sample(FOREIGN, rng.randint(0, 2))]
    # foreign directories may contain entries whose names match the pattern (the scan is not recursive)
    nested_parents = set()
    for n, kd in names:
        if kd == "d" and not fnmatch.fnmatchcase(n, pat) and rng.random() < 0.5:
            extra.append([f"states/{n}/{matching_name(rng, pattern, 90)}", rng.choice(["d", "d", "f"])])
            nested_parents.add(f"states/{n}")
    case: dict = {"max_keep": max_keep, "pattern": pattern, "entries": entries, "extra": extra, "ops": []}
    if rng.random() < 0.3:
        case["mtime_base"] = 4_000_000_000     # year 2096: ahead of every directory created during the case
    if rng.random() < 0.05:
        case["missing_dir"] = True
        case["extra"] = extra = [e for e in extra if e[0].startswith("other/")]
        nested_parents = set()
    # a light simulation to pick meaningful targets
    tracked = [f"states/{e[0]}" for e in sorted(entries, key=lambda e: e[2])
               if fnmatch.fnmatchcase(e[0], pat) and not case.get("missing_dir")]
    existing = set(f"states/{e[0]}" for e in entries) if not case.get("missing_dir") else set()
    existing |= {e[0] for e in extra if e[0].count("/") == 1}
    fresh = 0
    ops = []
    gone: list[str] = []        # names the keeper has cleaned up: a later save may use one of them again
    for _ in range(rng.randint(1, max_ops)):
        t = rng.random()
        if t < 0.42:
            fresh += 1
            where = "states" if rng.random() < 0.8 else "other"
            rel = f"{where}/n{fresh}-{rng.randrange(1000)}" + (".state" if rng.random() < 0.8 else "")
            create = rng.random() < 0.93
            back = [p for p in gone if p not in existing] + [p for p in tracked if p not in existing]
            if back and rng.random() < 0.3:
                # a state name format that cycles (time of day, a ring of slots, one rolling checkpoint): the same path
                # comes back - after the keeper cleaned it up, or after somebody moved the directory away while the
                # keeper still tracks it (StateStore refuses a directory that exists, so only absent ones return)
                rel = rng.choice(back)
                if rel in gone:
                    gone.remove(rel)
                if rel in tracked:
                    tracked.remove(rel)
                create = True
            ops.append(["append", rel, create])
            tracked.append(rel)
            if create:
                existing.add(rel)
        elif t < 0.75:
            ops.append(["cleanup"])
            keep = tracked[-max_keep:] if max_keep > 0 else []
            for p in tracked[:len(tracked) - len(keep)]:
                existing.discard(p)
                if p not in keep and p not in gone:
                    gone.append(p)
            tracked = keep
        elif t < 0.90 and existing:
            # somebody else removes something: often a tracked state, sometimes a foreign entry
            pool = ([p for p in tracked if p in existing] if rng.random() < 0.7
                    else sorted(existing - nested_parents))   # the model's paths are atomic
            if pool:
                p = rng.choice(pool)
                ops.append(["ext_remove", p])
                existing.discard(p)
        else:
            fresh += 1
            rel = f"{rng.choice(['states', 'other'])}/foreign{fresh}" + rng.choice(["", ".txt", ".state.bak"])
            if not fnmatch.fnmatchcase(rel.split('/')[1], pat) or True:
                ops.append(["ext_create", rel, rng.choice(["d", "f"])])
                existing.add(rel)
    if not any(o[0] == "cleanup" for o in ops):
        ops.append(["cleanup"])
    case["ops"] = ops
    return case


def gen_malformed(rng) -> dict:
    case = gen_case(rng, max_ops=10)
    case["malformed"] = True
    t = rng.random()
    if t < 0.25:
        case["max_keep"] = rng.choice([-1, -2, -10])
    elif t < 0.5:
        # regular files whose names match the pattern (rmtree fails on them: the clause "never deletes
        # one of the newest" must hold all the same, so that clause stays monitored)
        case["malformed_kind"] = "files"
        pat = case["pattern"] or "*.state"
        for i in range(rng.randint(1, 2)):
            name = matching_name(rng, case["pattern"], 30 + i)
            if all(e[0] != name for e in case["entries"]):
                case["entries"].append([name, "f", 500 + i * 7 + rng.randrange(5)])
        rng.shuffle(case["entries"])
        ms = rng.sample(range(1, 10 * len(case["entries"]) + 10), len(case["entries"]))
        for e, m in zip(case["entries"], ms):
            e[2] = m
    elif t < 0.8:
        # the same path appended twice / a start-up path appended again / direct select calls
        ops = case["ops"]
        appended = [o for o in ops if o[0] == "append"]
        parents = {"/".join(e[0].split("/")[:2]) for e in case["extra"] if e[0].count("/") == 2}
        init = [f"states/{e[0]}" for e in case["entries"] if f"states/{e[0]}" not in parents]
        for _ in range(rng.randint(1, 3)):
            c = rng.random()
            if c < 0.4 and appended:
                ops.insert(rng.randint(0, len(ops)), list(rng.choice(appended)))
            elif c < 0.7 and init:
                ops.insert(rng.randint(0, len(ops)), ["append", rng.choice(init), False])
            else:
                ops.insert(rng.randint(0, len(ops)), ["select"])
    else:
        case["ops"].insert(rng.randint(0, len(case["ops"])), ["select"])
    return case


def note(res: SuiteResult, case: dict, trace: list[str]) -> None:
    for t in trace:
        if t.startswith("cleanup:") and not t.startswith("cleanup:err"):
            res.hit("cleanup:removes" if t != "cleanup:0" else "cleanup:nothing")
        else:
            res.hit(t)
    res.hit("pattern:" + str(case.get("pattern")))
    res.hit(f"max_keep:{case['max_keep']}")


RULE = ("non-trivial = at least one cleanup removed something and the history has an append or a "
        "removal by somebody else before a cleanup; distinct = by (max_keep, pattern, number of "
        "start-up states, sequence of operation outcomes)")


def nontrivial_key(case, trace):
    removed_some = any(t.startswith("cleanup:") and t not in ("cleanup:0",) and "err" not in t for t in trace)
    if removed_some and any(t in ("append", "ext_remove", "append-missing") for t in trace):
        return (case["max_keep"], case.get("pattern"), len(case.get("entries", [])), tuple(trace))
    return None


def absorb(res: SuiteResult, case: dict, out) -> bool:
    vs, d, tr = out
    res.evaluations += 1
    note(res, case, tr)
    k = nontrivial_key(case, tr)
    if k is not None:
        res.nontrivial.add(k)
    res.violations += vs
    if d:
        res.disagreements.append(d)
    return len(res.violations) > 30 or len(res.disagreements) > 30


def suite_exhaustive(ctx: Ctx) -> SuiteResult:
    L = 4 if ctx.tier == "quick" else 5
    res = SuiteResult("keeper-exhaustive-small", exhaustive=True,
                      rule=f"corpus; then max_keep 0-2 x 0-3 start-up states (mtime order != name "
                           f"order) + a foreign file and directory x every history of length <= {L} "
                           "over {append a new state, cleanup, somebody removes the oldest start-up "
                           "state}. " + RULE)
    for c in corpus_cases("C18"):
        if absorb(res, c["case"], run_case(c["case"], ctx.driver)):
            return res
        res.hit("corpus")
    names = ["m.state", "a.state", "z.state"]          # mtime order m < a < z, name order a < m < z
    for max_keep in (0, 1, 2):
        for n0 in (0, 1, 2, 3):
            entries = [[names[i], "d", 10 * (i + 1)] for i in range(n0)]
            entries += [["notes.txt", "f", 5], ["tmp", "d", 7]]
            for n in range(1, L + 1):
                for combo in itertools.product(("append", "cleanup", "ext"), repeat=n):
                    if "ext" in combo and n0 == 0:
                        continue
                    ops, j = [], 0
                    for c in combo:
                        if c == "append":
                            j += 1
                            ops.append(["append", f"states/n{j}.state", True])
                        elif c == "cleanup":
                            ops.append(["cleanup"])
                        else:
                            ops.append(["ext_remove", "states/" + names[0]])
                    case = {"max_keep": max_keep, "pattern": None, "entries": entries, "extra": [],
                            "ops": ops}
                    if absorb(res, case, run_case(case, ctx.driver)):
                        return res
    res.sample({"case": case})
    return res


def suite_random(ctx: Ctx) -> SuiteResult:
    res = SuiteResult("keeper-random-histories",
                      rule="random start-up directories (0-8 matching state directories with distinct "
                           "mtimes, foreign files/directories, five patterns or the default, missing "
                           "directory) and random histories of append (existing or vanished path, "
                           "inside or outside the states directory) / cleanup / removal or creation "
                           "by somebody else. " + RULE)
    for _ in range(ctx.n(1200, 20000)):
        case = gen_case(ctx.rng)
        out = run_case(case, ctx.driver)
        res.sample({"case": case, "trace": out[2]})
        if absorb(res, case, out):
            break
    return res


def suite_malformed(ctx: Ctx) -> SuiteResult:
    res = SuiteResult("keeper-malformed",
                      rule="negative max_keep, regular files whose names match the pattern, the same "
                           "path appended twice, direct select_removal_states calls (model "
                           "correspondence only, except max_keep < 0 -> ValueError); non-trivial = "
                           "constructor rejected, cleanup raised, or a select call returned paths; "
                           "distinct = by outcome sequence")
    for _ in range(ctx.n(400, 6000)):
        case = gen_malformed(ctx.rng)
        vs, d, tr = run_case(case, ctx.driver)
        res.evaluations += 1
        note(res, case, tr)
        if any(t.startswith("ctor:err") or t.startswith("cleanup:err") or
               (t.startswith("select:") and t != "select:0") for t in tr):
            res.nontrivial.add((case["max_keep"], tuple(tr)))
        res.sample({"case": case, "trace": tr})
        res.violations += vs
        if d:
            res.disagreements.append(d)
        if len(res.violations) > 30 or len(res.disagreements) > 30:
            break
    return res


def search(ctx: Ctx, disagreements, broken):
    import random
    import syscheck
    out: list[Violation] = []
    sysd = [d for d in disagreements if isinstance(d.case, dict) and "scenario" in d.case]
    if sysd:
        out = syscheck.make_search("C18", ["C18"])(ctx, sysd, broken)
        if out:
            return out
    for d in disagreements:
        if isinstance(d.case, dict) and "scenario" in d.case:
            continue
        vs, _, _ = run_case(d.case, None)
        out += vs
    if out:
        return out
    rng = random.Random(ctx.seed + 1)
    for _ in range(ctx.n(8000, 80000)):
        case = gen_case(rng, max_ops=20)
        vs, _, _ = run_case(case, None)
        if vs:
            return vs
    return out


def replay(ctx: Ctx, payload: dict) -> SuiteResult:
    res = SuiteResult("replay")
    case = payload.get("case") or payload.get("first_disagreement")
    if isinstance(case, dict) and "scenario" in case:
        import syscheck
        return syscheck.make_replay("C18")(ctx, payload)
    vs, d, tr = run_case(case, ctx.driver)
    res.evaluations = 1
    res.violations = vs
    if d:
        res.disagreements.append(d)
    print("trace:", tr)
    return res


if __name__ == "__main__":
    setup_repo_path()
    import logging
    logging.disable(logging.CRITICAL)
    import syscheck
    sys_suites = syscheck.make_suites("C18", [("C18", 100, 2500)],
        "real launch() with a LatestStatesKeeper (max_keep 0-2) under seeded random schedules: saves by command and "
        "by condition, while running and while paused (PAUSE then SAVE_STATE), back to back; after every cleanup of "
        "the control loop the states directory must hold exactly the max_keep most recently saved states; traces "
        "also replayed through Pamiq.Proto / Pamiq.Tick; non-trivial = at least one runtime save")
    try:
        code = run_check(
            "C18", lean_modules=["Pamiq.Props.C18"],
            required_theorems=["Pamiq.Keeper.keeps_newest", "Pamiq.Keeper.tracked_nodup", "Pamiq.Keeper.as_found_deletes_newest",
                               "Pamiq.Keeper.removes_older",
                               "Pamiq.Keeper.touches_only_tracked", "Pamiq.Keeper.ctor_rejects_negative"],
            suites=[suite_exhaustive, suite_random, suite_malformed, *sys_suites], search=search, replay=replay,
            assumptions=[
                "modification times of the start-up states are distinct (the property's own premise)",
                "an appended path does not exist as a directory just before the save that creates it (StateStore.save_state "
                "creates the directory with mkdir and fails if it exists); it may be tracked already (a name that recurs)",
                "a state directory is one atomic path; tracked paths are not nested in each other",
                "paths matching the pattern are directories (a matching regular file makes "
                "shutil.rmtree raise NotADirectoryError: modelled, exercised in the malformed suite, "
                "outside the property's 'state directories')"],
            trusted_extra=["the operating system's directory operations and os.utime / st_mtime"],
            level_text="invariants over append / cleanup / foreign-change histories of the keeper "
                       "model (newest kept, older removed, only tracked paths touched) + "
                       "correspondence with LatestStatesKeeper on real directories")
    finally:
        cleanup_root()
    sys.exit(code)
