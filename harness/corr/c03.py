"""C03 — a failure in any thread stops the whole system (DESIGN §7.3)."""
import sys
from pathlib import Path
sys.path.insert(0, str(Path(__file__).resolve().parent.parent))
from framework import run_check, setup_repo_path
import syscheck

if __name__ == "__main__":
    setup_repo_path()
    import gentie
    sys.exit(run_check(
        "C03", lean_modules=["Pamiq.Props.C03", "Pamiq.Props.C03Tick"],
        required_theorems=["Pamiq.Tick.stops_iff", "Pamiq.Tick.reads_all", "Pamiq.Tick.fault_ends_loop", "Pamiq.Tick.drain_in_order", "Pamiq.Proto.raise_goes_to_exception_path", "Pamiq.Proto.exc_only_sets_flag", "Pamiq.Proto.fault_sets_flag", "Pamiq.Proto.exc_flag_stable", "Pamiq.Proto.ctl_sees_fault", "Pamiq.Proto.ctl_fault_forces_shutdown", "Pamiq.Proto.teardown_phase_is_final", "Pamiq.Proto.teardown_only_in_finally"],
        suites=[gentie.suite_for("C03")] + syscheck.make_suites("C03", [('C03', 330, 8000), ('any', 50, 2000)],
            "random scenarios (0-2 trainers, child agent, 1-3 attempts, queue 1-3, web commands incl. "
            "pause/resume/save/status/invalid, save condition, faults at every callback kind, interrupts, "
            "timed mode) x seeded random schedules of the real launch(); each trace replayed through "
            "Pamiq.Proto and checked by the C03 monitor; non-trivial = contains a pause attempt / save / "
            "fault / resume; distinct by (scenario, schedule)"),
        search=syscheck.make_search("C03", ["C03"]), replay=syscheck.make_replay("C03"),
        assumptions=syscheck.PROTO_ASSUMPTIONS, trusted_extra=syscheck.PROTO_TRUSTED,
        level_text="theorems about the thread-protocol model Pamiq.Proto for every number of threads, "
                   "retry limit, fault point and interleaving; implementation traces are traces of the model"))
