"""C10 — a crash while saving never damages older states nor yields a loadable torn one.

What is run against the code (all on real file systems below `tempfile.mkdtemp(prefix='pamiq-verif.')`):

* fork suite: a helper process builds a real system (same registration as `launch()`), writes an
  older complete state with the real `StateStore`, then — once per file-system operation `k` of a
  save — forks a process that performs the real `StateStore.save_state()` under a
  `sys.addaudithook` hook and dies (`os._exit`) when it is about to make its `k`-th operation
  (`os.mkdir`, `open` for writing, and anything else that modifies the tree).  The recorded
  operation sequence is compared with the model's `saveOps`; the older state directory is hashed
  before/after; every torn directory — and, for every file, every truncation length (all lengths up
  to 512 bytes, sampled above) — is loaded with the real `StateStore.load_state` into freshly
  constructed objects whose user components accept missing files, and must raise; the exception
  class is compared with the model's `load (crash k l …)`.
* launch suite: the same with the real `launch()` in child processes: the final save (and a
  runtime save triggered by `save_state_condition`) is killed at every operation; sampled torn
  directories are handed to a real `launch(saved_state_path=…)` in a fresh child, which must raise
  before any thread object is constructed and before any component `setup()`.
* shape suite: an `ast` reading of launcher.py (registration order, position of `load_state`
  relative to the construction of the three threads, the `finally` order) compared with the
  model's `launch_order`.
* pickle-prefix suite: `pickle.load` on every proper prefix of real state files (assumption of the
  model, validated on the actual bytes).
* thorough tier: real SIGKILL at random instants during repeated saves of a larger system.
"""
from __future__ import annotations

import ast
import json
import os
import pickle
import shutil
import signal
import subprocess
import sys
import tempfile
import time as _time
from concurrent.futures import ThreadPoolExecutor
from fractions import Fraction as F
from pathlib import Path

sys.path.insert(0, str(Path(__file__).resolve().parent.parent))
sys.path.insert(0, str(Path(__file__).resolve().parent))
from framework import (REPO, Ctx, Disagreement, SuiteResult, Violation, corpus_cases, run_check,
                       setup_repo_path)
import persist_common as pc

NEW, OLD = "new.state", "old.state"
EXIT_AT = 77


# ------------------------------------------------------------------------------------------------
# audit hook (installed in the processes that are going to die)
# ------------------------------------------------------------------------------------------------

class OpHook:
    """Records every operation that modifies the tree strictly below `root`; dies before the
    `k`-th one when `exit_at == k`."""

    MODIFYING = {"os.mkdir", "os.remove", "os.rename", "os.rmdir", "os.truncate", "os.link",
                 "os.symlink", "shutil.rmtree", "os.chmod", "os.utime"}

    def __init__(self, root: str, exit_at: int | None) -> None:
        self.root = os.path.abspath(root)
        self.exit_at = exit_at
        self.ops: list[list[str]] = []
        self.armed = False

    def _below(self, p) -> str | None:
        try:
            p = os.path.abspath(os.fspath(p))
        except TypeError:
            return None
        if p.startswith(self.root + os.sep):
            return os.path.relpath(p, self.root)
        return None

    def __call__(self, event: str, args) -> None:
        if not self.armed:
            return
        kind = rel = None
        if event == "open":
            path, mode, flags = args[0], args[1], args[2]
            writing = (isinstance(mode, str) and any(c in mode for c in "wax+")) or \
                      (mode is None and isinstance(flags, int) and flags & (os.O_WRONLY | os.O_RDWR | os.O_CREAT))
            if writing and isinstance(path, (str, bytes, os.PathLike)):
                rel = self._below(path)
                kind = "open"
        elif event in self.MODIFYING:
            rel = self._below(args[0])
            kind = "mkdir" if event == "os.mkdir" else event
        if rel is None:
            return
        if self.exit_at is not None and len(self.ops) == self.exit_at:
            os._exit(EXIT_AT)
        self.ops.append([kind, rel])


def install(root: str, exit_at: int | None) -> OpHook:
    h = OpHook(root, exit_at)
    sys.addaudithook(h)
    return h


# ------------------------------------------------------------------------------------------------
# child processes
# ------------------------------------------------------------------------------------------------

def child_forksave(arg: dict) -> dict:
    """Build the system once; for every k fork a process that saves and dies at operation k."""
    setup_repo_path()
    import pamiq_core.time as ptime
    from pamiq_core.state_persistence import StateStore
    base = Path(arg["base"])
    A = pc.System(arg["spec"], False, ptime.TimeController())
    order = arg.get("order")

    def prepare(d: Path) -> Path:
        states = d / "states"
        states.mkdir(parents=True)
        old = StateStore(states, OLD)
        A.register(old, order)
        with pc.patched(A.fake_random, lambda: float(A._now)):
            old.save_state()
        return states

    def forked(states: Path, exit_at):
        r, w = os.pipe()
        pid = os.fork()
        if pid == 0:
            os.close(r)
            code = 0
            try:
                hook = install(str(states), exit_at)
                store = StateStore(states, NEW)
                A.register(store, order)
                hook.armed = True
                err = None
                try:
                    with pc.patched(A.fake_random, lambda: float(A._now)):
                        store.save_state()
                except BaseException as e:      # noqa: BLE001
                    err = pc.canon_exc(e)
                hook.armed = False
                os.write(w, json.dumps({"ops": hook.ops, "error": err}).encode())
            except BaseException:               # noqa: BLE001
                code = 3
            os._exit(code)
        os.close(w)
        data = b""
        while True:
            chunk = os.read(r, 65536)
            if not chunk:
                break
            data += chunk
        os.close(r)
        _, status = os.waitpid(pid, 0)
        return os.waitstatus_to_exitcode(status), (json.loads(data) if data else None)

    # A's pending samples are moved by the first real save (`old.state`): do that once up front so
    # that every later save writes the same thing
    rec_states = prepare(base / "rec")
    before = pc.tree_listing(rec_states)
    code, rec = forked(rec_states, None)
    if code != 0 or rec is None:
        return {"error": f"recording run failed with exit code {code}"}
    out = {"ops": rec["ops"], "save_error": rec["error"], "runs": {},
           "rec_old_intact": {k: v for k, v in pc.tree_listing(rec_states).items()
                              if k == OLD or k.startswith(OLD + os.sep)} ==
                             {k: v for k, v in before.items()}}
    # a directory of the new name already exists: the save must refuse to reuse it
    states = prepare(base / "exists")
    (states / NEW).mkdir()
    (states / NEW / "keep").write_text("older content")
    b = pc.tree_listing(states)
    code, ex = forked(states, None)
    out["exists"] = {"exit": code, "error": ex["error"] if ex else None,
                     "intact": pc.tree_listing(states) == b}
    for k in range(len(rec["ops"])):
        states = prepare(base / f"k{k}")
        b = pc.tree_listing(states)
        code, _ = forked(states, k)
        a = pc.tree_listing(states)
        out["runs"][str(k)] = {
            "exit": code,
            "old_intact": {p: v for p, v in a.items() if p == OLD or p.startswith(OLD + os.sep)} == b,
            "outside_new": sorted(p for p in set(a) ^ set(b)
                                  if not (p == NEW or p.startswith(NEW + os.sep)))}
    return out


def build_launch_system(spec: dict, tolerant: bool):
    """Components for a real `launch()`; the root agent feeds every data user."""
    from pamiq_core.trainer import Trainer
    SAgent, *_ = pc.make_classes()
    VModel, _ = pc.model_classes()
    root_id = spec["tree"][1][1]
    kinds = {n: k for n, k, *_ in spec["users"]}

    class LAgent(SAgent):
        n = [1000]

        def on_data_collectors_attached(self):
            self.colls = {}
            if self.lid == root_id:
                self.colls = {name: self.get_data_collector(name) for name in kinds}

        def step(self, observation):
            self.state += 1
            for name, c in self.colls.items():
                LAgent.n[0] += 1
                c.collect(pc.sample_of(kinds[name], LAgent.n[0]))
            _time.sleep(0.001)
            return pc.ANY_ACTION

    class LTrainer(Trainer):
        def train(self):
            _time.sleep(0.001)

    rec = pc.Rec()
    interaction, comps = pc.build_interaction(spec["tree"], spec["states"], tolerant, rec, agent_cls=LAgent)
    models = {n: VModel(v, sync, tolerant) for n, v, sync, _iv in spec["models"]}
    fr = pc.FakeRandom()
    buffers = {n: pc.make_buffer(n, kind, cap, "1", fr, {}) for n, kind, cap, _p, _h in spec["users"]}
    trainers = {n: LTrainer(training_condition_data_user=cond, min_new_data_count=1)
                for n, _p, cond in spec["trainers"]}
    return rec, interaction, models, buffers, trainers


def child_launchsave(arg: dict) -> dict:
    """A real launch(); the process dies at the k-th modifying operation below the states dir."""
    setup_repo_path()
    states = arg["states_dir"]
    os.makedirs(states, exist_ok=True)
    hook = install(states, arg.get("exit_at"))
    from pamiq_core import launch
    rec, interaction, models, buffers, trainers = build_launch_system(arg["spec"], False)
    fired = [0]

    def cond() -> bool:
        fired[0] += 1
        return fired[0] in ((3, 6) if arg.get("keeper") is not None else (3,))

    keeper = None
    if arg.get("keeper") is not None:
        from pamiq_core.state_persistence import LatestStatesKeeper
        keeper = LatestStatesKeeper(states, arg["keeper"])
    hook.armed = True
    err = None
    try:
        launch(interaction, models, buffers, trainers,
               dict(states_dir=states, max_uptime=0.12, web_api_address=None,
                    save_state_condition=cond if (arg.get("runtime") or keeper is not None) else None,
                    states_keeper=keeper, timeout_for_all_threads_pause=5.0))
    except BaseException as e:      # noqa: BLE001
        err = f"{type(e).__name__}: {e}"
    hook.armed = False
    return {"ops": hook.ops, "error": err, "states": sorted(os.listdir(states))}


def child_launchload(arg: dict) -> dict:
    """A real launch(saved_state_path=…) on freshly constructed, tolerant components."""
    setup_repo_path()
    import pamiq_core.launcher as launcher
    built: list[str] = []
    for name in ("ControlThread", "InferenceThread", "TrainingThread"):
        orig = getattr(launcher, name)

        def make(orig=orig, name=name):
            class Spy(orig):
                def __init__(self, *a, **kw):
                    built.append(name)
                    super().__init__(*a, **kw)
            Spy.__name__ = name
            return Spy
        setattr(launcher, name, make())
    rec, interaction, models, buffers, trainers = build_launch_system(arg["spec"], True)
    err = None
    try:
        launcher.launch(interaction, models, buffers, trainers,
                        dict(states_dir=arg["states_dir"], saved_state_path=arg["saved"],
                             max_uptime=0.05, web_api_address=None))
    except BaseException as e:      # noqa: BLE001
        err = pc.canon_exc(e)
    return {"error": err, "threads_built": built, "setups": rec.setups, "loads": len(rec.loads)}


def child_saver(arg: dict) -> None:
    """Thorough tier: keep saving a larger system; report each completed state on stdout."""
    setup_repo_path()
    import pamiq_core.time as ptime
    from pamiq_core.state_persistence import StateStore
    A = pc.System(arg["spec"], False, ptime.TimeController())
    store = StateStore(arg["states_dir"], "%Y-%m-%d_%H-%M-%S,%f.state")
    A.register(store)
    print("READY", flush=True)
    while True:
        p = store.save_state()
        print("DONE " + p.name, flush=True)


def run_child(mode: str, arg: dict, timeout: float = 120.0) -> dict:
    env = dict(os.environ)
    env["PYTHONDONTWRITEBYTECODE"] = "1"
    proc = subprocess.run([sys.executable, __file__, "--child", mode], input=json.dumps(arg),
                          capture_output=True, text=True, timeout=timeout, env=env)
    for line in reversed(proc.stdout.splitlines()):
        if line.startswith("RESULT "):
            out = json.loads(line[len("RESULT "):])
            out["_exit"] = proc.returncode
            return out
    return {"_exit": proc.returncode, "_stderr": proc.stderr[-600:]}


# ------------------------------------------------------------------------------------------------
# parent side
# ------------------------------------------------------------------------------------------------

def short(outcome: str) -> str:
    """Histogram key: exception class and the name of the file, without the directories."""
    if "@" in outcome:
        a, b = outcome.split("@", 1)
        return a + "@" + os.path.basename(b).split(",")[0][:24] if not b.endswith(".state") else a + "@<state dir>"
    return outcome


def trunc_lengths(size: int, rng) -> list[int]:
    if size <= 512:
        return list(range(size))
    pts = {0, 1, 2, 3, size - 1, size - 2, size // 2}
    pts |= {rng.randrange(size) for _ in range(48)}
    return sorted(pts)


def float_prefix(path: Path, length: int) -> str:
    """What `float()` makes of the first `length` bytes of the marker file (an assumption about
    CPython's parser that the model takes as an input)."""
    try:
        txt = path.read_bytes()[:length].decode("utf-8")
        return pc.ext_of_float(float(txt))
    except ValueError:
        return "err"


class Loader:
    """Freshly constructed, tolerant objects registered like `launch()` does, for load attempts."""

    def __init__(self, spec: dict, order=None) -> None:
        import pamiq_core.time as ptime
        from pamiq_core.state_persistence import StateStore
        self.tmp = tempfile.mkdtemp(prefix="pamiq-verif.")
        self.B = pc.System(pc.fresh_spec(spec), True, ptime.TimeController(), apply_hist=False)
        self.store = StateStore(self.tmp, "unused.state")
        self.B.register(self.store, order)

    def load(self, path: Path) -> str:
        self.B.rec.setups.clear()
        try:
            self.store.load_state(path)
        except Exception as e:
            anchor = Path(path).parent.parent
            return "err " + pc.canon_load_exc(e, anchor).replace("@?", "@" + os.path.relpath(path, anchor))
        return "ok"

    def close(self) -> None:
        shutil.rmtree(self.tmp, ignore_errors=True)


def model_ops(reply: str) -> list[list[str]]:
    ops = reply.strip("[]").split(",") if reply != "[]" else []
    out = []
    for o in ops:
        parts = o.split(":")
        rel = os.path.relpath(parts[1], f"states/{NEW}") if parts[1] != f"states/{NEW}" else "."
        out.append([parts[0], os.path.normpath(os.path.join(NEW, rel))])
    return out


def fork_case(case: dict, driver, rng, res: SuiteResult | None = None):
    """One system through the fork suite. Returns (violations, disagreement, info). The objects are
    registered in the order `launch()` registers them, read from launcher.py (a fact about the
    code under test, not part of the case)."""
    spec = case["spec"]
    case = {"spec": spec}
    order = registration_from_source()
    violations: list[Violation] = []
    d = None
    info: dict = {}
    base = tempfile.mkdtemp(prefix="pamiq-verif.")

    def hit(k, n=1):
        if res is not None:
            res.hit(k, n)

    try:
        out = run_child("forksave", {"spec": spec, "base": base, "order": order})
        if "ops" not in out:
            raise RuntimeError(f"forksave child failed: {out}")
        ops = out["ops"]
        info["n_ops"] = len(ops)
        # ---- model: same system, same save ----
        lines = ["persist reset"] + pc.model_lines(spec, "sys", ["persist clk init now=0,0,0"]) + \
                pc.model_lines(pc.fresh_spec(spec), "fresh", ["persist clk init now=5,5,5"]) + \
                [f"persist fs dirs=[states,states/{NEW}]", f"persist save root=states/{NEW} now=1,1,1",
                 "persist fs dirs=[states]", f"persist save root=states/{NEW} now=1,1,1", "persist ops"]
        mops = None
        ex = out["exists"]
        if driver is not None:
            replies = driver.batch(lines)
            if replies[-4] != ("ok" if ex["error"] is None else "err " + ex["error"]):
                d = Disagreement("crash-fork", f"save into an existing directory: implementation "
                                 f"{ex['error']}, model {replies[-4]}", {**case, "exists": True})
            if replies[-2] != ("ok" if out["save_error"] is None else "err " + out["save_error"]):
                d = Disagreement("crash-fork", f"save: implementation {out['save_error']}, model {replies[-2]}", case)
            mops = model_ops(replies[-1])
            impl_seq = [[k if k in ("mkdir", "open") else k, p] for k, p in ops]
            model_seq = [["mkdir" if k == "mkdir" else "open", p] for k, p in mops if k in ("mkdir", "create")]
            if d is None and impl_seq != model_seq:
                first = next((i for i, (a, b) in enumerate(zip(impl_seq, model_seq)) if a != b),
                             min(len(impl_seq), len(model_seq)))
                d = Disagreement("crash-fork", f"operation sequence differs at #{first}: implementation "
                                 f"{impl_seq[first:first+2]}, model {model_seq[first:first+2]}", case)
        # index of the j-th recorded operation in the model's list (which also has the writes)
        idx = [i for i, (k, _p) in enumerate(mops or []) if k in ("mkdir", "create")]
        aligned = mops is not None and d is None and len(idx) == len(ops)
        hit("existing-dir:" + str(ex["error"]))
        if ex["error"] is None or not ex["intact"]:
            violations.append(Violation(
                "crash:existing-dir-reused", f"a directory with the new state's name already existed: "
                f"save_state gave {ex['error']}, directory unchanged: {ex['intact']}", {**case, "exists": True}))
        if not out["rec_old_intact"]:
            violations.append(Violation("crash:old-state-damaged", "a complete save changed the older "
                                        "state directory", case))
        loader = Loader(spec, order)
        try:
            # the complete directory must load (sanity; C05 is about what it loads to)
            full = loader.load(Path(base) / "rec" / "states" / NEW)
            hit("complete:" + short(full))
            if full != "ok":
                d = d or Disagreement("crash-fork", f"the complete state does not load: {full}", case)
            mlines: list[str] = []
            mexpect: list[tuple[str, dict]] = []
            for k in range(len(ops)):
                run = out["runs"][str(k)]
                if run["exit"] != EXIT_AT:
                    raise RuntimeError(f"process for k={k} ended with {run['exit']}")
                if not run["old_intact"] or run["outside_new"]:
                    violations.append(Violation(
                        "crash:old-state-damaged", f"killed at operation {k} ({ops[k]}): the older state "
                        f"directory changed or something appeared outside the new one {run['outside_new']}",
                        {**case, "k": k}))
                torn = Path(base) / f"k{k}" / "states" / NEW
                # (1) the directory as the crash left it
                got = loader.load(torn)
                hit("torn:" + short(got))
                if got == "ok":
                    violations.append(Violation(
                        "crash:torn-accepted", f"killed before operation {k} {ops[k]}: load_state of the "
                        f"torn directory succeeded", {**case, "k": k, "trunc": None}))
                if aligned:
                    mlines += [f"persist crash k={idx[k]} l=0",
                               f"persist load root=states/{NEW} tol=1 tp=err now=9,9,9"]
                    mexpect.append((got, {"k": k, "trunc": None}))
                # (2) every truncation of the file written last
                if k > 0 and ops[k - 1][0] == "open":
                    f = Path(base) / f"k{k}" / "states" / ops[k - 1][1]
                    content = f.read_bytes()
                    is_text = f.name == "previous_training_time"
                    for ln in trunc_lengths(len(content), rng):
                        f.write_bytes(content[:ln])
                        got = loader.load(torn)
                        hit("truncated:" + short(got))
                        if got == "ok":
                            violations.append(Violation(
                                "crash:torn-accepted", f"{ops[k-1][1]} truncated to {ln} of "
                                f"{len(content)} bytes: load_state succeeded",
                                {**case, "k": k, "trunc": [ops[k - 1][1], ln]}))
                        if aligned:
                            tp = float_prefix(f, ln) if is_text else "err"
                            mlines += [f"persist crash k={idx[k-1] + 1} l={ln}",
                                       f"persist load root=states/{NEW} tol=1 tp={tp} now=9,9,9"]
                            mexpect.append((got, {"k": k, "trunc": [ops[k - 1][1], ln]}))
                    f.write_bytes(content)
            info["loads"] = len(mexpect)
            if aligned and driver is not None and d is None:
                replies = driver.batch(mlines)
                for (got, where), r in zip(mexpect, replies[1::2]):
                    if got != r:
                        d = Disagreement("crash-fork", f"load of the torn directory {where}: "
                                         f"implementation {got!r}, model {r!r}", {**case, **where})
                        break
        finally:
            loader.close()
        return violations, d, info
    finally:
        shutil.rmtree(base, ignore_errors=True)


# ------------------------------------------------------------------------------------------------
# systems
# ------------------------------------------------------------------------------------------------

def fixed_specs() -> list[dict]:
    bare = {"tree": ["I", ["A", 1, []], ["E", 2]], "states": {"1": 5, "2": 6},
            "models": [], "users": [], "trainers": []}
    nested = {"tree": ["I", ["A", 1, [["left", ["A", 2, [["deep", ["A", 3, []]]]]], ["right", ["A", 4, []]]]],
                       ["EW", ["EM", ["SD", [["cam", ["S", 5]], ["mic", ["SW", ["S", 6], ["W", 7]]]]],
                               ["CD", [["arm", ["C", 8]]]]], ["F", 9], ["W", 10]]],
              "states": {str(i): i * 3 for i in range(1, 11)},
              "models": [["m", 3, True, 3]], "users": [], "trainers": []}
    many = {"tree": ["I", ["A", 1, []], ["E", 2]], "states": {"1": 0, "2": 0},
            "models": [["enc", 1, True, 1], ["pol", 2, False, 0]],
            "users": [["d", "seq", 3, "1", [["c", 101, "1", "0", 0], ["c", 102, "2", "0", 0], ["u"]]],
                      ["e", "rrb", 2, "1/2", [["c", 101, "1", "0", 0]]],
                      ["f", "dseq", 2, "1", []]],
            "trainers": [["t1", "25/2", "d"], ["t2", "-inf", None], ["t3", "inf", "e"],
                         ["t4", pc.ext_of_float(1e-05), None]]}
    only_trainers = {"tree": ["I", ["A", 1, []], ["E", 2]], "states": {"1": 1, "2": 2}, "models": [],
                     "users": [], "trainers": [["t", pc.ext_of_float(123456.789), None]]}
    return [bare, nested, many, only_trainers]


def gen_spec(rng, big=False) -> dict:
    import c05
    return c05.gen_spec(rng, big)


def spec_key(spec) -> str:
    return json.dumps([pc.term(spec["tree"]), [m[0] for m in spec["models"]],
                       [(u[0], u[1], u[2]) for u in spec["users"]], [t[0] for t in spec["trainers"]]])


def suite_fork(ctx: Ctx) -> SuiteResult:
    res = SuiteResult("crash-every-op-forked-save",
                      rule="corpus; four fixed systems (no components; deeply nested agents and "
                           "wrapped modular environment; several buffers/models/trainers; trainers "
                           "only); seeded random systems. For each: the real save is killed before "
                           "each of its file-system operations, and every file is truncated to every "
                           "length (<=512 B: all; above: 50 sampled); non-trivial = a system; distinct "
                           "by shape. evaluations = load attempts on torn directories")
    # the objects are registered in the order launch() registers them (read from launcher.py)
    order = registration_from_source()
    res.extra["registration_order_used"] = order or pc.REGISTRATION
    cases = [c["case"] for c in corpus_cases("C10") if "spec" in c["case"]]
    cases += [{"spec": s} for s in fixed_specs()]
    cases += [{"spec": gen_spec(ctx.rng, big=(i % 2 == 0))} for i in range(ctx.n(10, 150))]
    for case in cases:
        vs, d, info = fork_case(case, ctx.driver, ctx.rng, res)
        res.evaluations += info.get("loads", 0)
        res.hit("systems")
        res.hit("operations", info.get("n_ops", 0))
        res.nontrivial.add(spec_key(case["spec"]))
        res.sample({"case": case, "operations": info.get("n_ops"), "torn_loads": info.get("loads")})
        res.violations += vs
        if d:
            res.disagreements.append(d)
        if len(res.violations) > 10 or len(res.disagreements) > 5:
            break
    return res


def launch_crash_case(case: dict, rng, res: SuiteResult | None = None):
    """Real launch(): kill the final (and runtime) save at every operation; relaunch from the torn
    directory in a fresh child."""
    spec = case["spec"]
    runtime = bool(case.get("runtime"))
    violations: list[Violation] = []
    info: dict = {}
    base = tempfile.mkdtemp(prefix="pamiq-verif.")

    def hit(k, n=1):
        if res is not None:
            res.hit(k, n)
    try:
        rec = run_child("launchsave", {"spec": spec, "states_dir": os.path.join(base, "rec"),
                                       "exit_at": None, "runtime": runtime})
        if rec.get("error") or "ops" not in rec:
            raise RuntimeError(f"recording launch failed: {rec}")
        ops = rec["ops"]
        info["n_ops"] = len(ops)
        info["states_in_recording"] = rec["states"]
        if len(rec["states"]) != (2 if runtime else 1):
            raise RuntimeError(f"recording launch produced {rec['states']} (runtime={runtime})")
        # operations of a launch all lie in fresh state directories
        tops = sorted({p.split(os.sep)[0] for _k, p in ops})
        if set(tops) != set(rec["states"]):
            violations.append(Violation("crash:op-outside-state-dir", f"operations touched {tops}, "
                                        f"state directories are {rec['states']}", case))
        ks = case.get("ks") or list(range(len(ops)))

        def one(k):
            sd = os.path.join(base, f"k{k}")
            r = run_child("launchsave", {"spec": spec, "states_dir": sd, "exit_at": k, "runtime": runtime})
            return k, sd, r
        with ThreadPoolExecutor(max_workers=8) as ex:
            runs = list(ex.map(one, ks))
        loader = Loader(spec)
        torn_dirs = []
        try:
            for k, sd, r in runs:
                if r["_exit"] != EXIT_AT:
                    # timing made this run shorter/longer than the recording; not a crash at op k
                    hit("launch-run-not-killed")
                    continue
                dirs = sorted(os.listdir(sd))       # the default name format sorts by time
                # ops[k] is the j-th operation of the s-th save of the recording: saves before s
                # are complete, save s is torn — unless ops[k] is its first mkdir (then absent)
                tops_seq = []
                for _kk, p in ops:
                    t = p.split(os.sep)[0]
                    if t not in tops_seq:
                        tops_seq.append(t)
                s_idx = tops_seq.index(ops[k][1].split(os.sep)[0])
                is_first = all(p.split(os.sep)[0] != tops_seq[s_idx] for _kk, p in ops[:k])
                expected = s_idx + (0 if is_first else 1)
                if len(dirs) != expected:
                    hit("launch-run-diverged-from-recording")
                    continue
                if not dirs:
                    hit("killed-before-first-mkdir")
                    continue
                newest = None if is_first else dirs[-1]
                for n in dirs:
                    got = loader.load(Path(sd) / n)
                    if n == newest:
                        hit("torn:" + short(got))
                        info["loads"] = info.get("loads", 0) + 1
                        if got == "ok":
                            violations.append(Violation(
                                "crash:torn-accepted", f"launch() killed before operation {k} of its saves: "
                                f"the torn directory loads", {**case, "k": k, "runtime": runtime}))
                        else:
                            torn_dirs.append((k, os.path.join(sd, n)))
                    else:
                        hit("older-complete:" + short(got))
                        if got != "ok":
                            violations.append(Violation(
                                "crash:old-state-damaged", f"launch() killed before operation {k}: the "
                                f"state completed earlier in the same run no longer loads ({got})",
                                {**case, "k": k, "runtime": runtime}))
        finally:
            loader.close()
        # a real launch from sampled torn directories, in a fresh process
        # (always the emptiest one - killed right after the state directory was created - and the fullest one,
        # the others at random)
        torn_dirs.sort(key=lambda kp: kp[0])
        forced = ([torn_dirs[0]] + ([torn_dirs[-1]] if len(torn_dirs) > 1 else [])) if torn_dirs else []
        others = [t for t in torn_dirs if t not in forced]
        sample = forced + rng.sample(others, min(len(others), max(0, case.get("relaunches", 4) - len(forced))))

        def relaunch(item):
            k, path = item
            return k, run_child("launchload", {"spec": spec, "saved": path,
                                               "states_dir": os.path.join(base, f"relaunch{k}")})
        with ThreadPoolExecutor(max_workers=8) as ex:
            for k, r in ex.map(relaunch, sample):
                hit("relaunch:" + str(r.get("error")))
                info["relaunches"] = info.get("relaunches", 0) + 1
                if "error" not in r:
                    raise RuntimeError(f"launchload child failed: {r}")
                if r["error"] is None:
                    violations.append(Violation("crash:torn-accepted", f"launch(saved_state_path=torn) "
                                                f"ran (torn at operation {k})", {**case, "k": k}))
                elif r["threads_built"] or r["setups"]:
                    violations.append(Violation(
                        "crash:fails-after-threads", f"launch(saved_state_path=torn) raised {r['error']} "
                        f"after constructing {r['threads_built']} / calling setup on {r['setups']}",
                        {**case, "k": k}))
        return violations, info
    finally:
        shutil.rmtree(base, ignore_errors=True)


def keeper_crash_case(case: dict, res: SuiteResult | None = None):
    """Real launch() with a LatestStatesKeeper(max_keep) and two runtime saves + the final one, killed
    at operations of the 2nd and 3rd save: the state completed just before the one being written is
    among the max_keep most recent ones and must still be there, loadable (retention must never run
    ahead of a save that may not complete)."""
    spec = case["spec"]
    violations: list[Violation] = []
    base = tempfile.mkdtemp(prefix="pamiq-verif.")
    try:
        rec = run_child("launchsave", {"spec": spec, "states_dir": os.path.join(base, "rec"),
                                       "exit_at": None, "keeper": case["keeper"]})
        if rec.get("error") or "ops" not in rec:
            raise RuntimeError(f"recording launch with keeper failed: {rec}")
        ops = rec["ops"]
        tops_seq = []
        for _k, p in ops:
            t = p.split(os.sep)[0]
            if t not in tops_seq:
                tops_seq.append(t)
        if len(tops_seq) < 3:
            raise RuntimeError(f"recording launch with keeper made {len(tops_seq)} saves")
        later = [k for k, (_kind, p) in enumerate(ops) if tops_seq.index(p.split(os.sep)[0]) >= 1]
        ks = case.get("ks") or later[::max(1, len(later) // 10)]

        def one(k):
            sd = os.path.join(base, f"k{k}")
            return k, sd, run_child("launchsave", {"spec": spec, "states_dir": sd, "exit_at": k,
                                                    "keeper": case["keeper"]})
        with ThreadPoolExecutor(max_workers=8) as ex:
            runs = list(ex.map(one, ks))
        loader = Loader(spec)
        try:
            for k, sd, r in runs:
                if r["_exit"] != EXIT_AT:
                    if res is not None: res.hit("keeper-run-not-killed")
                    continue
                dirs = sorted(os.listdir(sd))
                complete = [n for n in dirs if loader.load(Path(sd) / n) == "ok"]
                if res is not None: res.hit(f"keeper-kill:complete={len(complete)}")
                if case["keeper"] >= 1 and not complete:
                    violations.append(Violation(
                        "crash:completed-state-deleted-before-save-finished",
                        f"launch() with LatestStatesKeeper(max_keep={case['keeper']}) killed before "
                        f"operation {k} (inside its save #{tops_seq.index(ops[k][1].split(os.sep)[0]) + 1}): "
                        f"no completed state is left on disk ({dirs})", {**case, "k": k}))
                    break
        finally:
            loader.close()
    finally:
        shutil.rmtree(base, ignore_errors=True)
    return violations


def suite_launch(ctx: Ctx) -> SuiteResult:
    res = SuiteResult("crash-every-op-real-launch",
                      rule="real launch() in child processes, killed before every modifying operation "
                           "below the states directory: final save only, and runtime save + final "
                           "save; every state directory left behind is loaded (torn one must raise, "
                           "earlier complete ones must load), sampled torn directories are relaunched "
                           "in a fresh child (must raise before thread construction and setup); "
                           "distinct by (system, runtime?)")
    specs = fixed_specs()
    cases = [{"spec": specs[2], "runtime": False}, {"spec": specs[1], "runtime": True}]
    if ctx.tier == "thorough":
        cases += [{"spec": specs[0], "runtime": True}, {"spec": specs[3], "runtime": False}]
        cases += [{"spec": gen_spec(ctx.rng), "runtime": bool(i % 2)} for i in range(6)]
    for case in cases:
        # trainers with a condition need their data user; fixed system `many` has them
        vs, info = launch_crash_case(case, ctx.rng, res)
        res.evaluations += info.get("loads", 0) + info.get("relaunches", 0)
        res.hit("launch-systems")
        res.hit("launch-operations", info.get("n_ops", 0))
        res.nontrivial.add(spec_key(case["spec"]) + str(case["runtime"]))
        res.sample({"case": case, "info": info})
        res.violations += vs
    # retention must not run ahead of a save that may not complete
    for mk in ([1] if ctx.tier == "quick" else [1, 2]):
        kcase = {"spec": specs[1], "keeper": mk}
        vs = keeper_crash_case(kcase, res)
        res.evaluations += 1
        res.hit("launch-with-keeper")
        res.nontrivial.add(spec_key(kcase["spec"]) + f"keeper{mk}")
        res.violations += vs
    return res


suite_launch.needs_driver = False


# ------------------------------------------------------------------------------------------------
# source shape of launcher.py
# ------------------------------------------------------------------------------------------------

def extract_launch_shape(repo: Path) -> list[str] | None:
    """The persistence/thread-related calls of `launch()` in source order, or None when the
    function does not have the expected shape."""
    try:
        src = (repo / "src" / "pamiq_core" / "launcher.py").read_text()
        tree = ast.parse(src)
    except (OSError, SyntaxError):
        return None
    fn = next((n for n in ast.walk(tree) if isinstance(n, ast.FunctionDef) and n.name == "launch"), None)
    if fn is None:
        return None
    thread_cls = {"ControlThread": "control", "InferenceThread": "inference", "TrainingThread": "training"}
    var_of: dict[str, str] = {}
    for n in ast.walk(fn):
        if isinstance(n, ast.Assign) and isinstance(n.value, ast.Call) and \
                isinstance(n.value.func, ast.Name) and n.value.func.id in thread_cls and \
                len(n.targets) == 1 and isinstance(n.targets[0], ast.Name):
            var_of[n.targets[0].id] = thread_cls[n.value.func.id]
    # `for t in (inference_thread, training_thread): … t.join()` stands for one call per element
    loop_of: dict[str, list[str]] = {}
    for n in ast.walk(fn):
        if isinstance(n, ast.For) and isinstance(n.target, ast.Name) and \
                isinstance(n.iter, (ast.Tuple, ast.List)) and n.iter.elts and \
                all(isinstance(e, ast.Name) and e.id in var_of for e in n.iter.elts):
            loop_of[n.target.id] = [var_of[e.id] for e in n.iter.elts]
    events: list[tuple[int, int, str]] = []
    for n in ast.walk(fn):
        if not isinstance(n, ast.Call):
            continue
        f = n.func
        ev = None
        if isinstance(f, ast.Attribute) and isinstance(f.value, ast.Name) and f.value.id in loop_of \
                and f.attr in ("start", "join"):
            for k, t in enumerate(loop_of[f.value.id]):
                events.append((n.lineno, n.col_offset + k, f"{f.attr}:{t}"))
            continue
        if isinstance(f, ast.Name) and f.id in thread_cls:
            ev = "thread:" + thread_cls[f.id]
        elif isinstance(f, ast.Attribute):
            owner = f.value.id if isinstance(f.value, ast.Name) else None
            if f.attr == "register" and n.args and isinstance(n.args[0], ast.Constant):
                ev = f"register:{n.args[0].value}"
            elif f.attr == "load_state":
                ev = "load_state"
            elif f.attr == "save_state":
                ev = "save_state"
            elif f.attr == "set_time_scale":
                is_one = n.args and isinstance(n.args[0], ast.Constant) and n.args[0].value == 1.0
                ev = "reset_time_scale" if is_one else "set_time_scale"
            elif f.attr == "start" and owner in var_of:
                ev = "start:" + var_of[owner]
            elif f.attr == "join" and owner in var_of:
                ev = "join:" + var_of[owner]
            elif f.attr == "run" and owner in var_of and var_of[owner] == "control":
                ev = "control_run"
            elif f.attr == "shutdown" and owner in var_of and var_of[owner] == "control":
                ev = "shutdown:control"
        if ev:
            events.append((n.lineno, n.col_offset, ev))
    events.sort()
    out = [e for _l, _c, e in events]
    if not any(e.startswith("register:") for e in out) or "load_state" not in out:
        return None
    return out


def shape_facts(seq: list[str]) -> dict:
    """The facts the theorems use (insensitive to the order of independent statements)."""
    def pos(e):
        return seq.index(e) if e in seq else None
    regs = [e.split(":", 1)[1] for e in seq if e.startswith("register:")]
    threads = [i for i, e in enumerate(seq) if e.startswith("thread:")]
    starts = [i for i, e in enumerate(seq) if e.startswith("start:") or e == "control_run"]
    joins = [i for i, e in enumerate(seq) if e.startswith("join:")]
    load, save = pos("load_state"), pos("save_state")
    last_reg = max((i for i, e in enumerate(seq) if e.startswith("register:")), default=None)
    return {
        "registration_order": regs,
        "threads_constructed": sorted(e for e in seq if e.startswith("thread:")),
        "load_after_registration": load is not None and last_reg is not None and last_reg < load,
        "load_before_thread_construction": load is not None and bool(threads) and load < min(threads),
        "load_before_thread_start": load is not None and bool(starts) and load < min(starts),
        "final_save_after_joins": save is not None and bool(joins) and max(joins) < save,
        "threads_told_to_stop_before_joins": pos("shutdown:control") is not None and bool(joins)
                                             and pos("shutdown:control") < min(joins),
        "final_save_after_time_scale_reset": save is not None and pos("reset_time_scale") is not None
                                             and pos("reset_time_scale") < save,
    }


def registration_from_source() -> list[str] | None:
    shape = extract_launch_shape(REPO)
    if shape is None:
        return None
    regs = [e.split(":", 1)[1] for e in shape if e.startswith("register:")]
    return regs if sorted(regs) == sorted(pc.REGISTRATION) else None


def suite_shape(ctx: Ctx) -> SuiteResult:
    res = SuiteResult("launcher-source-shape",
                      rule="ast reading of launch(): register(...) names in order, load_state, the three "
                           "thread constructions, set_time_scale, start/run/join, the finally order; "
                           "compared with the step list the model's theorems are about")
    shape = extract_launch_shape(REPO)
    res.evaluations = 1
    res.extra["extracted"] = shape
    if shape is None:
        res.hit("static-tie-unavailable")
        res.extra["note"] = "static tie unavailable, correspondence only"
        return res
    res.hit("extracted")
    res.nontrivial.add(json.dumps(shape))
    res.sample({"launch_shape": shape})
    facts = shape_facts(shape)
    res.extra["facts"] = facts
    if ctx.driver is not None:
        model = ctx.driver.batch(["persist launch_order saved=1"])[0].strip("[]").split(",")
        res.extra["model_facts"] = shape_facts(model)
        if shape_facts(model) != facts:
            diff = {k: (facts[k], shape_facts(model)[k]) for k in facts if facts[k] != shape_facts(model)[k]}
            res.disagreements.append(Disagreement(
                "launcher-source-shape", f"launch() in launcher.py vs. the steps the model assumes: "
                f"{diff}", {"shape": shape, "model": model}))
    return res


# ------------------------------------------------------------------------------------------------
# assumption of the model: every proper prefix of a pickle is rejected
# ------------------------------------------------------------------------------------------------

def suite_pickle_prefix(ctx: Ctx) -> SuiteResult:
    res = SuiteResult("pickle-rejects-every-proper-prefix",
                      rule="real state files (time.pkl, timestamps.pkl, buffer.pkl of all four buffers, "
                           "user component files) written by real saves of random systems: "
                           "load_pickle of every proper prefix (files <= 4 KiB exhaustively, larger "
                           "ones on 400 sampled lengths) must raise; distinct = distinct file contents")
    from pamiq_core.state_persistence import StateStore, load_pickle
    import pamiq_core.time as ptime
    tmp = Path(tempfile.mkdtemp(prefix="pamiq-verif."))
    seen = set()
    try:
        specs = fixed_specs() + [gen_spec(ctx.rng, big=True) for _ in range(ctx.n(8, 60))]
        # one big buffer so that multi-frame pickles occur
        big = {"tree": ["I", ["A", 1, []], ["E", 2]], "states": {"1": 0, "2": 0}, "models": [],
               "users": [["d", "seq", 30000, "1", [["c", 1000 + j, pc.show_frac(F(j, 8)), "0", 0]
                                                    for j in range(20000)] + [["u"]]]], "trainers": []}
        specs.append(big)
        for si, spec in enumerate(specs):
            A = pc.System(spec, False, ptime.TimeController())
            store = StateStore(tmp / f"s{si}", "x.state")
            A.register(store)
            with pc.patched(A.fake_random, lambda: float(A._now)):
                root = store.save_state()
            for dirpath, _d, files in os.walk(root):
                for fn in files:
                    if fn == "previous_training_time":
                        continue
                    p = Path(dirpath) / fn
                    data = p.read_bytes()
                    if data in seen:
                        continue
                    seen.add(data)
                    lengths = range(len(data)) if len(data) <= 4096 else \
                        sorted({0, 1, 2, len(data) - 1, len(data) // 2} |
                               {ctx.rng.randrange(len(data)) for _ in range(400)})
                    q = tmp / "prefix.bin"
                    for ln in lengths:
                        q.write_bytes(data[:ln])
                        res.evaluations += 1
                        try:
                            load_pickle(q)
                        except (EOFError, pickle.UnpicklingError):
                            res.hit("rejected")
                        except Exception as e:
                            res.hit("rejected:" + type(e).__name__)
                        else:
                            res.hit("ACCEPTED")
                            res.violations.append(Violation(
                                "assumption:pickle-prefix-accepted", f"{fn}: the first {ln} of "
                                f"{len(data)} bytes unpickle without error",
                                {"file": fn, "bytes_hex": data[:ln].hex()[:4000], "length": ln}))
                    res.hit("file:" + fn.replace(".pkl", "") if fn.endswith(".pkl") else "file:user-component")
        res.nontrivial = {hash(x) for x in seen}
        res.sample({"files": len(seen)})
    finally:
        shutil.rmtree(tmp, ignore_errors=True)
    return res


suite_pickle_prefix.needs_driver = False


# ------------------------------------------------------------------------------------------------
# thorough: real SIGKILL at random instants
# ------------------------------------------------------------------------------------------------

def suite_sigkill(ctx: Ctx) -> SuiteResult:
    res = SuiteResult("sigkill-at-random-instants",
                      rule="thorough tier only: a child keeps saving a system with large buffers and is "
                           "killed with SIGKILL after a random delay; every state it reported complete "
                           "must load and hash identically to when it was reported, every other "
                           "directory must be rejected; distinct = kill instants")
    if ctx.tier != "thorough":
        res.rule += " (skipped in the quick tier)"
        return res
    spec = {"tree": ["I", ["A", 1, [["k", ["A", 2, []]]]], ["E", 3]], "states": {"1": 1, "2": 2, "3": 3},
            "models": [["m", 1, True, 1]],
            "users": [[n, "seq", 200000, "1", [["c", 1000 + j, pc.show_frac(F(j, 8)), "0", 0]
                                               for j in range(3000)] + [["u"]]] for n in ("d", "e")],
            "trainers": [["t", "25/2", "d"]]}
    for rnd in range(ctx.n(0, 40)):
        base = tempfile.mkdtemp(prefix="pamiq-verif.")
        try:
            states = os.path.join(base, "states")
            proc = subprocess.Popen([sys.executable, __file__, "--child", "saver"], stdin=subprocess.PIPE,
                                    stdout=subprocess.PIPE, text=True)
            proc.stdin.write(json.dumps({"spec": spec, "states_dir": states}))
            proc.stdin.close()
            assert proc.stdout.readline().strip() == "READY"
            delay = ctx.rng.random() * 0.05
            _time.sleep(delay)
            proc.send_signal(signal.SIGKILL)
            rest = proc.stdout.read()
            proc.wait()
            done = [ln[5:] for ln in rest.splitlines() if ln.startswith("DONE ")]
            loader = Loader(spec)
            try:
                for n in sorted(os.listdir(states)):
                    got = loader.load(Path(states) / n)
                    res.evaluations += 1
                    if n in done:
                        res.hit("complete:" + short(got))
                        if got != "ok":
                            res.violations.append(Violation("crash:old-state-damaged", f"state {n} was reported "
                                                            f"complete before the kill and now gives {got}",
                                                            {"spec": "sigkill", "delay": delay}))
                    else:
                        res.hit("torn:" + short(got))
                        if got == "ok":
                            # the kill may have landed between the last write and the report
                            res.hit("unreported-but-loadable")
            finally:
                loader.close()
            res.nontrivial.add(round(delay, 5))
        finally:
            shutil.rmtree(base, ignore_errors=True)
    return res


suite_sigkill.needs_driver = False


# ------------------------------------------------------------------------------------------------
def search(ctx: Ctx, disagreements, broken):
    import random
    out: list[Violation] = []
    rng = random.Random(ctx.seed + 1)
    for dis in disagreements:
        c = dis.case
        if isinstance(c, dict) and "spec" in c:
            vs, _, _ = fork_case({"spec": c["spec"]}, None, rng)
            out += vs
    if out:
        return out
    specs = fixed_specs() + [gen_spec(rng, big=(i % 2 == 0)) for i in range(ctx.n(25, 200))]
    for spec in specs:
        vs, _, _ = fork_case({"spec": spec}, None, rng)
        if vs:
            return vs
    for spec, runtime in ((fixed_specs()[0], False), (fixed_specs()[1], True), (fixed_specs()[2], False)):
        vs, _ = launch_crash_case({"spec": spec, "runtime": runtime}, rng)
        if vs:
            return vs
    return out


def replay(ctx: Ctx, payload: dict) -> SuiteResult:
    import random
    res = SuiteResult("replay")
    case = payload.get("case") or payload.get("first_disagreement")
    res.evaluations = 1
    rng = random.Random(0)
    if isinstance(case, dict) and "spec" in case and isinstance(case["spec"], dict):
        if "keeper" in case:
            res.violations = keeper_crash_case({"spec": case["spec"], "keeper": case["keeper"],
                                                "ks": [case["k"]] if "k" in case else None})
        elif "runtime" in case:
            vs, info = launch_crash_case({"spec": case["spec"], "runtime": case["runtime"],
                                          "ks": [case["k"]] if "k" in case else None}, rng)
            res.violations = vs
        else:
            vs, d, info = fork_case({"spec": case["spec"]}, ctx.driver, rng)
            want = (case.get("k"), case.get("trunc"))
            res.violations = [v for v in vs if "k" not in case or
                              (v.case.get("k"), v.case.get("trunc")) == want] or vs
            if d:
                res.disagreements.append(d)
        print("info:", info)
    elif isinstance(case, dict) and "shape" in case:
        print("launcher shape now:", extract_launch_shape(REPO))
        print("model:", case.get("model"))
        res.disagreements.append(Disagreement("launcher-source-shape", "see above", case)) \
            if extract_launch_shape(REPO) != case.get("model") else None
    else:
        print("nothing to replay in this file")
    return res


if __name__ == "__main__":
    if len(sys.argv) >= 3 and sys.argv[1] == "--child":
        arg = json.loads(sys.stdin.read())
        mode = sys.argv[2]
        if mode == "saver":
            child_saver(arg)
        fn = {"forksave": child_forksave, "launchsave": child_launchsave,
              "launchload": child_launchload}[mode]
        out = fn(arg)
        print("RESULT " + json.dumps(out))
        sys.stdout.flush()
        os._exit(0)
    setup_repo_path()
    sys.exit(run_check(
        "C10", lean_modules=["Pamiq.Props.C10"],
        required_theorems=["Pamiq.Persist.old_states_untouched", "Pamiq.Persist.torn_rejected",
                           "Pamiq.Persist.fails_before_threads", "Pamiq.Persist.torn_launch_fails",
                           "Pamiq.Persist.existing_directory_not_reused",
                           "Pamiq.Persist.time_first_would_accept_torn"],
        suites=[suite_shape, suite_fork, suite_pickle_prefix, suite_launch, suite_sigkill],
        search=search, replay=replay,
        assumptions=["process-kill model only: a crash leaves a prefix of the completed file-system "
                     "calls and a prefix of the bytes of the file being written (no power-loss "
                     "reordering)",
                     "pickle.load rejects every proper prefix of a pickle, and what float() makes of a "
                     "truncated marker file is an input of the model: assumptions about CPython, "
                     "validated on the real bytes (pickle-prefix suite; every truncation <= 512 B of "
                     "every file of every generated state), not proved",
                     "user components are the harness's tolerant ones (a missing or unreadable file "
                     "is silently skipped): the worst case for acceptance",
                     "deletion of old states by a StatesKeeper (C18) is outside this property: a crash "
                     "inside its rmtree leaves a partially deleted directory that was meant to go"],
        trusted_extra=["sys.addaudithook event stream (os.mkdir, open, os.remove, os.rename, …) as the "
                       "record of file-system operations; os.fork/os._exit as process death",
                       "ast-based extractor of launch()'s call order (harness/corr/c10.py)"],
        level_text="for every system, crash point and truncation: paths outside the new directory "
                   "unchanged, torn directory rejected before thread construction — theorems on the "
                   "Persist model + real saves killed at every operation"))
