"""C08 — the system runs until told to stop; the uptime limit is in system time (DESIGN §7.8)."""
import logging
import re
import sys
from fractions import Fraction as F
from pathlib import Path

sys.path.insert(0, str(Path(__file__).resolve().parent.parent))
from framework import (Ctx, Disagreement, SuiteResult, Violation, run_check, setup_repo_path, show_frac,
                       show_list)
import syscheck


class _Capture(logging.Handler):
    def __init__(self):
        super().__init__(level=logging.INFO)
        self.counts = []

    def emit(self, record):
        m = re.search(r"in (\d+) steps", record.getMessage())
        if m:
            self.counts.append(int(m.group(1)))


def run_stats_case(case, driver):
    """Real InferenceThread.on_tick with a scripted system clock that makes the logging scheduler
    fire exactly at the scripted ticks."""
    from unittest.mock import MagicMock
    import pamiq_core.time as ptime
    from pamiq_core.thread.threads.inference import InferenceThread
    now = [0.0]
    saved = (ptime.time, ptime.fixed_time)
    ptime.time = lambda: now[0]
    ptime.fixed_time = lambda: now[0]
    logging.disable(logging.NOTSET)
    cap = _Capture()
    lg = logging.getLogger("pamiq_core.thread.threads.inference.InferenceThread")
    old_level, old_prop = lg.level, lg.propagate
    lg.setLevel(logging.INFO)
    lg.propagate = False
    lg.addHandler(cap)
    vs, impl, lines = [], ["ok"], ["stats reset 1"]
    try:
        th = InferenceThread(MagicMock(), log_tick_time_statistics_interval=float(F(case["interval"])))
        if "dt" in case:
            # float regime (monitor only, no model line): `n` ticks of the same non-dyadic duration,
            # the statistics fire on their own; bookkeeping must survive any rounding of its sums
            lines, impl = [], []
            for k in range(case["n"]):
                now[0] += float(case["dt"])
                try:
                    th.on_tick()
                except Exception as e:
                    vs.append(Violation(f"c08:stats:{type(e).__name__}",
                                        f"on_tick #{k + 1} raised {type(e).__name__}: {e} (every step lasts "
                                        f"{case['dt']} s, logging interval {case['interval']})", {"stats": case}))
                    break
            return vs, None
        for k, fires in enumerate(case["fires"]):
            # advance the clock so that the scheduler is (not) due at this tick
            now[0] += float(F(case["interval"])) * 2 + 1.0 if fires else 0.0
            lines.append(f"stats tick {int(fires)}")
            try:
                th.on_tick()
                impl.append(f"ok logged={show_list(cap.counts)}")
            except Exception as e:
                impl.append("err " + type(e).__name__)
                vs.append(Violation(f"c08:stats:{type(e).__name__}",
                                    f"on_tick #{k + 1} raised {type(e).__name__} (logging interval "
                                    f"{case['interval']}, firing pattern {case['fires'][:k + 1]})",
                                    {"stats": case}))
                break
    finally:
        lg.removeHandler(cap)
        lg.setLevel(old_level)
        lg.propagate = old_prop
        logging.disable(logging.CRITICAL)
        ptime.time, ptime.fixed_time = saved
    d = None
    if driver is not None:
        for k, (ln, a, b) in enumerate(zip(lines, impl, driver.batch(lines[:len(impl)]))):
            b2 = re.sub(r" n=\d+", "", b)
            if a != b2:
                d = Disagreement("stats", f"line {k} `{ln}`: implementation {a!r}, model {b2!r}", {"stats": case})
                break
    return vs, d


def suite_stats(ctx: Ctx) -> SuiteResult:
    import itertools
    res = SuiteResult("tick-statistics",
                      rule="every firing pattern of the statistics scheduler of length <= 7 (exhaustive) plus "
                           "random patterns up to 40 ticks, logging intervals 0, 1/2, 3; real "
                           "InferenceThread.on_tick with a scripted clock; plus a float-regime stream (equal non-dyadic step "
                           "durations, monitor only: bookkeeping must not raise); non-trivial = fires at least once "
                           "after at least one tick", exhaustive=True)
    from framework import corpus_cases
    cases = [c["case"]["stats"] for c in corpus_cases("C08") if "stats" in c["case"]]
    for n in range(1, 8):
        for pat in itertools.product([False, True], repeat=n):
            cases.append({"interval": "1/2", "fires": list(pat)})
    for _ in range(ctx.n(150, 3000)):
        cases.append({"interval": ctx.rng.choice(["0", "1/2", "3"]),
                      "fires": [ctx.rng.random() < 0.4 for _ in range(ctx.rng.randint(2, 40))]})
    for dt in ["0.1", "0.3", "0.7", "0.001", "1e-05", "0.0123", "3.3", "1e-06"]:
        for iv in ["1", "7"]:
            for n in (50, 400):
                cases.append({"interval": iv, "dt": dt, "n": n})
    for case in cases:
        vs, d = run_stats_case(case, ctx.driver)
        res.evaluations += 1
        if "dt" in case:
            res.hit("float-regime")
            res.violations += vs
            continue
        res.hit("fires:" + str(sum(case["fires"])))
        if any(case["fires"][1:]):
            res.nontrivial.add((case["interval"], tuple(case["fires"])))
        res.violations += vs
        if d: res.disagreements.append(d)
    res.sample(cases[5]); res.sample(cases[-1])
    return res


def suite_uptime_test(ctx: Ctx) -> SuiteResult:
    """The comparison `time.time() - start > max_uptime` of the real ControlThread vs the model."""
    from unittest.mock import MagicMock
    import pamiq_core.time as ptime
    from pamiq_core.thread.threads.control import ControlThread
    res = SuiteResult("uptime-test", rule="random (scale, limit, check instants) on dyadic grids, incl. the "
                      "boundary scale*e == limit; the real is_max_uptime_reached with a scripted system "
                      "clock; non-trivial = the test changes from false to true inside the sequence")
    saved = ptime.time
    try:
        for _ in range(ctx.n(300, 5000)):
            sc = F(ctx.rng.choice([1, 2, 4, 8, 1, 3]), ctx.rng.choice([1, 2, 4]))
            U = F(ctx.rng.randrange(0, 64), 4)
            es, e = [], F(0)
            for _ in range(ctx.rng.randint(1, 12)):
                e += F(ctx.rng.randrange(0, 16), 8)
                es.append(e)
            if ctx.rng.random() < 0.3:
                es.append(U / sc)          # exact boundary
                es.sort()
            ct = ControlThread(MagicMock(), max_uptime=float(U), web_api_address=None)
            start = 1000.0
            ct._system_start_time = start
            first = None
            for x in es:
                ptime.time = (lambda v: (lambda: v))(start + float(sc * x))
                if ct.is_max_uptime_reached:
                    first = x
                    break
            res.evaluations += 1
            if ctx.driver is not None:
                got = ctx.driver.ask(f"stats uptime {show_frac(sc)} {show_frac(U)} {show_list(es, show_frac)}")
                mine = show_frac(first) if first is not None else "none"
                if got != mine:
                    res.disagreements.append(Disagreement("uptime-test", f"scale {sc} limit {U} checks {es}: "
                                                          f"implementation {mine}, model {got}",
                                                          {"uptime": [str(sc), str(U), [str(x) for x in es]]}))
            if first is not None and first != es[0]:
                res.nontrivial.add((sc, U, tuple(es)))
            want = next((x for x in es if sc * x > U), None)
            if first != want:
                res.violations.append(Violation("c08:uptime-test", f"uptime test fired at {first}, expected {want}",
                                                {"uptime": [str(sc), str(U), [str(x) for x in es]]}))
        res.sample({"scale": str(sc), "limit": str(U), "checks": [str(x) for x in es]})
    finally:
        ptime.time = saved
    return res


def run_uptime_float_case(case):
    """Float regime of the uptime clause (monitor only): the real global TimeController on an epoch-sized
    virtual stdlib clock, a tiny time scale, the real `ControlThread.is_max_uptime_reached` polled at a
    fixed real period like the control loop does, the other threads reading the clock in between. The limit
    must be reported within one poll of U/s of real time (rounding may shift it by one more poll)."""
    from unittest.mock import MagicMock
    import pamiq_core.time as ptime
    import c06
    from pamiq_core.thread.threads.control import ControlThread
    fake = c06.FakeStdTime()
    fake.now = F(case["start"])
    saved = (ptime._original_time, dict(ptime._time_controller.__dict__))
    vs = []
    try:
        ptime._original_time = fake
        ctl = ptime._time_controller
        ctl.__init__()
        scale, U, period = F(case["scale"]), F(case["limit"]), F(case["period"])
        ctl.set_time_scale(float(scale))
        ct = ControlThread(MagicMock(), max_uptime=float(U), web_api_address=None)
        ct._system_start_time = ptime.time()
        t0 = fake.now
        due = U / scale
        reached_at = None
        n = int(due / period) + 4
        for k in range(n):
            for _ in range(case["reads_between"]):       # the other threads read the clock, too
                fake.now += period / (case["reads_between"] + 1)
                ptime.time()
            fake.now = t0 + (k + 1) * period
            if ct.is_max_uptime_reached:
                reached_at = fake.now - t0
                break
        if reached_at is None:
            vs.append(Violation("c08:uptime-float:never-reached",
                                f"uptime limit {case['limit']} s at time scale {case['scale']}: not reported after "
                                f"{float(n * period):.3f} s of real time (due after {float(due):.3f} s); the system "
                                f"clock read {ptime.time()!r}", {"uptime_float": case}))
        elif not (due - period <= reached_at <= due + 2 * period):
            vs.append(Violation("c08:uptime-float:window",
                                f"uptime limit reported after {float(reached_at):.4f} s of real time, due after "
                                f"{float(due):.4f} s (poll period {float(period):.4f})", {"uptime_float": case}))
    finally:
        ptime._original_time = saved[0]
        ptime._time_controller.__dict__.clear()
        ptime._time_controller.__dict__.update(saved[1])
    return vs


def suite_uptime_float(ctx: Ctx) -> SuiteResult:
    res = SuiteResult("uptime-float-regime",
                      rule="epoch-sized real clock, time scales 2^-10 / 2^-13, uptime limits of 1-4 ms of system "
                           "time, control loop polling every 2^-10 s with 0-7 clock reads of other threads in "
                           "between; monitor only (IEEE rounding is not modelled); non-trivial = all")
    for scale in ["1/1024", "1/8192"]:
        for limit in ["1/1024", "1/256"]:
            for rb in [0, 7]:
                case = {"start": "1700000000", "scale": scale, "limit": limit, "period": "1/1024",
                        "reads_between": rb}
                vs = run_uptime_float_case(case)
                res.evaluations += 1
                res.nontrivial.add((scale, limit, rb))
                res.violations += vs
    res.sample(case)
    return res


def replay(ctx, payload):
    case = payload.get("case") or payload.get("first_disagreement")
    if "stats" in case:
        res = SuiteResult("replay")
        vs, d = run_stats_case(case["stats"], ctx.driver)
        res.violations, res.evaluations = vs, 1
        if d: res.disagreements.append(d)
        return res
    if "uptime_float" in case:
        res = SuiteResult("replay")
        res.violations, res.evaluations = run_uptime_float_case(case["uptime_float"]), 1
        return res
    if "uptime" in case:
        return suite_uptime_test(ctx)
    return syscheck.make_replay("C08")(ctx, payload)


if __name__ == "__main__":
    import gentie
    setup_repo_path()
    logging.disable(logging.CRITICAL)
    sys_suites = syscheck.make_suites("C08", [("C08", 260, 6000), ("any", 60, 1500)],
        "timed runs of the real launch() over step durations x statistics-logging intervals (0, shorter than "
        "one step, between one and two steps, large) x time scales x uptime limits x save periods x retention "
        "limits x pause/resume scripts; C08 monitor (no thread dies of a framework exception, shutdown only for "
        "a cause, uptime reached within (U/s, U/s + loop period + step in flight] of un-paused time) + trace "
        "refinement against Pamiq.Proto; non-trivial = contains a pause/save/resume/status")
    sys.exit(run_check(
        "C08", lean_modules=["Pamiq.Props.C08"],
        required_theorems=["Pamiq.Proto.only_stops_for_cause", "Pamiq.Proto.shutdown_call_needs_cause",
                           "Pamiq.Proto.exc_flag_needs_user_fault", "Pamiq.Bookkeep.stats_total",
                           "Pamiq.Bookkeep.uptime_window", "Pamiq.Bookkeep.stats_unguarded_raises"],
        suites=[gentie.suite_for("C08"), suite_stats, suite_uptime_test, suite_uptime_float, *sys_suites],
        search=syscheck.make_search("C08", ["C08"]), replay=replay,
        assumptions=syscheck.PROTO_ASSUMPTIONS + [
            "other bookkeeping on the paths of launch() is covered by its own property: keeper popleft/rmtree "
            "(C18), get_nowait after has_commands (C17), schedulers (C15), clock arithmetic (C06)",
            "timed mode coarsens the loop delay to a quantum of virtual time; float comparison at the exact "
            "uptime boundary is exercised on dyadic values"],
        trusted_extra=syscheck.PROTO_TRUSTED,
        level_text="shutdown-only-for-a-cause invariant of Pamiq.Proto, totality of the step statistics for "
                   "every firing pattern, uptime-window arithmetic theorem; correspondence with the real code"))
