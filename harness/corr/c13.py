"""C13 — every trainer gets its turn and trains only when its data condition holds.

Correspondence: real `Trainer` subclasses (recording `run/setup/train/sync_models/teardown`), real
`TrainersDict`, real `DataUsersDict` / `DataUser` / `DataCollector` over a `SequentialBuffer` (or a
harness buffer whose queue size differs from its capacity) and the real `TrainingThread.on_tick`
called directly (the thread is never started), on a fresh `TimeController` over a scripted stdlib
clock (scaled / paused between operations). The same history — sample arrivals with the timestamps
the code read, ticks with the decision reading — is given to the Lean model
(`Pamiq/Model/Trainer.lean`); offered trainer, outcome, call order, number of clock readings,
`len`, `count_data_added_since`, `get_data` and the saved `previous_training_time` must be equal.

Monitor (independent of the model, a specification-level recomputation from the arrival log):
  R  tick k calls run() of exactly one trainer, the (k mod n)-th in mapping order
  G  a conditioned trainer runs  <=>  delivered-and-retained >= min size  and
     #(timestamps > previous positive decision, within the last queue-size delivered) >= min new
  U  an unconditioned trainer always runs
  O  a run executes setup, train, sync_models, teardown in that order; a refusal executes nothing
  P  the saved previous-training-time is the reading of the last positive decision
"""
from __future__ import annotations

import itertools
import math
import shutil
import sys
import tempfile
import warnings
from collections import deque
from fractions import Fraction as F
from pathlib import Path

sys.path.insert(0, str(Path(__file__).resolve().parent.parent))
from framework import (Ctx, Disagreement, SuiteResult, Violation, corpus_cases, run_check,
                       setup_repo_path, show_frac, show_list)

TMP = Path(tempfile.mkdtemp(prefix="pamiq-verif-c13."))


class ScriptedStdTime:
    def __init__(self) -> None:
        self.now = F(0)

    def time(self) -> float: return float(self.now)
    def perf_counter(self) -> float: return float(self.now)
    def monotonic(self) -> float: return float(self.now)
    def sleep(self, secs: float) -> None: self.now += F(secs)


class World:
    """Fresh TimeController on a scripted clock, re-pointed into `pamiq_core.time`; every
    `time.time()` the code under test makes is recorded."""

    NAMES = ("is_paused", "sleep", "perf_counter", "monotonic", "set_time_scale",
             "get_time_scale", "pause", "resume", "state_dict", "load_state_dict")

    def __init__(self, start: F) -> None:
        import pamiq_core.time as ptime
        self.ptime = ptime
        self.std = ScriptedStdTime()
        self.std.now = start
        ptime._original_time = self.std
        self.ctl = ptime.TimeController()
        ptime._time_controller = self.ctl
        for n in self.NAMES:
            setattr(ptime, n, getattr(self.ctl, n))
        self.reads: list[F] = []
        ctl_time = self.ctl.time

        def recorded_time() -> float:
            v = ctl_time()
            self.reads.append(F(v))
            return v

        ptime.time = recorded_time

    def take(self) -> list[F]:
        r, self.reads = self.reads, []
        return r


def ext(x) -> str:
    return "-inf" if x is None else show_frac(F(x))


def run_case(case: dict, driver):
    from pamiq_core.data import DataBuffer, DataUsersDict
    from pamiq_core.data.impls import SequentialBuffer
    from pamiq_core.thread.threads.training import TrainingThread
    from pamiq_core.trainer import Trainer, TrainersDict

    violations: list[Violation] = []
    seen: set[str] = set()

    def violate(key: str, what: str) -> None:
        if key not in seen:
            seen.add(key)
            violations.append(Violation(key, what, case))

    class QBuffer(DataBuffer):
        """capacity and collector queue size chosen independently"""

        def __init__(self, cap: int, q):
            super().__init__(q)
            self._d = deque(maxlen=cap)

        def add(self, data): self._d.append(data)
        def get_data(self): return list(self._d)
        def __len__(self): return len(self._d)
        def save_state(self, path): pass
        def load_state(self, path): pass

    log: list[tuple[str, str]] = []

    class RecTrainer(Trainer):
        def __init__(self, name, **kw):
            super().__init__(**kw)
            self.n = name

        def run(self):
            log.append((self.n, "run"))
            r = super().run()
            log.append((self.n, "ran" if r else "skipped"))
            return r

        def setup(self): super().setup(); log.append((self.n, "setup"))
        def train(self): log.append((self.n, "train"))
        def sync_models(self): super().sync_models(); log.append((self.n, "sync_models"))
        def teardown(self): super().teardown(); log.append((self.n, "teardown"))

    world = World(F(case.get("start", "0")))
    lines = ["trainer reset"]
    impl = ["ok"]
    trace: list = []

    # ---- build ----
    buffers = {}
    spec_users: dict[str, dict] = {}
    with warnings.catch_warnings():
        warnings.simplefilter("ignore")
        for u in case["users"]:
            name, cap, q = u["name"], u["cap"], u["q"]
            buffers[name] = SequentialBuffer(cap) if q == "cap" else QBuffer(cap, q)
            qq = cap if q == "cap" else q
            lines.append(f"trainer user {name} cap={cap} q={'none' if qq is None else qq}")
            impl.append("ok")
            spec_users[name] = {"cap": cap, "q": qq, "delivered": [], "pending": [], "total": 0}
        users = DataUsersDict.from_data_buffers(buffers)
    collectors = {n: users.data_collectors_dict.acquire(n) for n in buffers}
    trainers = TrainersDict()
    spec_tr: list[dict] = []
    for t in case["trainers"]:
        tr = RecTrainer(t["name"], training_condition_data_user=t["cond"],
                        min_buffer_size=t["min_size"], min_new_data_count=t["min_new"])
        if "prev" in t:       # a restored trainer (public load_state)
            p = TMP / "load"
            shutil.rmtree(p, ignore_errors=True)
            p.mkdir(parents=True)
            (p / "previous_training_time").write_text(str(float(F(t["prev"]))), encoding="utf-8")
            tr.load_state(p)
        trainers[t["name"]] = tr
        lines.append(f"trainer add {t['name']} cond={t['cond'] or 'none'} min_size={t['min_size']} "
                     f"min_new={t['min_new']} prev={ext(t.get('prev'))}")
        impl.append("ok")
        spec_tr.append({"name": t["name"], "cond": t["cond"], "min_size": t["min_size"],
                        "min_new": t["min_new"], "prev": F(t["prev"]) if "prev" in t else None})
    trainers.attach_data_users(users)
    thread = TrainingThread(trainers)
    n = len(spec_tr)
    world.take()

    def spec_update(su: dict) -> None:
        pend = su["pending"]
        if su["q"] is not None:
            pend = pend[len(pend) - min(len(pend), su["q"]):]      # the collector kept the newest q
        su["delivered"] += pend
        su["total"] += len(pend)
        su["pending"] = []

    def spec_window(su: dict) -> list[F]:
        d = su["delivered"]
        return d if su["q"] is None else d[len(d) - min(len(d), su["q"]):]

    sample = 0
    ticks = 0
    for i, op in enumerate(case["ops"]):
        kind = op[0]
        world.std.now += F(op[1])
        if kind in ("pause", "resume"):
            getattr(world.ptime, kind)()
            trace.append((kind,))
        elif kind == "scale":
            world.ptime.set_time_scale(float(F(op[2])))
            trace.append((kind,))
        elif kind == "collect":
            name = op[2]
            sample += 1
            world.take()
            try:
                collectors[name].collect(sample)
                out = "ok"
            except KeyError:
                out = "err KeyError"
            rd = world.take()
            if not rd:          # (an implementation that stamps differently: use the instant)
                rd = [F(world.ctl.time())]
            lines.append(f"trainer collect {name} {sample} t={show_frac(rd[0])}")
            impl.append(out)
            spec_users[name]["pending"].append(rd[0])
            trace.append((kind, name))
        elif kind == "probe":
            name = op[2]
            du = users[name]
            if op[3] == "data":
                lines.append(f"trainer data {name}")
                impl.append(show_list(du.get_data()))
                spec_update(spec_users[name])
            elif op[3] == "len":
                lines.append(f"trainer len {name}")
                impl.append(str(len(du)))
            else:
                since = op[4]
                lines.append(f"trainer count {name} since={ext(since)}")
                impl.append(str(du.count_data_added_since(-math.inf if since is None
                                                         else float(F(since)))))
            trace.append((kind, op[3]))
        elif kind == "new_session":
            # the same trainer objects are wired to a fresh set of data users (a second launch() in one
            # process builds new DataUsersDict / collectors and attaches them): from now on every decision
            # looks at the new buffers
            buffers = {}
            with warnings.catch_warnings():
                warnings.simplefilter("ignore")
                for u in case["users"]:
                    name, cap, q = u["name"], u["cap"], u["q"]
                    buffers[name] = SequentialBuffer(cap) if q == "cap" else QBuffer(cap, q)
                    su = spec_users[name]
                    su["delivered"], su["pending"], su["total"] = [], [], 0
                users = DataUsersDict.from_data_buffers(buffers)
            collectors = {n: users.data_collectors_dict.acquire(n) for n in buffers}
            trainers.attach_data_users(users)
            for st_ in spec_tr:
                st_["seen"] = None      # delivery counts of the previous session mean nothing for the new buffers
            lines.append("trainer reattach")
            impl.append("ok")
            trace.append((kind, ""))
        elif kind == "thread_pause_resume":
            # the training thread's own pause/resume cycle (hooks forwarded to the trainers) between
            # two ticks: it must not disturb whose turn it is — the model has no such operation,
            # i.e. it is the identity on the cursor and on every marker
            thread.on_paused()
            thread.on_resumed()
            trace.append((kind, ""))
        elif kind == "tick":
            del log[:]
            world.take()
            err = None
            race = op[2] if len(op) > 2 else None
            pre: list[F] = []
            restore = None
            if race is not None and race["user"] in collectors:
                # a collector on the inference thread lands one sample just before this decision moves
                # the queue (the racing window of is_trainable): sequentially, from inside update()
                du_r = users[race["user"]]
                orig_update = du_r.update
                fired = [False]

                def racing_update(_du=du_r, _orig=orig_update, _race=race):
                    nonlocal sample
                    if not fired[0]:
                        fired[0] = True
                        pre.extend(world.take())            # clock readings the decision made so far
                        world.std.now += F(_race["adv"])
                        sample += 1
                        collectors[_race["user"]].collect(sample)
                        rdc = world.take() or [F(world.ctl.time())]
                        lines.append(f"trainer collect {_race['user']} {sample} t={show_frac(rdc[0])}")
                        impl.append("ok")
                        spec_users[_race["user"]]["pending"].append(rdc[0])
                        world.std.now += F(_race["adv"])
                    return _orig()
                du_r.update = racing_update
                restore = (du_r, orig_update)
            try:
                thread.on_tick()
            except KeyError:
                err = "err KeyError"
            finally:
                if restore is not None:
                    del restore[0].update            # back to the class's method
            rd = pre + world.take()
            now = rd[0] if rd else F(0)
            lines.append(f"trainer tick now={show_frac(now)}")
            runs = [x for x in log if x[1] == "run"]
            offered = runs[0][0] if runs else "none"
            ran = any(x[1] == "ran" for x in log)
            calls = [x[1] for x in log if x[1] in ("setup", "train", "sync_models", "teardown")]
            impl.append(err or f"offered={offered} ran={'1' if ran else '0'} calls={show_list(calls)} "
                               f"reads={len(rd)}")
            # ---------------- monitor ----------------
            if n == 0:
                if log:
                    violate("trainer:tick-without-trainers", f"tick with no trainer did {log}")
            else:
                expect = spec_tr[ticks % n]
                if len(runs) != 1 or offered != expect["name"]:
                    violate("trainer:round-robin", f"tick #{ticks} (n={n}) called run() of "
                            f"{[r[0] for r in runs]}, expected exactly [{expect['name']}]")
                st = expect
                if err is None:
                    if st["cond"] is None:
                        should = True
                    else:
                        su = spec_users[st["cond"]]
                        spec_update(su)
                        size = min(su["cap"], su["total"])
                        win = spec_window(su)
                        new = sum(1 for t_ in win if st["prev"] is None or t_ > st["prev"])
                        should = size >= st["min_size"] and new >= st["min_new"]
                    if ran != should:
                        why = "" if st["cond"] is None else (
                            f" (buffer holds {size}, min {st['min_size']}; {new} of the last "
                            f"{len(win)} delivered samples arrived after {ext(st['prev'])}, min "
                            f"{st['min_new']})")
                        violate("trainer:ran-without-condition" if ran else "trainer:refused-with-condition",
                                f"tick #{ticks}: trainer {st['name']} "
                                f"{'ran' if ran else 'did not run'} but its data condition "
                                f"{'holds' if should else 'does not hold'}{why}")
                    if ran and st["cond"] is not None and st.get("seen") is not None and \
                            su["total"] - st["seen"] < st["min_new"]:
                        # counted by delivery instead of by timestamp: every sample whose timestamp is
                        # later than the marker of the previous run was delivered after that run
                        violate("trainer:ran-on-old-data",
                                f"tick #{ticks}: trainer {st['name']} ran although only "
                                f"{su['total'] - st['seen']} sample(s) reached the buffer since its previous run "
                                f"(min_new_data_count {st['min_new']}): samples of the previous run were counted again")
                    if ran:
                        if calls != ["setup", "train", "sync_models", "teardown"]:
                            violate("trainer:run-order", f"tick #{ticks}: run executed {calls}")
                        if st["cond"] is not None:
                            st["prev"] = now if rd else F(world.ctl.time())
                            st["seen"] = su["total"]
                    elif calls:
                        violate("trainer:calls-without-run", f"tick #{ticks}: refused but executed {calls}")
                    ticks += 1
                else:
                    if st["cond"] is None or st["cond"] in spec_users:
                        violate("trainer:unexpected-error", f"tick #{ticks}: {err}")
            trace.append((kind, offered, "ran" if ran else ("error" if err else "skipped")))
        else:
            raise ValueError(kind)

    # ---- final observation: the persisted marker of every trainer (public save_state) ----
    for st in spec_tr:
        p = TMP / "save"
        shutil.rmtree(p, ignore_errors=True)
        trainers[st["name"]].save_state(p)
        v = float((p / "previous_training_time").read_text("utf-8"))
        got = None if v == -math.inf else F(v)
        lines.append(f"trainer prev {st['name']}")
        impl.append(ext(got))
        if got != st["prev"]:
            violate("trainer:marker", f"trainer {st['name']}: saved previous_training_time {ext(got)}, "
                    f"last positive decision was read at {ext(st['prev'])}")

    disagreement = None
    if driver is not None:
        replies = driver.batch(lines)
        for j, (ln, a, b) in enumerate(zip(lines, impl, replies)):
            if a != b:
                disagreement = Disagreement("trainer-history", f"line {j} `{ln}`: implementation "
                                            f"{a!r}, model {b!r}", case)
                break
    return violations, disagreement, trace


# ------------------------------------------------------------------------------------------------
GAPS = ["0", "0", "0", "1/4", "1/2", "1", "2", "5"]
THRESH = [-1, 0, 0, 1, 1, 2, 3, 5]


def gen_case(rng) -> dict:
    nu = rng.choice([1, 1, 2, 3])
    users = []
    for i in range(nu):
        cap = rng.choice([0, 1, 2, 3, 3, 5, 8])
        q = rng.choice(["cap", "cap", None, 0, 1, 2, 3, 5, 8])
        users.append({"name": f"u{i}", "cap": cap, "q": q})
    nt = rng.choice([0, 1, 1, 2, 2, 3, 4])
    trainers = []
    for i in range(nt):
        r = rng.random()
        cond = None if r < 0.2 else (f"u{rng.randrange(nu)}" if r < 0.97 else "missing")
        t = {"name": f"t{i}", "cond": cond, "min_size": rng.choice(THRESH), "min_new": rng.choice(THRESH)}
        if rng.random() < 0.15:
            t["prev"] = str(F(rng.randrange(0, 40), 4))
        trainers.append(t)
    ops = []
    paused = False
    for _ in range(rng.randint(3, 40)):
        r = rng.random()
        gap = rng.choice(GAPS)
        if r < 0.5:
            ops.append(["collect", gap, f"u{rng.randrange(nu)}"])
        elif r < 0.80:
            if rng.random() < 0.25:
                # a sample collected while the decision is being taken (just before the queue is moved)
                ops.append(["tick", gap, {"user": f"u{rng.randrange(nu)}", "adv": rng.choice(["1/4", "1", "0"])}])
            else:
                ops.append(["tick", gap])
        elif r < 0.83:
            ops.append(["thread_pause_resume", gap])
        elif r < 0.85:
            ops.append(["new_session", gap])
        elif r < 0.92:
            what = rng.choice(["len", "count", "count", "data"])
            since = None if rng.random() < 0.2 else str(F(rng.randrange(0, 80), 4))
            ops.append(["probe", gap, f"u{rng.randrange(nu)}", what, since])
        elif r < 0.96:
            ops.append(["resume" if paused else "pause", gap])
            paused = not paused
        else:
            ops.append(["scale", gap, rng.choice(["1/2", "1", "2", "4"])])
    return {"start": str(F(rng.randrange(0, 100), 4)), "users": users, "trainers": trainers, "ops": ops}


def account(res: SuiteResult, case, vs, d, tr) -> None:
    res.evaluations += 1
    res.violations += vs
    if d:
        res.disagreements.append(d)
    for t in tr:
        res.hit("op:" + t[0])
        if t[0] == "tick":
            res.hit("branch:" + t[2])


def suite_corpus(ctx: Ctx) -> SuiteResult:
    res = SuiteResult("trainer-corpus", rule="committed witnesses; non-trivial = all")
    for c in corpus_cases("C13"):
        vs, d, tr = run_case(c["case"], ctx.driver)
        account(res, c["case"], vs, d, tr)
        res.nontrivial.add(c["_corpus_file"])
    return res


def suite_exhaustive(ctx: Ctx) -> SuiteResult:
    """Every interleaving pattern of arrivals and ticks of a given length for two trainers sharing
    one data user, over a grid of thresholds and queue sizes."""
    L = 5 if ctx.tier == "quick" else 7
    res = SuiteResult("trainer-exhaustive-small",
                      rule=f"two trainers (one conditioned on the shared data user, the other "
                           f"conditioned or not) x thresholds in {{0,1,2}}^2 x (cap, queue) in "
                           f"{{(2,1),(3,cap)}} (thorough: also (2,2),(1,none)) x every sequence of {L} operations over "
                           "{arrival at the same instant, arrival 1 s later, tick}; non-trivial = at "
                           "least one run and one refusal", exhaustive=True)
    case = None
    grids = [(2, 1), (3, "cap")] if ctx.tier == "quick" else [(2, 1), (2, 2), (3, "cap"), (1, None)]
    alphabet = [["collect", "0", "u0"], ["collect", "1", "u0"], ["tick", "0"]]
    for (cap, q), ms, mn, other in itertools.product(grids, [0, 1, 2], [0, 1, 2], [None, "u0"]):
        if ctx.tier == "quick" and (ms + mn) % 2 == 1 and other is None:
            continue
        for combo in itertools.product(alphabet, repeat=L):
            if sum(1 for o in combo if o[0] == "tick") < 2:
                continue
            case = {"start": "0", "users": [{"name": "u0", "cap": cap, "q": q}],
                    "trainers": [{"name": "a", "cond": "u0", "min_size": ms, "min_new": mn},
                                 {"name": "b", "cond": other, "min_size": 1, "min_new": 1}],
                    "ops": [list(o) for o in combo]}
            vs, d, tr = run_case(case, ctx.driver)
            account(res, case, vs, d, tr)
            outs = {t[2] for t in tr if t[0] == "tick"}
            if {"ran", "skipped"} <= outs:
                res.nontrivial.add((cap, q, ms, mn, other, tuple(o[0] + o[1] for o in combo)))
            if len(res.violations) > 20 or len(res.disagreements) > 20:
                return res
    res.sample({"case": case})
    return res


def suite_random(ctx: Ctx) -> SuiteResult:
    res = SuiteResult("trainer-random-histories",
                      rule="0-4 trainers (20% unconditioned, 3% naming a missing data user, 15% with a "
                           "restored marker) over 1-3 data users (capacity 0-8, queue size "
                           "None/0/1/2/3/5/8/capacity), 3-40 operations (arrivals, ticks, len/count/"
                           "get_data probes, clock pause/resume/rescale) with dyadic gaps incl. 0 "
                           "(ties between arrival and decision instants); non-trivial = at least one "
                           "run and one refusal of a conditioned trainer; distinct by (setup, trace)")
    n = ctx.n(2500, 40000)
    for _ in range(n):
        case = gen_case(ctx.rng)
        vs, d, tr = run_case(case, ctx.driver)
        account(res, case, vs, d, tr)
        outs = {t[2] for t in tr if t[0] == "tick"}
        if {"ran", "skipped"} <= outs:
            res.nontrivial.add((repr(case["users"]), repr(case["trainers"]), repr(tr)))
        res.hit(f"trainers:{len(case['trainers'])}")
        res.sample({"case": case, "trace": tr})
        if len(res.violations) > 20 or len(res.disagreements) > 20:
            break
    return res


def suite_malformed(ctx: Ctx) -> SuiteResult:
    res = SuiteResult("trainer-malformed",
                      rule="no trainer at all; a trainer whose condition names a missing data user "
                           "(KeyError on every tick, cursor not advanced); malformed driver lines; "
                           "non-trivial = every case", exhaustive=True)
    cases = [
        {"users": [{"name": "u0", "cap": 2, "q": "cap"}], "trainers": [],
         "ops": [["tick", "0"], ["collect", "1", "u0"], ["tick", "0"]]},
        {"users": [{"name": "u0", "cap": 2, "q": "cap"}],
         "trainers": [{"name": "a", "cond": None, "min_size": 0, "min_new": 0},
                      {"name": "b", "cond": "missing", "min_size": 0, "min_new": 0}],
         "ops": [["tick", "0"], ["tick", "0"], ["tick", "1"], ["tick", "1"]]},
    ]
    for c in cases:
        vs, d, tr = run_case(c, ctx.driver)
        account(res, c, vs, d, tr)
        res.nontrivial.add(repr(c))
        res.sample({"case": c, "trace": tr})
    if ctx.driver is not None:
        bad = ["trainer", "trainer user u", "trainer user u cap=x q=1", "trainer add a cond=u",
               "trainer collect u 1", "trainer collect u x t=1", "trainer tick", "trainer tick now=z",
               "trainer count u since=q", "trainer frob"]
        ctx.driver.batch(["trainer reset", "trainer user u cap=1 q=1"])
        for ln, rep in zip(bad, ctx.driver.batch(bad)):
            res.evaluations += 1
            res.hit("driver:bad-op")
            if rep != "bad-op":
                res.disagreements.append(Disagreement("trainer-malformed", f"driver accepted `{ln}`: {rep}",
                                                      {"line": ln}))
    return res


def search(ctx: Ctx, disagreements, broken):
    import random
    out: list[Violation] = []
    for d in disagreements:
        if isinstance(d.case, dict) and "ops" in d.case:
            vs, _, _ = run_case(d.case, None)
            out += vs
    if out:
        return out
    rng = random.Random(ctx.seed + 1)
    for _ in range(ctx.n(15000, 100000)):
        vs, _, _ = run_case(gen_case(rng), None)
        if vs:
            return vs
    return out


def replay(ctx: Ctx, payload: dict) -> SuiteResult:
    res = SuiteResult("replay")
    case = payload.get("case") or payload.get("first_disagreement")
    vs, d, tr = run_case(case, ctx.driver)
    res.evaluations = 1
    res.violations = vs
    if d:
        res.disagreements.append(d)
    print("trace:", tr)
    return res


if __name__ == "__main__":
    import gentie
    setup_repo_path()
    try:
        code = run_check(
            "C13", lean_modules=["Pamiq.Props.C13"],
            required_theorems=["Pamiq.Trainer.round_robin", "Pamiq.Trainer.runs_iff",
                               "Pamiq.Trainer.prev_only_on_positive", "Pamiq.Trainer.run_order",
                               "Pamiq.Trainer.unconditioned_always_runs",
                               "Pamiq.Trainer.countSince_sorted", "Pamiq.Trainer.update_window",
                               "Pamiq.Trainer.runs_iff_window",
                               "Pamiq.Trainer.marker_is_last_positive"],
            suites=[gentie.suite_for("C13"), suite_corpus, suite_exhaustive, suite_random, suite_malformed],
            search=search, replay=replay,
            assumptions=["IEEE-754 rounding is not modelled: clock values dyadic; compared for equality",
                         "the system clock never steps backwards (C06), so timestamps are non-decreasing",
                         "single-threaded: arrivals happen between ticks (the interleaving of collect "
                         "with update inside a tick is C07's subject)",
                         "train/setup/teardown of the recording trainers do not collect data or raise; "
                         "model synchronisation is one opaque call (its content is C14)",
                         "the list of trainers is fixed after the first tick (cached by the thread)"],
            trusted_extra=["scripted stdlib clock under a fresh TimeController re-pointed into "
                           "pamiq_core.time, recording wrapper around pamiq_core.time.time "
                           "(harness/corr/c13.py)"],
            level_text="invariant over all tick/arrival histories (round robin regardless of "
                       "outcomes), decision logic of is_trainable stated outright, marker updated only "
                       "on positive decisions; correspondence of the model with TrainingThread.on_tick / "
                       "Trainer / DataUser")
    finally:
        shutil.rmtree(TMP, ignore_errors=True)
    sys.exit(code)
