"""C15 — periodic triggers fire when due and never skip an interval silently.

Correspondence: histories of the public operations of the real `TimeIntervalScheduler`,
`StepIntervalScheduler` and `PeriodicSaveCondition` are run against an *adversarial* virtual clock
(the stdlib clock under `pamiq_core.time` is a scripted stand-in that advances by a scripted amount
on every read, and the system clock on top of it is scaled / paused by the case) and, line by line,
on the Lean model (`Pamiq/Model/Sched.lean`): the callbacks invoked (ids, in order), the number of
clock readings made, the public `is_available()` answers and the exceptions must be equal.

Monitor: the property statement written directly in Python on the observable behaviour
(callback invocations, `is_available()` probes at frozen instants, return values of the save
condition), independent of the Lean model:
  O  fired                      =>  more than `interval` of system time since the previous firing
  W  more than `interval` since the previous firing (whole update later than it)  =>  fires
  R  an update that ran no callback leaves the interval alone (seen through W/O on frozen probes)
  C  a firing runs every registered callback exactly once, in registration order
  S  step scheduler: fires on exactly every n-th update
"""
from __future__ import annotations

import itertools
import sys
from fractions import Fraction as F
from pathlib import Path

sys.path.insert(0, str(Path(__file__).resolve().parent.parent))
from framework import (Ctx, Disagreement, SuiteResult, Violation, corpus_cases, run_check,
                       setup_repo_path, show_frac, show_list)


# ------------------------------------------------------------------------------------------------
# virtual clock
# ------------------------------------------------------------------------------------------------
class FakeStdTime:
    """Stand-in for the stdlib `time` module used by pamiq_core.time: every read returns the
    current virtual instant and then advances it by the next scripted amount (adversarial)."""

    def __init__(self) -> None:
        self.now = F(0)
        self.script: list[F] = []
        self.nreads = 0

    def _read(self) -> float:
        v = self.now
        self.nreads += 1
        if self.script:
            self.now += self.script.pop(0)
        return float(v)

    def time(self) -> float: return self._read()
    def perf_counter(self) -> float: return self._read()
    def monotonic(self) -> float: return self._read()
    def sleep(self, secs: float) -> None: self.now += F(secs)


class CallableObject:
    """A callback that is an object with `__call__` - and, like a container-like handler that is empty when it is
    registered, possibly falsy: presence must not be mistaken for truthiness."""

    def __init__(self, f, truthy: bool) -> None:
        self._f, self._truthy = f, truthy

    def __call__(self) -> None:
        self._f()

    def __bool__(self) -> bool:
        return self._truthy


class CallbackBoom(Exception):
    """Raised by a harness callback the case tells to fail."""


class SysClock:
    """The real global `TimeController` re-initialised on a FakeStdTime, with `pamiq_core.time.time`
    wrapped so that every reading the code under test makes is recorded."""

    def __init__(self, scale: F) -> None:
        import pamiq_core.time as ptime
        self.ptime = ptime
        self.fake = FakeStdTime()
        ptime._original_time = self.fake
        self.ctl = ptime._time_controller
        self.ctl.__init__()                       # anchors taken at virtual instant 0, frozen
        if scale != 1:
            self.ctl.set_time_scale(float(scale))
        self.reads: list[F] = []
        self.recording = False
        ctl_time = self.ctl.time

        def recorded_time() -> float:
            v = ctl_time()
            if self.recording:
                self.reads.append(F(v))
            return v

        ptime.time = recorded_time
        for name in ("pause", "resume", "is_paused", "set_time_scale", "get_time_scale"):
            setattr(ptime, name, getattr(self.ctl, name))

    def peek(self) -> F:
        """System time now, without advancing or recording anything."""
        saved, self.fake.script = self.fake.script, []
        v = F(self.ctl.time())
        self.fake.script = saved
        return v

    def begin(self, script: list[F]) -> None:
        self.fake.script = list(script)
        self.reads = []
        self.recording = True

    def end(self) -> list[F]:
        self.recording = False
        self.fake.now += sum(self.fake.script, F(0))   # unread part of the script still elapses
        self.fake.script = []
        return self.reads


def rshow(reads: list[F]) -> str:
    return "r=" + show_list(reads, show_frac)


# ------------------------------------------------------------------------------------------------
# one case
# ------------------------------------------------------------------------------------------------
def run_case(case: dict, driver, variant: str = "1"):
    """Run one history on the implementation (+ monitor) and on the model.
    Returns (violations, disagreement-or-None, trace)."""
    kind = case["kind"]
    if kind == "step":
        return run_step_case(case, driver)
    import pamiq_core.utils.schedulers as sched_mod
    from pamiq_core.state_persistence import PeriodicSaveCondition

    violations: list[Violation] = []
    trace: list = []
    lines: list[str] = ["sched variant " + variant]
    impl: list[str] = ["ok"]
    seen: set[str] = set()

    def violate(key: str, what: str) -> None:
        if key not in seen:
            seen.add(key)
            violations.append(Violation(key, what, case))

    scale = F(case.get("scale", "1"))
    clk = SysClock(scale)
    clk.fake.now = F(case.get("start", "0"))
    interval = F(case["interval"])
    cb_adv = F(case.get("cb_adv", "0"))
    log: list[tuple[int, F]] = []
    fns: dict[int, object] = {}

    raise_at = {int(k): set(v) for k, v in case.get("raise_at", {}).items()}
    calls: dict[int, int] = {}

    def cb(i: int):
        if i not in fns:
            def f() -> None:
                log.append((i, clk.peek()))
                clk.fake.now += cb_adv          # a callback takes (real) time
                calls[i] = calls.get(i, 0) + 1
                if calls[i] in raise_at.get(i, ()):
                    raise CallbackBoom(f"callback {i}, invocation {calls[i]}")
            fns[i] = CallableObject(f, i % 2 == 0)
        return fns[i]

    def next_failing_position() -> int | None:
        """Position (in registration order) of the callback that will raise if the loop runs now."""
        extra: dict[int, int] = {}
        for j, c in enumerate(registered):
            extra[c] = extra.get(c, 0) + 1
            if calls.get(c, 0) + extra[c] in raise_at.get(c, ()):
                return j
        return None

    registered = list(case.get("cbs", []))      # monitor's own record of the registrations

    def rogue() -> None:
        violate("sched:callers-list-aliased", "a function the caller put into its own list after the scheduler "
                "was constructed - never registered - was run as a callback")
    # ---- construction ----
    e0 = clk.peek()
    clk.begin([F(x) for x in case.get("ctor", [])])
    obj = None
    try:
        if kind == "time":
            # the caller's own list object: what the caller does with it afterwards (reuse for another
            # scheduler, clear it) must not change what is registered here
            given = [cb(i) for i in registered]
            # `callbacks` is documented as an iterable: a list, a tuple, a generator, an iterator over a list
            form = (sum(registered) + len(registered)) % 4
            arg = [given, tuple(given), (g for g in given), iter(list(given))][form]
            if len(given) == 1 and registered[0] % 3 != 2:
                arg = given[0]          # "or a single callback": the bare callable (every second one is falsy)
            obj = sched_mod.TimeIntervalScheduler(float(interval), arg)
            given.append(rogue)
            del given[:-1]
        else:
            obj = PeriodicSaveCondition(float(interval))
        out = "ok"
    except ValueError:
        out = "err ValueError"
    reads = clk.end()
    x0 = clk.peek()
    impl.append(f"{out} reads={len(reads)}")
    if kind == "time":
        lines.append(f"sched new_time {show_frac(interval)} cbs={show_list(registered)} {rshow(reads)}")
    else:
        lines.append(f"sched new_psc {show_frac(interval)} {rshow(reads)}")
    if (interval < 0) != (obj is None):
        violate("sched:ctor-guard", f"interval {interval}: constructor "
                f"{'accepted' if obj is not None else 'rejected'} it")
    trace.append(("new", out))

    # previous firing (or construction) happened somewhere in [e_last, x_last] (system time)
    e_last, x_last = e0, x0

    def check_probe(tag: str, avail: bool, t: F) -> None:
        if t - x_last > interval and not avail:
            violate("sched:silent-restart" if tag.startswith("after-idle") else "sched:not-available-when-due",
                    f"{tag}: system time {show_frac(t)} is more than interval {show_frac(interval)} after "
                    f"the previous firing (at most {show_frac(x_last)}) but is_available() is False "
                    f"and no callback ran: the elapsed interval was dropped")
        if avail and not (t - e_last > interval):
            violate("sched:available-too-early",
                    f"{tag}: is_available() is True at {show_frac(t)}, only {show_frac(t - e_last)} "
                    f"after the previous firing (interval {show_frac(interval)})")

    if obj is not None:
        for i, op in enumerate(case["ops"]):
            name = op[0]
            clk.fake.now += F(op[1])
            if name in ("pause", "resume"):
                getattr(clk.ctl, name)()
                trace.append((name, ""))
                continue
            if name == "rewind":
                # an older clock state is loaded: system time steps back by op[2]
                d = clk.ctl.state_dict()
                clk.ctl.load_state_dict({k: v - float(F(op[2])) for k, v in d.items()})
                trace.append((name, op[2]))
                continue
            if name == "probe":
                if kind != "time":
                    continue
                clk.begin([])
                avail = bool(obj.is_available())
                rd = clk.end()
                lines.append(f"sched is_available {rshow(rd)}")
                impl.append("1" if avail else "0")
                check_probe(f"op#{i} probe", avail, clk.peek())
                trace.append((name, avail))
                continue
            if name == "register":
                obj.register_callback(cb(op[2]))
                registered.append(op[2])
                lines.append(f"sched register {op[2]}")
                impl.append("ok")
                trace.append((name, op[2]))
                continue
            if name == "remove":
                try:
                    obj.remove_callback(cb(op[2]))
                    out = "ok"
                except ValueError:
                    out = "err ValueError"
                if (op[2] in registered) != (out == "ok"):
                    violate("sched:remove", f"remove_callback({op[2]}) with {registered}: {out}")
                if op[2] in registered:
                    registered.remove(op[2])
                lines.append(f"sched remove {op[2]}")
                impl.append(out)
                trace.append((name, out))
                continue
            # ---- update / call ----
            script = [F(x) for x in op[2]]
            e = clk.peek()
            del log[:]
            clk.begin(script)
            ret = None
            raised = False
            fail_pos = next_failing_position() if kind == "time" and raise_at else None
            if kind == "time":
                try:
                    obj.update()
                except CallbackBoom:
                    raised = True
            else:
                ret = bool(obj())
            rd = clk.end()
            x = clk.peek()
            ran = [j for j, _ in log]
            if kind == "time" and raise_at:
                lines.append(f"sched update_f {'none' if fail_pos is None else fail_pos} {rshow(rd)}")
                impl.append(f"ran={show_list(ran)} raised={'1' if raised else '0'} reads={len(rd)}")
                if raised:
                    # the callbacks up to the raising one ran once each in order, the later ones did not,
                    # and the interval was not restarted: it is still due at the (frozen) exit instant
                    if ran != registered[:fail_pos + 1]:
                        violate("sched:callback-order", f"op#{i}: callbacks invoked {ran}, registered "
                                f"{registered}, the one at position {fail_pos} raised")
                    clk.begin([])
                    still = bool(obj.is_available())
                    rd2 = clk.end()
                    lines.append(f"sched is_available {rshow(rd2)}")
                    impl.append("1" if still else "0")
                    if not still and registered[fail_pos + 1:]:
                        violate("sched:restarted-after-raise",
                                f"op#{i}: callback at position {fail_pos} raised, callbacks "
                                f"{registered[fail_pos + 1:]} never ran, yet the interval was restarted "
                                f"(is_available() is False right after)")
                    trace.append((name, "raised", len(rd)))
                    continue
                fired = bool(ran)
                t_fire = log[0][1] if log else x
                observable = bool(registered)
                if ran and ran != registered:
                    violate("sched:callback-order", f"op#{i}: callbacks invoked {ran}, registered "
                            f"{registered}")
            elif kind == "time":
                lines.append(f"sched update {rshow(rd)}")
                impl.append(f"ran={show_list(ran)} reads={len(rd)}")
                fired = bool(ran)
                t_fire = log[0][1] if log else x
                observable = bool(registered)
                # C: every registered callback once, in registration order
                if ran and ran != registered:
                    violate("sched:callback-order", f"op#{i}: callbacks invoked {ran}, registered "
                            f"{registered}")
            else:
                lines.append(f"sched psc_call {rshow(rd)}")
                impl.append(f"out={'1' if ret else '0'} reads={len(rd)}")
                fired = bool(ret)
                t_fire = x
                observable = True
            # O: fires only when due
            if fired and not (t_fire - e_last > interval):
                violate("sched:fired-early", f"op#{i}: fired at system time {show_frac(t_fire)}, only "
                        f"{show_frac(t_fire - e_last)} after the previous firing "
                        f"(interval {show_frac(interval)})")
            # W: fires when due
            if observable and e - x_last > interval and not fired:
                violate("sched:skipped", f"op#{i}: update entered at system time {show_frac(e)}, more "
                        f"than interval {show_frac(interval)} after the previous firing (at most "
                        f"{show_frac(x_last)}), ran nothing")
            if fired:
                e_last, x_last = e, x
            elif not observable:
                # no callback registered: a firing cannot be seen; widen what is known about it
                if e - x_last > interval:
                    e_last, x_last = e, x           # it must have fired
                elif x - e_last > interval:
                    x_last = x                      # it may have fired
            if not fired and kind == "time":
                # R: nothing ran, so the interval must still be the old one — look at it through
                # the public test at the frozen exit instant
                clk.begin([])
                avail = bool(obj.is_available())
                rd2 = clk.end()
                lines.append(f"sched is_available {rshow(rd2)}")
                impl.append("1" if avail else "0")
                check_probe(f"after-idle update op#{i}", avail, x)
            trace.append((name, ran if kind == "time" else ret, len(rd)))

    disagreement = None
    if driver is not None:
        replies = driver.batch(lines)
        for k, (ln, a, b) in enumerate(zip(lines, impl, replies)):
            if a != b:
                disagreement = Disagreement("sched-history", f"line {k} `{ln}`: implementation "
                                            f"{a!r}, model {b!r}", case)
                break
    return violations, disagreement, trace


def run_step_case(case: dict, driver):
    import pamiq_core.utils.schedulers as sched_mod
    violations: list[Violation] = []
    trace: list = []
    lines: list[str] = []
    impl: list[str] = []
    log: list[int] = []
    fns: dict[int, object] = {}

    def cb(i: int):
        if i not in fns:
            fns[i] = CallableObject(lambda: log.append(i), i % 2 == 0)
        return fns[i]

    n = int(case["interval"])
    registered = list(case.get("cbs", []))
    obj = None
    try:
        given = [cb(i) for i in registered]
        form = (sum(registered) + len(registered)) % 4
        arg = [given, tuple(given), (g for g in given), iter(list(given))][form]
        if len(given) == 1 and registered[0] % 3 != 2:
            arg = given[0]
        obj = sched_mod.StepIntervalScheduler(n, arg)
        given.append(lambda: log.append(-1))     # the caller goes on using its own list: never registered
        del given[:-1]
        out = "ok"
    except ValueError:
        out = "err ValueError"
    lines.append(f"sched new_step {n} cbs={show_list(registered)}")
    impl.append(out)
    if (n <= 0) != (obj is None):
        violations.append(Violation("sched:step-ctor-guard", f"step interval {n}: {out}", case))
    k = 0
    if obj is not None:
        for i, op in enumerate(case["ops"]):
            name = op[0]
            if name == "update":
                del log[:]
                obj.update()
                k += 1
                ran = list(log)
                lines.append("sched step_update")
                impl.append(f"ran={show_list(ran)}")
                due = k % n == 0
                if registered and bool(ran) != due:
                    violations.append(Violation(
                        "sched:step-nth", f"update #{k} with interval {n}: callbacks "
                        f"{'ran' if ran else 'did not run'}", case))
                if ran and ran != registered:
                    violations.append(Violation(
                        "sched:callback-order", f"update #{k}: invoked {ran}, registered {registered}",
                        case))
                trace.append((name, ran))
            elif name == "probe":
                a = bool(obj.is_available())
                lines.append("sched step_available")
                impl.append("1" if a else "0")
                if a:
                    violations.append(Violation(
                        "sched:step-available-between", f"is_available() True between updates "
                        f"(after #{k}, interval {n})", case))
                trace.append((name, a))
            elif name == "register":
                obj.register_callback(cb(op[2]))
                registered.append(op[2])
                lines.append(f"sched step_register {op[2]}")
                impl.append("ok")
            elif name == "remove":
                try:
                    obj.remove_callback(cb(op[2]))
                    out = "ok"
                except ValueError:
                    out = "err ValueError"
                if op[2] in registered:
                    registered.remove(op[2])
                lines.append(f"sched step_remove {op[2]}")
                impl.append(out)
    disagreement = None
    if driver is not None:
        replies = driver.batch(lines)
        for j, (ln, a, b) in enumerate(zip(lines, impl, replies)):
            if a != b:
                disagreement = Disagreement("sched-step", f"line {j} `{ln}`: implementation {a!r}, "
                                            f"model {b!r}", case)
                break
    return violations[:3], disagreement, trace


# ------------------------------------------------------------------------------------------------
# generators
# ------------------------------------------------------------------------------------------------
INTERVALS = ["0", "1/2", "1", "2", "5", "10"]
SCALES = ["1/2", "1", "1", "2", "4"]
GAPS = ["0", "0", "1/4", "1/2", "1", "2", "3", "5", "11"]
ADV = ["0", "0", "1/8", "1/2", "1", "2", "6"]


def gen_time_case(rng, kind: str) -> dict:
    adversarial = rng.random() < 0.6
    n_cb = rng.choice([0, 1, 1, 2, 3])
    case = {"kind": kind, "interval": rng.choice(INTERVALS), "scale": rng.choice(SCALES),
            "cbs": [rng.randrange(1, 4) for _ in range(n_cb)] if kind == "time" else [],
            "cb_adv": rng.choice(["0", "0", "1/4", "1"]),
            "ctor": [rng.choice(ADV)] if adversarial else [], "ops": []}
    paused = False
    for _ in range(rng.randint(1, 10)):
        r = rng.random()
        gap = rng.choice(GAPS)
        if r < 0.62:
            script = [rng.choice(ADV) for _ in range(4)] if adversarial and rng.random() < 0.7 else []
            case["ops"].append(["update" if kind == "time" else "call", gap, script])
        elif r < 0.74:
            case["ops"].append(["probe", gap])
        elif r < 0.82 and kind == "time":
            case["ops"].append(["register", gap, rng.randrange(1, 4)])
        elif r < 0.88 and kind == "time":
            case["ops"].append(["remove", gap, rng.randrange(1, 4)])
        elif r < 0.93:
            case["ops"].append(["rewind", gap, rng.choice(["1/2", "1", "2", "5"])])
        else:
            case["ops"].append(["resume" if paused else "pause", gap])
            paused = not paused
    if kind == "time" and case["cbs"] and rng.random() < 0.3:
        # some callbacks raise at some of their invocations; the caller catches and goes on
        case["raise_at"] = {str(c): sorted(rng.sample(range(1, 5), rng.randint(1, 2)))
                            for c in set(case["cbs"]) if rng.random() < 0.7}
        if not case["raise_at"]:
            del case["raise_at"]
    return case


def gen_step_case(rng) -> dict:
    n = rng.choice([1, 1, 2, 3, 4, 7]) if rng.random() < 0.93 else rng.choice([0, -1, -3])
    case = {"kind": "step", "interval": n, "cbs": [rng.randrange(1, 4) for _ in range(rng.choice([1, 1, 2, 3]))],
            "ops": []}
    for _ in range(rng.randint(1, 25)):
        r = rng.random()
        if r < 0.8:
            case["ops"].append(["update"])
        elif r < 0.9:
            case["ops"].append(["probe"])
        elif r < 0.95:
            case["ops"].append(["register", 0, rng.randrange(1, 4)])
        else:
            case["ops"].append(["remove", 0, rng.randrange(1, 4)])
    return case


def account(res: SuiteResult, case: dict, vs, d, tr) -> None:
    res.evaluations += 1
    res.violations += vs
    if d:
        res.disagreements.append(d)
    for t in tr:
        res.hit("op:" + t[0])
        if t[0] in ("update", "call"):
            fired = bool(t[1])
            res.hit("branch:fired" if fired else "branch:idle")
            if len(t) > 2:
                res.hit(f"reads:{t[2]}")
        if t[0] in ("new", "remove") and isinstance(t[1], str) and t[1].startswith("err"):
            res.hit("error:" + t[1])


def suite_corpus(ctx: Ctx) -> SuiteResult:
    res = SuiteResult("sched-corpus", rule="committed witnesses of past failures; non-trivial = all")
    for c in corpus_cases("C15"):
        vs, d, tr = run_case(c["case"], ctx.driver)
        account(res, c["case"], vs, d, tr)
        res.nontrivial.add(c["_corpus_file"])
        res.sample({"corpus": c["_corpus_file"], "trace": tr})
    return res


def suite_exhaustive(ctx: Ctx) -> SuiteResult:
    """Every history of <= L updates over a grid of gaps and in-update clock advances."""
    L = 2 if ctx.tier == "quick" else 3
    res = SuiteResult("sched-exhaustive-small",
                      rule=f"time scheduler and save condition, interval in {{0,1,2}}, every history "
                           f"of <= {L} updates with gap in {{0,1,2,3}} and clock advance after the "
                           "reads of an update in {(0,0),(1,0),(0,1),(1,1),(3,0),(0,3)}; "
                           "non-trivial = the clock advances inside at least one update",
                      exhaustive=True)
    scripts = [["0", "0"], ["1", "0"], ["0", "1"], ["1", "1"], ["3", "0"], ["0", "3"]]
    alphabet = [(g, s) for g in ["0", "1", "2", "3"] for s in scripts]
    case = None
    for kind in ("time", "psc"):
        for iv in ["0", "1", "2"]:
            for n in range(1, L + 1):
                for combo in itertools.product(alphabet, repeat=n):
                    case = {"kind": kind, "interval": iv, "scale": "1",
                            "cbs": [1, 2] if kind == "time" else [], "ctor": [],
                            "ops": [["update" if kind == "time" else "call", g, s] for g, s in combo]
                                   + [["probe", "0"]]}
                    vs, d, tr = run_case(case, ctx.driver)
                    account(res, case, vs, d, tr)
                    if any(s != ["0", "0"] for _, s in combo):
                        res.nontrivial.add((kind, iv, tuple((g, tuple(s)) for g, s in combo)))
                    if len(res.violations) > 20 or len(res.disagreements) > 20:
                        return res
    res.sample({"case": case})
    return res


def suite_random(ctx: Ctx) -> SuiteResult:
    res = SuiteResult("sched-random-histories",
                      rule="random histories (1-10 ops) of update/is_available/register/remove on "
                           "TimeIntervalScheduler and of calls of PeriodicSaveCondition, system clock "
                           "scaled and paused/resumed in between, 60% with the clock advancing by a "
                           "scripted amount on every read and during callbacks; step schedulers with "
                           "1-25 updates; non-trivial = at least one firing and one idle update; "
                           "distinct by (kind, interval, scale, trace)")
    n = ctx.n(5000, 60000)
    for i in range(n):
        r = ctx.rng.random()
        case = gen_step_case(ctx.rng) if r < 0.15 else gen_time_case(ctx.rng, "psc" if r < 0.4 else "time")
        vs, d, tr = run_case(case, ctx.driver)
        account(res, case, vs, d, tr)
        res.hit("kind:" + case["kind"])
        if case["kind"] != "step" and case.get("ctor"):
            res.hit("mode:adversarial")
        ups = [bool(t[1]) for t in tr if t[0] in ("update", "call")]
        if True in ups and False in ups:
            res.nontrivial.add((case["kind"], str(case["interval"]), case.get("scale"), repr(tr)))
        res.sample({"case": case, "trace": tr})
        if len(res.violations) > 20 or len(res.disagreements) > 20:
            break
    return res


def suite_malformed(ctx: Ctx) -> SuiteResult:
    """Constructor guards and removals of unknown callbacks on both sides; garbage protocol lines
    must be refused by the model driver."""
    res = SuiteResult("sched-malformed",
                      rule="invalid constructor arguments (negative time interval, non-positive step "
                           "interval), removal of unregistered callbacks, malformed driver lines; "
                           "non-trivial = every case", exhaustive=True)
    for iv in ["-1", "-1/2", "-5", "0"]:
        for kind in ("time", "psc"):
            case = {"kind": kind, "interval": iv, "cbs": [1] if kind == "time" else [], "ops": []}
            vs, d, tr = run_case(case, ctx.driver)
            account(res, case, vs, d, tr)
            res.nontrivial.add((kind, iv))
    for n in [0, -1, -7, 1]:
        case = {"kind": "step", "interval": n, "cbs": [1], "ops": [["update"], ["remove", 0, 2]]}
        vs, d, tr = run_case(case, ctx.driver)
        account(res, case, vs, d, tr)
        res.nontrivial.add(("step", n))
    case = {"kind": "time", "interval": "1", "cbs": [1, 2, 1],
            "ops": [["remove", "0", 3], ["remove", "0", 1], ["update", "2", []], ["remove", "0", 1],
                    ["remove", "0", 1], ["update", "2", []]]}
    vs, d, tr = run_case(case, ctx.driver)
    account(res, case, vs, d, tr)
    res.nontrivial.add("remove-first-occurrence")
    res.sample({"case": case, "trace": tr})
    if ctx.driver is not None:
        bad = ["sched", "sched update", "sched update r=[a]", "sched update r=[]", "sched new_time x r=[0]",
               "sched new_time 1 cbs=[x] r=[0]", "sched new_time 1 cbs=[1]", "sched new_step q",
               "sched remove x", "sched is_available r=[1,2]", "sched psc_call", "sched variant 2",
               "sched frobnicate 1"]
        for ln, rep in zip(bad, ctx.driver.batch(bad)):
            res.evaluations += 1
            res.hit("driver:bad-op")
            if rep != "bad-op":
                res.disagreements.append(Disagreement("sched-malformed", f"driver accepted `{ln}`: {rep}",
                                                      {"line": ln}))
    return res


# ------------------------------------------------------------------------------------------------
def extend(case: dict) -> list[dict]:
    """Variants of a diverging case that make a dropped interval visible to the monitor: a frozen
    probe / update / call after every prefix."""
    out = [case]
    if case.get("kind") in ("time", "psc"):
        tail = ["update" if case["kind"] == "time" else "call", "0", []]
        for k in range(1, len(case.get("ops", [])) + 1):
            c = dict(case)
            c["ops"] = case["ops"][:k] + [tail, tail]
            out.append(c)
    return out


def search(ctx: Ctx, disagreements, broken):
    """§5: look for a concrete history on which the property fails on the implementation."""
    import random
    out: list[Violation] = []
    for d in disagreements:
        if not isinstance(d.case, dict) or "kind" not in d.case:
            continue
        for c in extend(d.case):
            vs, _, _ = run_case(c, None)
            out += vs
        if out:
            return out
    rng = random.Random(ctx.seed + 1)
    for _ in range(ctx.n(25000, 200000)):
        r = rng.random()
        case = gen_step_case(rng) if r < 0.15 else gen_time_case(rng, "psc" if r < 0.4 else "time")
        vs, _, _ = run_case(case, None)
        if vs:
            return vs
    return out


def replay(ctx: Ctx, payload: dict) -> SuiteResult:
    res = SuiteResult("replay")
    case = payload.get("case") or payload.get("first_disagreement")
    vs, d, tr = run_case(case, ctx.driver)
    res.evaluations = 1
    res.violations = vs
    if d:
        res.disagreements.append(d)
    print("trace:", tr)
    return res


if __name__ == "__main__":
    import gentie
    setup_repo_path()
    sys.exit(run_check(
        "C15", lean_modules=["Pamiq.Props.C15"],
        required_theorems=["Pamiq.Sched.fires_iff", "Pamiq.Sched.restart_only_after_fire",
                           "Pamiq.Sched.restart_implies_ran", "Pamiq.Sched.gap",
                           "Pamiq.Sched.prev_is_last_fire", "Pamiq.Sched.callbacks_in_order_once",
                           "Pamiq.Sched.step_fires_iff", "Pamiq.Sched.psc_call",
                           "Pamiq.Sched.psc_outs", "Pamiq.Sched.double_read_skips",
                           "Pamiq.Sched.time_ctor_guard", "Pamiq.Sched.step_ctor_guard"],
        suites=[gentie.suite_for("C15"), suite_corpus, suite_exhaustive, suite_random, suite_malformed],
        search=search, replay=replay,
        assumptions=["IEEE-754 rounding is not modelled: intervals, clock values and advances are "
                     "dyadic so every float operation of schedulers.py is exact; compared for equality",
                     "the system clock never steps backwards (C06 history_monotone; load_state_dict "
                     "of the clock is outside this property)",
                     "callbacks terminate, do not raise and do not touch the scheduler they are "
                     "registered on",
                     "`>` as in the code: an update whose decision reading is exactly `interval` after "
                     "the start of the interval does not fire (boundary of measure zero)"],
        trusted_extra=["scripted stand-in for the stdlib time module under the real TimeController and "
                       "the recording wrapper around pamiq_core.time.time (harness/corr/c15.py)"],
        level_text="decision theorems for one update (all readings), invariants over all histories "
                   "(gap, prev = last restart), step scheduler n | k, save-condition latch; "
                   "correspondence of the model with schedulers.py / PeriodicSaveCondition under an "
                   "adversarial clock"))
