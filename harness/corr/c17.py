"""C17 — remote commands are executed once, in order; status is truthful (DESIGN §7.17).

Suites: (1) status decision table: every combination of controller events and thread flags for
0..3 threads on the real SystemStatusProvider vs `WebQ.statusOf`; (2) the real WebApiServer driven
through its ASGI app in-process (valid / invalid / bursts beyond the queue size) interleaved with
has_commands/receive_command, vs the `WebQ` model; (3) the running system (real launch() under the
deterministic scheduler, scripted client, status requests preempted between reads) with the C17
monitor and trace refinement against `Pamiq.Proto`.
"""
import itertools
import sys
from pathlib import Path

sys.path.insert(0, str(Path(__file__).resolve().parent.parent))
from framework import Ctx, Disagreement, SuiteResult, Violation, run_check, setup_repo_path
import syscheck

STATUS_NAMES = {1: "active", 2: "pausing", 3: "paused", 4: "resuming", 5: "shutting down"}


def table(shutdown, resume, flags):
    if shutdown: return "shutting down"
    if not resume: return "paused" if all(flags) else "pausing"
    return "resuming" if any(flags) else "active"


def suite_table(ctx: Ctx) -> SuiteResult:
    from pamiq_core.console.system_status import SystemStatusProvider
    from pamiq_core.thread import ThreadController, ThreadStatus, ThreadStatusesMonitor, ThreadTypes
    res = SuiteResult("status-table", exhaustive=True,
                      rule="every (shutdown, resume, per-thread paused flag x exception flag) combination for 0..3 threads on the real "
                           "SystemStatusProvider with real ThreadController/ThreadStatus objects; "
                           "non-trivial = at least one thread")
    types = [ThreadTypes.INFERENCE, ThreadTypes.TRAINING, ThreadTypes.CONTROL]
    lines, impl, cases = [], [], []
    for n in range(0, 4):
        for sd, rs in itertools.product([False, True], repeat=2):
            # per thread: paused flag x exception flag (a crashed thread has acknowledged nothing)
            for combo in itertools.product([(False, False), (True, False), (False, True), (True, True)], repeat=n):
                flags = tuple(f for f, _x in combo)
                ctl = ThreadController()
                if not rs: ctl.pause()
                if sd: ctl._shutdown_event.set()       # shutdown() would also set resume: cover all combos
                sts = []
                for f, x in combo:
                    st = ThreadStatus()
                    if f: st.pause()
                    if x: st.exception_raised()
                    sts.append(st)
                mon = ThreadStatusesMonitor({types[i]: s.read_only for i, s in enumerate(sts)})
                got = SystemStatusProvider(ctl.read_only, mon).get_current_status().status_name
                lines.append(f"webq status {int(sd)} {int(rs)} [{','.join(str(int(f)) for f in flags)}]")
                impl.append(got)
                cases.append({"shutdown": sd, "resume": rs, "flags": list(flags), "crashed": [x for _f, x in combo]})
                res.evaluations += 1
                res.hit("status:" + got)
                if any(x for _f, x in combo): res.hit("with-crashed-thread")
                if n >= 1: res.nontrivial.add((sd, rs, combo))
                if got != table(sd, rs, flags):
                    res.violations.append(Violation(f"c17:table:{got}", f"status {got} for shutdown={sd} "
                                                    f"resume={rs} flags={flags}, expected {table(sd, rs, flags)}",
                                                    {"table": cases[-1]}))
    if ctx.driver is not None:
        for ln, a, b, c in zip(lines, impl, ctx.driver.batch(lines), cases):
            if a != b:
                res.disagreements.append(Disagreement("status-table", f"`{ln}`: implementation {a!r}, model {b!r}", {"table": c}))
    res.sample(cases[37])
    return res


def suite_status_walk(ctx: Ctx) -> SuiteResult:
    """ONE provider instance queried along random walks over the flag combinations: the answer must
    depend on the current flags only (the table is memoryless)."""
    from pamiq_core.console.system_status import SystemStatusProvider
    from pamiq_core.thread import ThreadController, ThreadStatus, ThreadStatusesMonitor, ThreadTypes
    res = SuiteResult("status-walk",
                      rule="random walks (5-40 steps: pause / resume / one thread acknowledges / clears / "
                           "shutdown) over the controller events and thread flags with ONE long-lived "
                           "SystemStatusProvider, queried after a random subset of the steps; non-trivial = the "
                           "answer changes at least twice along the walk")
    types = [ThreadTypes.INFERENCE, ThreadTypes.TRAINING]
    for _ in range(ctx.n(300, 6000)):
        ctl = ThreadController()
        sts = [ThreadStatus(), ThreadStatus()]
        prov = SystemStatusProvider(ctl.read_only, ThreadStatusesMonitor(
            {types[i]: s.read_only for i, s in enumerate(sts)}))
        walk, answers, lines, impl = [], [], [], []
        for _ in range(ctx.rng.randint(5, 40)):
            op = ctx.rng.choice(["pause", "resume", "ack0", "ack1", "clr0", "clr1", "shutdown", "query", "query",
                                 "query", "exc0", "exc1"] if walk else ["pause"])
            walk.append(op)
            if ctl.is_shutdown() and op in ("pause", "resume"):
                continue
            if op == "pause": ctl.pause()
            elif op == "resume": ctl.resume()
            elif op == "shutdown": ctl.shutdown()
            elif op.startswith("exc"):
                if ctx.rng.random() < 0.3: sts[int(op[3])].exception_raised()    # a crash, flag left as it is
            elif op.startswith("ack"): sts[int(op[3])].pause()
            elif op.startswith("clr"): sts[int(op[3])].resume()
            else:
                sd, rs = ctl.is_shutdown(), ctl.is_resume()
                flags = [s.is_pause() for s in sts]
                got = prov.get_current_status().status_name
                answers.append(got)
                lines.append(f"webq status {int(sd)} {int(rs)} [{','.join(str(int(f)) for f in flags)}]")
                impl.append(got)
                if got != table(sd, rs, flags):
                    res.violations.append(Violation(
                        f"c17:status-memory:{got}", f"after {walk}: status {got} with shutdown={sd} "
                        f"resume={rs} flags={flags}, expected {table(sd, rs, flags)}", {"walk": walk}))
        res.evaluations += 1
        if len({(a, i) for i, a in enumerate(answers) if i and answers[i - 1] != a}) >= 2:
            res.nontrivial.add(tuple(walk))
        if ctx.driver is not None and lines:
            for ln, a, b in zip(lines, impl, ctx.driver.batch(lines)):
                if a != b:
                    res.disagreements.append(Disagreement("status-walk", f"`{ln}`: implementation {a!r}, model {b!r}", {"walk": walk}))
                    break
        res.sample({"walk": walk, "answers": answers})
        if len(res.violations) > 10:
            break
    return res


def asgi(app, method, path):
    sent = []
    scope = {"type": "http", "asgi": {"version": "3.0"}, "http_version": "1.1", "method": method,
             "path": path, "raw_path": path.encode(), "root_path": "", "scheme": "http",
             "query_string": b"", "headers": [], "client": ("c", 1), "server": ("s", 80)}

    async def receive(): return {"type": "http.request", "body": b"", "more_body": False}
    async def send(m): sent.append(m)
    coro = app(scope, receive, send)
    try:
        while True: coro.send(None)
    except StopIteration:
        pass
    return next((m["status"] for m in sent if m["type"] == "http.response.start"), -1)


ROUTES = {"/api/pause": "PAUSE", "/api/resume": "RESUME", "/api/shutdown": "SHUTDOWN", "/api/save-state": "SAVE_STATE"}
BAD = [("GET", "/api/nope"), ("GET", "/api/pause"), ("POST", "/api/status"), ("DELETE", "/api/resume"),
       ("POST", "/api"), ("PUT", "/api/shutdown"), ("POST", "/"), ("PATCH", "/api/save-state")]


def run_queue_case(case, driver):
    """The real WebApiServer and the real drain loop `ControlThread.process_received_web_api_commands`
    (its four actions replaced by recorders): one `drain` op = one control tick's call of it."""
    import logging
    logging.disable(logging.CRITICAL)
    from unittest.mock import MagicMock
    from pamiq_core.console.web_api import WebApiServer
    from pamiq_core.thread.threads.control import ControlThread
    srv = WebApiServer(MagicMock(), max_queue_size=case["cap"])
    ct = ControlThread(MagicMock(), web_api_address=None)
    ct._web_api_server = srv
    done: list[str] = []
    ct.try_pause = lambda *a, **k: done.append("PAUSE") or True
    ct.resume = lambda *a, **k: done.append("RESUME")
    ct.save_state = lambda *a, **k: done.append("SAVE_STATE")
    ct.shutdown = lambda *a, **k: done.append("SHUTDOWN")
    cap = case["cap"]
    lines = [f"webq reset {cap}"]
    impl = ["ok"]
    accepted, executed, stopped = [], [], False
    vs = []
    for op in case["ops"]:
        if op[0] == "post":
            st = asgi(srv._app, "POST", op[1])
            lines.append(f"webq post {ROUTES[op[1]]}")
            impl.append(str(st))
            if st == 200: accepted.append(ROUTES[op[1]])
            elif st != 503:
                vs.append(Violation("c17:http-code", f"POST {op[1]} answered {st}", {"queue": case}))
        elif op[0] == "bad":
            st = asgi(srv._app, op[1], op[2])
            lines.append("webq invalid")
            impl.append("ok")
            want = 405 if op[2] in ROUTES or op[2] == "/api/status" else 404
            if st != want:
                vs.append(Violation("c17:http-code", f"{op[1]} {op[2]} answered {st}, expected {want}", {"queue": case}))
        else:   # one control tick: the real drain loop runs until the queue is empty or SHUTDOWN was carried out
            del done[:]
            if not stopped:
                ct.process_received_web_api_commands()
            executed += done
            stopped = stopped or "SHUTDOWN" in done
            # the model drains one command per step: cap + 1 steps cover whatever one tick can find
            for k in range(cap + 1):
                lines.append("webq drain")
                impl.append(done[k] if k < len(done) else "none")
            if len(done) > cap + 1:
                vs.append(Violation("c17:order", f"one tick carried out {done} from a queue of size {cap}", {"queue": case}))
    # monitor: carried out = accepted, in order, each once, up to and including the first SHUTDOWN - and
    # everything accepted before the last tick has been carried out by then
    upto = accepted.index("SHUTDOWN") + 1 if "SHUTDOWN" in accepted else len(accepted)
    if executed != accepted[:len(executed)] or len(executed) > upto:
        vs.append(Violation("c17:order", f"carried out {executed} is not a prefix of accepted {accepted} "
                                         f"ending at the first SHUTDOWN", {"queue": case}))
    d = None
    if driver is not None:
        for k, (ln, a, b) in enumerate(zip(lines, impl, driver.batch(lines))):
            if a != b:
                d = Disagreement("webq", f"line {k} `{ln}`: implementation {a!r}, model {b!r}", {"queue": case})
                break
    return vs, d, (len(accepted), len(executed))


def suite_queue(ctx: Ctx) -> SuiteResult:
    res = SuiteResult("webq-sequences",
                      rule="random sequences (3-25 ops) of valid POSTs, invalid requests and control ticks (the real "
                           "ControlThread.process_received_web_api_commands with recording actions) "
                           "on the real WebApiServer (in-process ASGI), queue sizes 1..4, bursts "
                           "beyond the queue size; non-trivial = at least one 503 or a SHUTDOWN followed by "
                           "more requests; distinct by op sequence")
    for _ in range(ctx.n(600, 15000)):
        cap = ctx.rng.choice([1, 1, 2, 3, 4])
        ops = []
        for _ in range(ctx.rng.randint(3, 25)):
            r = ctx.rng.random()
            if r < 0.55: ops.append(["post", ctx.rng.choice(list(ROUTES))])
            elif r < 0.67: ops.append(["bad", *ctx.rng.choice(BAD)])
            else: ops.append(["drain"])
        case = {"cap": cap, "ops": ops}
        vs, d, (na, ne) = run_queue_case(case, ctx.driver)
        res.evaluations += 1
        for op in ops: res.hit("op:" + op[0])
        posts = sum(1 for o in ops if o[0] == "post")
        if posts > na: res.hit("rejected-503", posts - na)
        if posts > na or any(o == ["post", "/api/shutdown"] for o in ops[:-1]):
            res.nontrivial.add(str(case))
        res.violations += vs
        if d: res.disagreements.append(d)
        res.sample(case)
    return res


def replay(ctx, payload):
    case = payload.get("case") or payload.get("first_disagreement")
    if "queue" in case:
        res = SuiteResult("replay")
        vs, d, _ = run_queue_case(case["queue"], ctx.driver)
        res.violations, res.evaluations = vs, 1
        if d: res.disagreements.append(d)
        return res
    if "table" in case:
        return suite_table(ctx)
    if "walk" in case:
        return suite_status_walk(ctx)
    return syscheck.make_replay("C17")(ctx, payload)


if __name__ == "__main__":
    import gentie
    setup_repo_path()
    sys_suites = syscheck.make_suites("C17", [("C17", 260, 8000), ("any", 60, 2000)],
        "random scenarios with client scripts of valid/invalid requests, bursts beyond the queue size, "
        "requests around SHUTDOWN and status requests whose flag reads are preempted, x seeded random "
        "schedules of the real launch(); C17 monitor (accepted vs executed, status consistent with the "
        "flags at some instant of the request) + trace refinement against Pamiq.Proto; non-trivial = "
        "contains a pause attempt / save / resume / status / rejected command")
    sys.exit(run_check(
        "C17", lean_modules=["Pamiq.Props.C17"],
        required_theorems=["Pamiq.WebQ.executed_prefix", "Pamiq.WebQ.rejected_never", "Pamiq.WebQ.bad_request_noop",
                           "Pamiq.WebQ.status_paused", "Pamiq.WebQ.status_pausing", "Pamiq.WebQ.status_resuming",
                           "Pamiq.WebQ.status_active", "Pamiq.WebQ.status_shutting_down",
                           "Pamiq.WebQ.reader_truthful_partial", "Pamiq.WebQ.reader_can_report_state_that_never_held"],
        suites=[gentie.suite_for("C17"), suite_table, suite_status_walk, suite_queue, *sys_suites],
        search=syscheck.make_search("C17", ["C17"]), replay=replay,
        assumptions=syscheck.PROTO_ASSUMPTIONS + [
            "Starlette routing is exercised in-process at the ASGI interface (no sockets, no uvicorn); "
            "HEAD on GET routes and trailing-slash redirects are Starlette behaviour outside the property",
            "the unrestricted 'status consistent with some instant' clause is false of the code (non-atomic "
            "reads): proved counterexample reader_can_report_state_that_never_held, known finding F9"],
        trusted_extra=syscheck.PROTO_TRUSTED,
        level_text="FIFO/exactly-once invariant of the command queue for every request/drain interleaving, "
                   "status decision table for any number of threads, partial truthfulness theorem; "
                   "correspondence with WebApiServer, SystemStatusProvider and the running system"))
