"""C07 — collected samples reach the buffer exactly once, in order.

Sequential suite: random operation sequences on the real `DataUsersDict` / `DataCollector` /
`DataUser` (recording buffer, scripted clock) against the Lean `Queue` model, reply by reply.

Concurrent suites: one producing and one consuming logical thread under the line-granular
deterministic scheduler (`harness/linesched.py`, `sys.monitoring` LINE events inside
`pamiq_core/data/interface.py`, cooperating re-entrant lock in place of `interface.RLock`). The
observed outcome of every interleaving is compared with the Lean model executed in the OBSERVED
LOCK-ACQUISITION ORDER — `LockObj.lock_atomic` / `Queue.collect_update_atomic` say this is the only
thing an interleaving can do — and it is checked that every line of `TimestampingQueue.append`
runs while its thread holds the collector's lock (the hypothesis of that theorem).

Monitor (independent of the Lean model): exactly-once / in-order / loss only of the oldest on
overflow, as "there is an assignment of the samples to the hand-overs, compatible with the real
time order of the calls, such that every hand-over delivered exactly the newest `maxlen` of its
samples"; timestamp pairing on the pickled timestamp deque; `count_data_added_since`; `len`;
`get_data`; exclusivity of `acquire`.
"""
from __future__ import annotations

import itertools
import pickle
import shutil
import sys
import tempfile
import warnings
from fractions import Fraction as F
from pathlib import Path

sys.path.insert(0, str(Path(__file__).resolve().parent.parent))
import linesched
from framework import (Ctx, Disagreement, SuiteResult, Violation, corpus_cases, run_check,
                       setup_repo_path, show_frac, show_list)

warnings.simplefilter("ignore", RuntimeWarning)
FLUSHING = ("update", "get_data", "save")
SIZES = [None, 0, 1, 2, 5]
_TMP = None
_SAVE_N = 0


def tmpdir() -> Path:
    global _TMP
    if _TMP is None:
        base = "/dev/shm" if Path("/dev/shm").is_dir() else None
        _TMP = Path(tempfile.mkdtemp(prefix="pamiq-verif.c07.", dir=base))
    return _TMP


def fresh_path() -> Path:
    global _SAVE_N
    _SAVE_N += 1
    return tmpdir() / f"s{_SAVE_N}"


def _mods():
    setup_repo_path()
    import pamiq_core.data.interface as di
    from pamiq_core.data import DataBuffer
    from pamiq_core.data.container import DataUsersDict
    return di, DataBuffer, DataUsersDict


_ORIG = {}


def recording_buffer_class():
    di, DataBuffer, _ = _mods()
    if "cls" in _ORIG:
        return _ORIG["cls"]

    class RecordingBuffer(DataBuffer):
        """Keeps the log of add() calls; get_data returns a copy of it."""

        keep = None      # a buffer that retains (and reports as its length) only the latest `keep` samples

        def __init__(self, max_queue_size):
            super().__init__(max_queue_size)
            self.log = []

        def add(self, data):
            self.log.append(data)

        def get_data(self):
            return list(self.log)

        def __len__(self):
            return len(self.log) if self.keep is None else min(len(self.log), self.keep)

        def save_state(self, path):
            path.mkdir()
            with open(path / "log.pkl", "wb") as f:
                pickle.dump(self.log, f)

        def load_state(self, path):
            with open(path / "log.pkl", "rb") as f:
                self.log = pickle.load(f)

    _ORIG["cls"] = RecordingBuffer
    return RecordingBuffer


class FakeClock:
    """Stand-in for the `pamiq_core.time` module as seen by data/interface.py."""

    def __init__(self) -> None:
        self.now = F(0)
        self.reads: list[F] = []
        self.auto: list[F] | None = None    # concurrent mode: advance by the next gap at each read

    def time(self) -> float:
        if self.auto is not None:
            self.now += self.auto.pop(0) if self.auto else F(1)
        self.reads.append(self.now)
        return float(self.now)


class Patched:
    """Context: data.interface sees the fake clock (and, optionally, the scheduler's lock).
    Always restores the attributes the module had when first seen."""

    def __init__(self, clock: FakeClock, lock_factory=None) -> None:
        self.clock, self.lock_factory = clock, lock_factory

    def __enter__(self):
        di, _, _ = _mods()
        if "real" not in _ORIG:
            _ORIG["real"] = (di.time, di.RLock)
        di.time = self.clock
        di.RLock = self.lock_factory if self.lock_factory is not None else _ORIG["real"][1]
        return self

    def __exit__(self, *exc):
        di, _, _ = _mods()
        di.time, di.RLock = _ORIG["real"]


def keep(m, xs):
    if m is None:
        return list(xs)
    return list(xs)[len(xs) - m:] if m < len(xs) else list(xs)


def show_max(m) -> str:
    return "none" if m is None else str(m)


# ------------------------------------------------------------------------------------------------
# monitor
# ------------------------------------------------------------------------------------------------

def assignment_exists(m, samples, flushes) -> bool:
    """samples: [(x, lo, hi)] in collection order — the hand-over index that can have taken it
    lies in [lo, hi] (index len(flushes) = still pending); flushes: list of delivered batches.
    Is there a non-decreasing assignment with batch_j == newest-m of the samples assigned to j?"""
    nf = len(flushes)

    def rec(i, w_prev, current):
        # current = samples assigned so far to window w_prev
        if i == len(samples):
            # close every remaining window
            if w_prev < nf and keep(m, current) != list(flushes[w_prev]):
                return False
            return all(list(flushes[j]) == [] for j in range(w_prev + 1, nf))
        x, lo, hi = samples[i]
        for w in range(max(lo, w_prev), min(hi, nf) + 1):
            if w == w_prev:
                if rec(i + 1, w, current + [x]):
                    return True
            else:
                # windows w_prev .. w-1 are closed now
                if w_prev < nf and keep(m, current) != list(flushes[w_prev]):
                    break       # later w close the same window the same way
                if any(list(flushes[j]) != [] for j in range(w_prev + 1, min(w, nf))):
                    break
                if rec(i + 1, w, [x]):
                    return True
        return False

    return rec(0, 0, [])


def monitor(m, record: list[tuple], case) -> list[Violation]:
    """record: real-time ordered events
         ("collect_call", i, x) ("collect_ret", i, readings)
         ("call", j, kind, arg) ("ret", j, kind, batch, result)          consumer side
         ("acquire", name, ok)"""
    vs: list[Violation] = []

    def bad(key, what):
        vs.append(Violation("queue:" + key, what, case))

    tag = {"collect_call": "c", "collect_ret": "r", "call": "fc", "ret": "fr"}
    pos = {(tag[e[0]], e[1]): k for k, e in enumerate(record) if e[0] in tag}
    xs = {e[1]: e[2] for e in record if e[0] == "collect_call"}
    reads = {e[1]: e[2] for e in record if e[0] == "collect_ret"}
    rets = [e for e in record if e[0] == "ret"]
    flush_js = [e[1] for e in rets if e[2] in FLUSHING]
    batches = [list(e[3]) for e in rets if e[2] in FLUSHING]
    for e in rets:
        if e[2] not in FLUSHING and e[3]:
            bad("add-outside-update", f"{e[2]} call #{e[1]} made buffer.add calls {e[3]}")
    # ---- timestamps read: exactly one reading per collect --------------------------------
    t_of = {}
    for i, r in reads.items():
        if len(r) != 1:
            bad("clock-reads", f"collect #{i} read the clock {len(r)} times")
        t_of[xs[i]] = r[-1] if r else None
    # ---- exactly once / in order / oldest-only loss ---------------------------------------
    delivered = [x for bt in batches for x in bt]
    collected = [xs[i] for i in sorted(xs)]
    samples = []
    for i in sorted(xs):
        if ("r", i) not in pos:
            continue            # collect did not return (thread died): reported elsewhere
        lo = sum(1 for j in flush_js if pos[("fr", j)] < pos[("c", i)])
        hi = sum(1 for j in flush_js if pos[("fc", j)] < pos[("r", i)])
        samples.append((xs[i], lo, hi))
    if not assignment_exists(m, samples, batches):
        if len(set(delivered)) != len(delivered):
            key, why = "duplicate", "a sample was delivered twice"
        elif any(x not in collected for x in delivered):
            key, why = "invented", "a delivered sample was never collected"
        elif [x for x in collected if x in delivered] != delivered:
            key, why = "out-of-order", "delivery order differs from collection order"
        elif m is None and set(delivered) != set(s[0] for s in samples):
            key, why = "lost-sample", "unbounded queue but a collected sample was not delivered"
        else:
            key, why = "window-mismatch", ("no assignment of samples to hand-overs explains the "
                                           "batches as 'newest maxlen of the window'")
        bad(key, f"{why}: maxlen={m} collected={collected} batches={batches} "
                 f"windows(lo,hi)={[(s[1], s[2]) for s in samples]}")
    # ---- consumer-side observables ------------------------------------------------------------
    so_far: list = []
    for e in rets:
        _, j, kind, batch, result = e
        so_far += list(batch)
        ts_all = [t_of.get(x) for x in so_far]
        if kind == "get_data" and list(result) != so_far:
            bad("get_data", f"get_data #{j} returned {result}, delivered so far {so_far}")
        if kind == "save":
            want = keep(m, ts_all)
            if list(result) != want:
                bad("timestamp-pairing", f"save #{j} pickled timestamps {result}, the readings of "
                                         f"the newest {m} delivered samples are {want}")
        if kind == "count":
            tau = next(c[3] for c in record if c[0] == "call" and c[1] == j)
            recent = [t for t in keep(m, ts_all) if t is not None]
            want = sum(1 for t in recent if t > tau)
            if result != want:
                bad("count", f"count_data_added_since({tau}) = {result}, expected {want} "
                             f"(recent readings {recent})")
        if kind == "len" and result != len(so_far):
            bad("len", f"len = {result}, delivered so far {len(so_far)}")
    # ---- exclusivity --------------------------------------------------------------------------
    got: set[str] = set()
    known = set(case.get("names", ["a"]))
    for e in record:
        if e[0] == "acquire":
            _, name, ok = e
            should = name in known and name not in got
            if ok != should:
                bad("acquire", f"acquire({name!r}) {'succeeded' if ok else 'raised KeyError'}; "
                               f"known={sorted(known)} already acquired={sorted(got)}")
            if ok:
                got.add(name)
    return vs


# ------------------------------------------------------------------------------------------------
# running consumer-side calls on the real DataUser
# ------------------------------------------------------------------------------------------------

def do_call(user, buf, kind, arg):
    """-> (batch, result, reply string as the model prints it)"""
    n0 = len(buf.log)
    if kind == "update":
        user.update()
        batch = buf.log[n0:]
        return batch, None, show_list(batch)
    if kind == "get_data":
        data = user.get_data()
        batch = buf.log[n0:]
        return batch, data, show_list(batch) + " " + show_list(data)
    if kind == "save":
        p = fresh_path()
        user.save_state(p)
        with open(p / "timestamps.pkl", "rb") as f:
            ts = [F(x) for x in pickle.load(f)]
        shutil.rmtree(p, ignore_errors=True)
        batch = buf.log[n0:]
        return batch, ts, show_list(batch) + " " + show_list(ts, show_frac)
    if kind == "count":
        r = user.count_data_added_since(float(arg))
        return buf.log[n0:], r, str(r)
    if kind == "len":
        r = len(user)
        if buf.keep is not None:
            # the buffer reports what it retains; the model counts the adds
            r = len(buf.log) if r == min(len(buf.log), buf.keep) else -r - 1
        return buf.log[n0:], r, str(r)
    raise ValueError(kind)


def model_line(kind, arg) -> str:
    if kind == "count":
        return f"queue count {show_frac(arg)}"
    return f"queue {kind}"


# ------------------------------------------------------------------------------------------------
# sequential cases
# ------------------------------------------------------------------------------------------------

def run_seq(case: dict, driver):
    """case = {"kind": "seq", "m": None|int, "names": [...], "ops": [[op, arg?], ...]}"""
    di, _, DataUsersDict = _mods()
    RB = recording_buffer_class()
    m = case["m"]
    names = case.get("names", ["a", "b"])
    clock = FakeClock()
    record: list[tuple] = []
    lines = [f"queue reset max={show_max(m)} names=[{','.join(names)}]"]
    impl = ["ok"]
    with Patched(clock):
        bufs = {n: RB(m) for n in names}
        if "rereg_from" in case:
            # the names were registered before with other buffers (another queue size) and are assigned again: the
            # new data user comes with a collector of its own, bounded by its own buffer's queue size
            users = DataUsersDict.from_data_buffers({n: RB(case["rereg_from"]) for n in names})
            for n in names:
                users[n] = di.DataUser(bufs[n])
        else:
            users = DataUsersDict.from_data_buffers(bufs)
        cdict = users.data_collectors_dict
        user, buf = users[names[0]], bufs[names[0]]
        if case.get("keep") is not None:
            buf.keep = case["keep"]
        col = None
        n_col = 0
        j = 0
        for op in case["ops"]:
            kind = op[0]
            if kind == "acquire":
                name = op[1]
                try:
                    c = cdict.acquire(name)
                    ok = True
                    if name == names[0]:
                        col = c
                except KeyError:
                    ok = False
                record.append(("acquire", name, ok))
                lines.append(f"queue acquire {name}")
                impl.append("ok" if ok else "err KeyError")
            elif kind == "collect":
                if col is None:
                    continue        # generator always acquires first; ignore otherwise
                clock.now += F(op[1])
                x = n_col
                n_col += 1
                k0 = len(clock.reads)
                record.append(("collect_call", x, x))
                col.collect(x)
                rd = clock.reads[k0:]
                record.append(("collect_ret", x, rd))
                lines.append(f"queue collect {x} t={show_frac(rd[-1] if rd else clock.now)}")
                impl.append("ok")
            else:
                arg = F(op[1]) if kind == "count" else None
                record.append(("call", j, kind, arg))
                batch, result, reply = do_call(user, buf, kind, arg)
                record.append(("ret", j, kind, batch, result))
                lines.append(model_line(kind, arg))
                impl.append(reply)
                j += 1
    vs = monitor(m, record, case)
    d = None
    if driver is not None:
        replies = driver.batch(lines)
        for k, (ln, a, b) in enumerate(zip(lines, impl, replies)):
            if a != b:
                d = Disagreement("queue-seq", f"line {k} `{ln}`: implementation {a!r}, model {b!r}",
                                 case)
                break
    return vs, d, record


GAPS = ["0", "1/4", "1/2", "1", "3"]


def gen_seq(rng, max_ops=14) -> dict:
    m = rng.choice(SIZES + [3])
    names = ["a", "b"]
    ops: list = [["acquire", "a"]]
    now = F(0)
    seen_t = [F(0)]
    p_collect = rng.choice([0.3, 0.5, 0.8])
    for _ in range(rng.randint(1, max_ops)):
        r = rng.random()
        if r < p_collect:
            g = rng.choice(GAPS)
            now += F(g)
            seen_t.append(now)
            ops.append(["collect", g])
        else:
            kind = rng.choice(["update", "update", "get_data", "count", "count", "save", "len",
                               "acquire"])
            if kind == "count":
                base = rng.choice(seen_t)
                tau = base + rng.choice([F(0), F(0), F(-1, 8), F(1, 8), F(-5), F(5)])
                ops.append(["count", str(tau)])
            elif kind == "acquire":
                ops.append(["acquire", rng.choice(["a", "b", "b", "zz"])])
            else:
                ops.append([kind])
    case = {"kind": "seq", "m": m, "names": names, "ops": ops}
    if rng.random() < 0.25:
        case["rereg_from"] = rng.choice([0, 1, 2])
    if rng.random() < 0.3:
        case["keep"] = rng.choice([0, 1, 2])
    return case


def seq_features(case, record):
    m = case["m"]
    overflow = False
    window = 0
    for e in record:
        if e[0] == "collect_ret":
            window += 1
        elif e[0] == "ret" and e[2] in FLUSHING:
            if m is not None and window > m:
                overflow = True
            window = 0
    return overflow


def suite_sequential(ctx: Ctx) -> SuiteResult:
    res = SuiteResult(
        "queue-sequential-ops",
        rule="corpus, then every op sequence of length <= 4 over {collect, update, count, save} for "
             "queue sizes {None,0,1,2}, then random sequences (1-14 ops) of collect/update/get_data/"
             "count/save/len/acquire with queue sizes None,0,1,2,3,5 and dyadic non-decreasing "
             "clock readings; non-trivial = at least one hand-over after a collect; distinct = by "
             "(size, op kinds, gaps)")
    cases = [c["case"] for c in corpus_cases("C07") if c["case"].get("kind") == "seq"]
    for c in cases:
        res.hit("corpus")
    alpha = [["collect", "1/2"], ["update"], ["count", "1/2"], ["save"]]
    for m in (None, 0, 1, 2):
        for n in range(1, 5):
            for combo in itertools.product(alpha, repeat=n):
                cases.append({"kind": "seq", "m": m, "names": ["a"],
                              "ops": [["acquire", "a"]] + [list(o) for o in combo]})
    for _ in range(ctx.n(1500, 40000)):
        cases.append(gen_seq(ctx.rng))
    for case in cases:
        vs, d, record = run_seq(case, ctx.driver)
        res.evaluations += 1
        for e in record:
            if e[0] == "ret":
                res.hit("op:" + e[2])
            elif e[0] == "collect_ret":
                res.hit("op:collect")
            elif e[0] == "acquire":
                res.hit("op:acquire:" + ("ok" if e[2] else "KeyError"))
        if seq_features(case, record):
            res.hit("branch:overflow-window")
        res.hit("size:" + show_max(case["m"]))
        kinds = [o[0] for o in case["ops"]]
        if any(k in FLUSHING for i, k in enumerate(kinds) if "collect" in kinds[:i]):
            res.nontrivial.add((case["m"], tuple(tuple(o) for o in case["ops"])))
        res.sample(case)
        res.violations += vs
        if d:
            res.disagreements.append(d)
        if len(res.violations) > 20 or len(res.disagreements) > 20:
            break
    return res


class BufferBoom(Exception):
    """Raised by the recording buffer's add() at a scripted call."""


def suite_failing_buffer(ctx: Ctx) -> SuiteResult:
    """A user buffer whose add() raises in the middle of a hand-over (a dict buffer given a sample with the
    wrong keys does): the timestamps must stay paired with the samples that did reach the buffer."""
    res = SuiteResult("queue-failing-buffer", exhaustive=True,
                      rule="queue sizes {None, 1, 2, 3, 5} x 0-5 collected samples x the add() call that raises "
                           "(every position, and none): after the failed update, count_data_added_since / the "
                           "pickled timestamps / len cover exactly the samples that reached the buffer; then two "
                           "more samples and a normal update; compared with Queue.User.updateF; non-trivial = the "
                           "exception was raised with at least one sample delivered before it")
    di, _, DataUsersDict = _mods()
    RB = recording_buffer_class()

    class FailingBuffer(RB):
        fail_at = None          # index (within the current update) of the add() that raises

        def __init__(self, m):
            super().__init__(m)
            self.calls_in_update = 0

        def add(self, data):
            k = self.calls_in_update
            self.calls_in_update += 1
            if self.fail_at is not None and k == self.fail_at:
                raise BufferBoom(f"add #{k}")
            super().add(data)

    for m in [None, 1, 2, 3, 5]:
        for n in range(0, 6):
            for k in list(range(0, n + 1)) + [None]:
                case = {"failing_buffer": {"m": m, "n": n, "k": k}}
                clock = FakeClock()
                lines = [f"queue reset max={show_max(m)} names=[a]", "queue acquire a"]
                impl = ["ok", "ok"]
                vs: list[Violation] = []
                with Patched(clock):
                    buf = FailingBuffer(m)
                    users = DataUsersDict.from_data_buffers({"a": buf})
                    user = users["a"]
                    col = users.data_collectors_dict.acquire("a")
                    stamps: dict[int, F] = {}
                    x = 0

                    def collect():
                        nonlocal x
                        clock.now += F(1, 2)
                        k0 = len(clock.reads)
                        col.collect(x)
                        rd = clock.reads[k0:]
                        stamps[x] = rd[-1] if rd else clock.now
                        lines.append(f"queue collect {x} t={show_frac(stamps[x])}")
                        impl.append("ok")
                        x += 1
                    for _ in range(n):
                        collect()
                    n0 = len(buf.log)
                    buf.fail_at, buf.calls_in_update = k, 0
                    raised = False
                    try:
                        user.update()
                    except BufferBoom:
                        raised = True
                    buf.fail_at = None
                    batch = buf.log[n0:]
                    lines.append(f"queue updatef {k if k is not None else 99}")
                    impl.append(show_list(batch) + (" raised" if raised else ""))

                    def observe(tag):
                        delivered = list(buf.log)
                        recent = keep(m, [stamps[d] for d in delivered])
                        c = user.count_data_added_since(float("-inf"))
                        lines.append("queue count -1000000")
                        impl.append(str(c))
                        if c != len(recent):
                            vs.append(Violation("queue:failing-buffer:count",
                                                f"{tag}: count_data_added_since(-inf) = {c} but {len(delivered)} sample(s) "
                                                f"reached the buffer (queue size {m}): timestamps are no longer paired "
                                                f"with delivered samples", case))
                        p = fresh_path()
                        buf.calls_in_update = 0
                        user.save_state(p)
                        with open(p / "timestamps.pkl", "rb") as f:
                            ts = [F(t) for t in pickle.load(f)]
                        shutil.rmtree(p, ignore_errors=True)
                        delivered = list(buf.log)
                        want = keep(m, [stamps[d] for d in delivered])
                        lines.append("queue save")
                        impl.append("[] " + show_list(ts, show_frac) if True else "")
                        if ts != want:
                            vs.append(Violation("queue:failing-buffer:timestamps",
                                                f"{tag}: pickled timestamps {ts}, the stamps of the delivered samples "
                                                f"{delivered} are {want}", case))
                    observe("after the failed update" if raised else "after the update")
                    collect(); collect()
                    n1 = len(buf.log)
                    buf.calls_in_update = 0
                    user.update()
                    lines.append("queue update")
                    impl.append(show_list(buf.log[n1:]))
                    observe("after two more samples and a normal update")
                res.evaluations += 1
                res.hit("raised" if raised else "not-raised")
                if raised and batch:
                    res.nontrivial.add((m, n, k))
                res.violations += vs
                if ctx.driver is not None:
                    for i, (ln, a, b) in enumerate(zip(lines, impl, ctx.driver.batch(lines))):
                        if a != b:
                            res.disagreements.append(Disagreement(
                                "queue-failing-buffer", f"line {i} `{ln}`: implementation {a!r}, model {b!r}", case))
                            break
    res.sample(case)
    return res


def pending_case(case: dict) -> list[Violation]:
    """Samples waiting in the collector while the data user's state is loaded (a restore in place: the agent has
    collected, the hand-over has not happened yet): they are delivered by the next hand-over, after the loaded
    content, once each (theorem `load_keeps_pending`; what is loaded is C05's business). The run itself is checked by a
    monitor: the real SequentialBuffer is not driven through the model here."""
    import tempfile
    from pamiq_core.data import DataUser
    from pamiq_core.data.impls import SequentialBuffer
    cap, first, pending, flush = case["cap"], case["first"], case["pending"], case["flush"]
    user = DataUser(SequentialBuffer(cap))
    coll = user._collector
    d = Path(tempfile.mkdtemp(prefix="pamiq-verif."))
    try:
        for x in first:
            coll.collect(x)
        user.update()
        saved = list(user.get_data())
        user.save_state(d / "u")
        for x in pending:
            coll.collect(x)
        user.load_state(d / "u")
        if flush == "update":
            user.update()
            got = list(user._buffer.get_data())
        else:
            got = list(user.get_data())
        exp = (saved + pending[-cap:] if cap else [])[-cap:] if cap else []
        if got != exp:
            return [Violation("queue:pending-lost-at-load",
                              f"buffer capacity {cap}: saved content {saved}, then {pending} collected and still in the "
                              f"collector when load_state ran; after the next {flush}() the buffer holds {got}, expected "
                              f"{exp} (the loaded content followed by the waiting samples)", dict(case, kind="pending"))]
        return []
    finally:
        shutil.rmtree(d, ignore_errors=True)


def suite_pending_across_load(ctx: Ctx) -> SuiteResult:
    res = SuiteResult("queue-pending-across-load", exhaustive=True,
                      rule="capacity 1..4 x 0..3 samples delivered and saved x 0..3 samples collected afterwards and still "
                           "waiting in the collector when load_state() runs x flush by update()/get_data(): the waiting "
                           "samples arrive after the loaded content, once each (Pamiq.Queue.load_keeps_pending); checked by a "
                           "monitor on the real DataUser + SequentialBuffer; non-trivial = some sample waits")
    for cap in (1, 2, 3, 4):
        for nf in range(4):
            for npend in range(4):
                for flush in ("update", "get_data"):
                    case = {"cap": cap, "first": list(range(10, 10 + nf)), "pending": list(range(20, 20 + npend)),
                            "flush": flush}
                    res.evaluations += 1
                    res.hit(f"pending:{min(npend, 2)}")
                    if npend:
                        res.nontrivial.add((cap, nf, npend, flush))
                    res.violations += pending_case(case)
    res.sample(case)
    return res


suite_pending_across_load.needs_driver = False


def suite_malformed(ctx: Ctx) -> SuiteResult:
    res = SuiteResult("queue-malformed",
                      rule="negative max_queue_size (ValueError on both sides), unknown names, "
                           "malformed driver lines (bad-op); non-trivial = all")
    RB = recording_buffer_class()
    for mq in (-1, -7):
        try:
            RB(mq)
            impl = "ok"
        except ValueError:
            impl = "err ValueError"
        res.evaluations += 1
        res.hit("error:ValueError")
        res.nontrivial.add(("neg", mq))
        if impl != "err ValueError":
            res.violations.append(Violation("queue:negative-size", f"max_queue_size={mq} accepted",
                                            {"kind": "neg", "m": mq}))
        if ctx.driver is not None:
            r = ctx.driver.ask(f"queue reset max={mq} names=[a]")
            if r != impl:
                res.disagreements.append(Disagreement("queue-malformed",
                                                      f"max={mq}: implementation {impl}, model {r}", mq))
    if ctx.driver is not None:
        bad_lines = ["queue", "queue reset", "queue reset max=x names=[a]", "queue reset max=1",
                     "queue collect", "queue collect x t=1", "queue collect 1 t=1/0",
                     "queue collect 1 1", "queue count", "queue count a/b", "queue acquire",
                     "queue update now", "queue frob", "queue reset max=1 names=[a,,b]"]
        for ln, r in zip(bad_lines, ctx.driver.batch(bad_lines)):
            res.evaluations += 1
            res.hit("malformed")
            res.nontrivial.add(ln)
            if r != "bad-op":
                res.disagreements.append(Disagreement("queue-malformed", f"`{ln}` answered {r!r}", ln))
    res.sample({"lines": "see source"})
    return res


# ------------------------------------------------------------------------------------------------
# concurrent cases
# ------------------------------------------------------------------------------------------------

TRACES = {"full": lambda di: [di],
          "shared": lambda di: [di.DataCollector, di.TimestampingQueue.append,
                                di.TimestampingQueue.__init__]}


def build_conc(case: dict, sched: linesched.LineSched):
    """Fresh objects for one run. Returns (threads, ctx)."""
    di, _, DataUsersDict = _mods()
    RB = recording_buffer_class()
    m = case["m"]
    clock = FakeClock()
    clock.auto = [F(g) for g in case.get("gaps", [])]
    patch = Patched(clock, sched.RLock)
    patch.__enter__()
    buf = RB(m)
    users = DataUsersDict.from_data_buffers({"a": buf})
    user = users["a"]
    col = users.data_collectors_dict.acquire("a")
    record: list[tuple] = []
    impl_replies: dict = {}

    def producer():
        for i in range(case["ncol"]):
            k0 = len(clock.reads)
            record.append(("collect_call", i, i))
            col.collect(i)
            record.append(("collect_ret", i, clock.reads[k0:]))

    def consumer():
        for j, call in enumerate(case["calls"]):
            kind = call[0]
            arg = F(call[1]) if kind == "count" else None
            record.append(("call", j, kind, arg))
            batch, result, reply = do_call(user, buf, kind, arg)
            record.append(("ret", j, kind, batch, result))
            impl_replies[j] = reply

    ctx = {"patch": patch, "user": user, "buf": buf, "record": record, "replies": impl_replies,
           "clock": clock}
    return [producer, consumer], ctx


def finish_conc(case, res_run: linesched.RunResult, c, driver):
    """After a run: final hand-over from the main thread, monitor, lock coverage, model."""
    violations: list[Violation] = []
    disagreement = None
    record, user, buf = c["record"], c["user"], c["buf"]
    try:
        if not res_run.ok:
            what = ("deadlock" if res_run.deadlock else "step budget exhausted" if res_run.exhausted
                    else "exception in a thread: " + repr([e for e in res_run.errors if e]))
            violations.append(Violation("queue:thread-failed", f"{what}; schedule {res_run.schedule}",
                                        case))
            return violations, disagreement
        # final hand-over from the main thread, then a sweep of count_data_added_since over the
        # readings (determines the whole timestamp deque through the public API, no file I/O)
        jf = len(case["calls"])
        final: list[tuple[str, str]] = []
        record.append(("call", jf, "update", None))
        batch, result, reply = do_call(user, buf, "update", None)
        record.append(("ret", jf, "update", batch, result))
        final.append(("queue update", reply))
        taus = sorted({F(-1)} | {t for e in record if e[0] == "collect_ret" for t in e[2]})
        for k, tau in enumerate(taus):
            record.append(("call", jf + 1 + k, "count", tau))
            batch, result, reply = do_call(user, buf, "count", tau)
            record.append(("ret", jf + 1 + k, "count", batch, result))
            final.append((model_line("count", tau), reply))
    finally:
        c["patch"].__exit__(None, None, None)
    violations += monitor(case["m"], record, case)

    # ---- hypothesis of lock_atomic: append's lines run under the collector's lock ------------
    holding: dict[int, int] = {}
    uncovered = None
    for ev in res_run.events:
        if ev[1] == "acquire":
            holding[ev[0]] = holding.get(ev[0], 0) + 1
        elif ev[1] == "release":
            holding[ev[0]] = holding.get(ev[0], 0) - 1
        elif ev[1] == "line" and ev[2] == "append" and holding.get(ev[0], 0) <= 0:
            uncovered = ev
            break
    # ---- model in lock-acquisition order -----------------------------------------------------
    order = [t for _, t in res_run.lock_order]
    n_flush = sum(1 for call in case["calls"] if call[0] in FLUSHING)
    if uncovered is not None:
        disagreement = Disagreement(
            "queue-conc", f"lock coverage: thread {uncovered[0]} executed line {uncovered[3]} of "
                          f"TimestampingQueue.append without holding the collector lock", case)
    elif order.count(0) != case["ncol"] or order.count(1) != n_flush:
        disagreement = Disagreement(
            "queue-conc", f"lock shape: {order.count(0)} acquisitions by the producer for "
                          f"{case['ncol']} collects, {order.count(1)} by the consumer for {n_flush} "
                          f"hand-overs", case)
    elif driver is not None:
        reads = {e[1]: e[2] for e in record if e[0] == "collect_ret"}
        lines = [f"queue reset max={show_max(case['m'])} names=[a]", "queue acquire a"]
        impl = ["ok", "ok"]
        ci, cj = 0, 0
        calls = case["calls"]

        def emit_nonflushing():
            nonlocal cj
            while cj < len(calls) and calls[cj][0] not in FLUSHING:
                lines.append(model_line(calls[cj][0], F(calls[cj][1]) if calls[cj][0] == "count" else None))
                impl.append(c["replies"][cj])
                cj += 1

        emit_nonflushing()
        for t in order:
            if t == 0:
                rd = reads[ci]
                lines.append(f"queue collect {ci} t={show_frac(rd[-1])}")
                impl.append("ok")
                ci += 1
            else:
                lines.append(model_line(calls[cj][0], None))
                impl.append(c["replies"][cj])
                cj += 1
                emit_nonflushing()
        for ln, reply in final:
            lines.append(ln)
            impl.append(reply)
        replies = driver.batch(lines)
        for k, (ln, a, b) in enumerate(zip(lines, impl, replies)):
            if a != b:
                disagreement = Disagreement(
                    "queue-conc", f"lock order {order}: line {k} `{ln}`: implementation {a!r}, "
                                  f"model {b!r}", case)
                break
    return violations, disagreement


def run_conc(case: dict, driver):
    """One concurrent case with a given schedule (replayable).
    case = {"kind":"conc","m":..,"ncol":..,"calls":[[kind,arg?]..],"gaps":[..],"trace":"full",
            "preempt":"lines","schedule":[..],"max_preemptions":None|k}"""
    di, _, _ = _mods()
    sched = linesched.LineSched(TRACES[case.get("trace", "full")](di),
                                preempt=case.get("preempt", "lines"))
    threads, c = build_conc(case, sched)
    try:
        r = sched.run(threads, case.get("schedule", []), max_preemptions=case.get("max_preemptions"))
    except BaseException:
        c["patch"].__exit__(None, None, None)
        raise
    vs, d = finish_conc(case, r, c, driver)
    return vs, d, r


def explore_conc(base: dict, driver, res: SuiteResult, max_runs=None) -> int:
    """All schedules of a scenario (depth-first), each checked. Returns number of runs."""
    di, _, _ = _mods()
    n = 0
    orders = set()
    gen = linesched.explore(lambda s: build_conc(base, s), trace=TRACES[base.get("trace", "full")](di),
                            max_preemptions=base.get("max_preemptions"), max_runs=max_runs,
                            preempt=base.get("preempt", "lines"))
    for r, c in gen:
        case = dict(base, schedule=r.schedule)
        vs, d = finish_conc(case, r, c, driver)
        n += 1
        res.evaluations += 1
        res.hit("runs:" + base.get("preempt", "lines"))
        res.hit("decisions", len(r.choices))
        orders.add(tuple(t for _, t in r.lock_order))
        res.violations += vs
        if d:
            res.disagreements.append(d)
        if len(res.violations) > 20 or len(res.disagreements) > 20:
            break
    for o in orders:
        res.nontrivial.add((base["m"], base["ncol"], tuple(tuple(x) for x in base["calls"]), o))
    res.hit("lock-orders", len(orders))
    return n


CALL_KINDS = [["update"], ["get_data"], ["count", "1/2"], ["save"]]


def call_seqs(max_len: int):
    for n in range(1, max_len + 1):
        for combo in itertools.product(CALL_KINDS, repeat=n):
            yield [list(x) for x in combo]


def suite_conc_lock_orders(ctx: Ctx) -> SuiteResult:
    res = SuiteResult(
        "queue-conc-all-lock-orders", exhaustive=True,
        rule="producer (1-3 collects) || consumer (1-2 calls among update/get_data/count/save), queue "
             "sizes None,0,1,2,5: EVERY order of the critical sections (preemption before each lock "
             "acquisition), model run in the observed order; non-trivial = all; distinct = by "
             "(size, collects, calls, lock order)")
    for c in corpus_cases("C07"):
        if c["case"].get("kind") == "conc":
            vs, d, _ = run_conc(c["case"], ctx.driver)
            res.evaluations += 1
            res.hit("corpus")
            res.violations += vs
            if d:
                res.disagreements.append(d)
    for m in SIZES:
        for ncol in (1, 2, 3):
            for calls in call_seqs(2):
                base = {"kind": "conc", "m": m, "ncol": ncol, "calls": calls,
                        "gaps": ["1/4", "0", "1/2", "1/4"], "trace": "full", "preempt": "locks"}
                explore_conc(base, ctx.driver, res)
                if len(res.violations) > 20 or len(res.disagreements) > 20:
                    return res
    res.sample(base)
    return res


def suite_conc_lines(ctx: Ctx) -> SuiteResult:
    res = SuiteResult(
        "queue-conc-line-granular", exhaustive=True,
        rule="preemption before every source line of data/interface.py: (a) EVERY schedule of "
             "1 collect || 1 update, 1 collect || 1 count, and (lines of the collector/queue "
             "methods only) 2 collects || 1 update; (b) every schedule with <= 2 preemptions of "
             "3 collects || 2 calls for a spread of call pairs and sizes; each run: model in observed "
             "lock order + lock coverage of TimestampingQueue.append; non-trivial = all; distinct = "
             "by (size, collects, calls, lock order)")
    thorough = ctx.tier == "thorough"
    # (collects, calls, size, trace, preemption bound) — None = every schedule
    full = [(1, [["update"]], 1, "full", None), (2, [["update"]], None, "shared", None),
            (1, [["count", "1/2"]], 1, "full", None)]
    if thorough:
        full += [(1, [["get_data"]], 2, "full", None), (1, [["update"]], 0, "full", None),
                 (2, [["update"]], 1, "full", 4), (1, [["save"]], 1, "full", 4),
                 (2, [["update"], ["update"]], 1, "shared", 4)]
    for ncol, calls, m, tr, mp in full:
        base = {"kind": "conc", "m": m, "ncol": ncol, "calls": calls, "gaps": ["1/4", "1/2"],
                "trace": tr, "preempt": "lines", "max_preemptions": mp}
        explore_conc(base, ctx.driver, res)
        if len(res.violations) > 20 or len(res.disagreements) > 20:
            return res
    pairs = [[["update"], ["update"]], [["update"], ["save"]], [["get_data"], ["count", "1/2"]],
             [["count", "1/4"], ["update"]], [["save"], ["get_data"]]]
    sizes = [1, None, 2, 0, 5]
    if thorough:
        pairs = list(call_seqs(2))
    for k, calls in enumerate(pairs):
        for m in [sizes[k % len(sizes)]]:
            base = {"kind": "conc", "m": m, "ncol": 3, "calls": calls,
                    "gaps": ["1/4", "0", "1/2"], "trace": "full", "preempt": "lines",
                    "max_preemptions": 3 if thorough else 2}
            explore_conc(base, ctx.driver, res)
            if len(res.violations) > 20 or len(res.disagreements) > 20:
                return res
    res.sample(base)
    return res


def random_conc_case(rng) -> dict:
    ncol = rng.randint(1, 6)
    ncalls = rng.randint(1, 4)
    calls = []
    for _ in range(ncalls):
        k = rng.choice(["update", "update", "get_data", "count", "save", "len"])
        calls.append([k, str(F(rng.randrange(0, 12), 4))] if k == "count" else [k])
    return {"kind": "conc", "m": rng.choice(SIZES), "ncol": ncol, "calls": calls,
            "gaps": [rng.choice(["0", "1/4", "1/2", "1"]) for _ in range(ncol)],
            "trace": "full", "preempt": rng.choice(["lines", "lines", "both"]),
            "schedule": [rng.randrange(0, 4) if rng.random() < 0.35 else 0 for _ in range(120)]}


def suite_conc_random(ctx: Ctx) -> SuiteResult:
    res = SuiteResult(
        "queue-conc-random-schedules",
        rule="1-6 collects || 1-4 consumer calls (update/get_data/count/save/len), random queue size, "
             "random line-granular schedules (switch probability 35% per decision point); "
             "non-trivial = producer and consumer critical sections alternate at least once; "
             "distinct = by (size, collects, calls, lock order)")
    for _ in range(ctx.n(2500, 30000)):
        case = random_conc_case(ctx.rng)
        vs, d, r = run_conc(case, ctx.driver)
        res.evaluations += 1
        order = tuple(t for _, t in r.lock_order)
        res.hit("decisions", len(r.choices))
        res.hit("preemptions", r.preemptions)
        res.hit("size:" + show_max(case["m"]))
        if any(a != b for a, b in zip(order, order[1:])):
            res.nontrivial.add((case["m"], case["ncol"], tuple(tuple(x) for x in case["calls"]), order))
        res.sample({k: v for k, v in case.items() if k != "schedule"} | {"schedule": r.schedule})
        res.violations += vs
        if d:
            res.disagreements.append(d)
        if len(res.violations) > 20 or len(res.disagreements) > 20:
            break
    return res


# ------------------------------------------------------------------------------------------------
def run_any(case: dict, driver):
    if case.get("kind") == "conc":
        vs, d, _ = run_conc(case, driver)
        return vs, d
    if case.get("kind") == "neg":
        return [], None
    vs, d, _ = run_seq(case, driver)
    return vs, d


def search(ctx: Ctx, disagreements, broken):
    """§5: look for an input/schedule on which the PROPERTY fails on the implementation."""
    import random
    out: list[Violation] = []
    for d in disagreements:
        if isinstance(d.case, dict):
            vs, _ = run_any(d.case, None)
            out += vs
    if out:
        return out
    # line-granular, deeper preemption bound, on the scenarios that diverged first
    tmp = SuiteResult("search")
    bases = [d.case for d in disagreements if isinstance(d.case, dict) and d.case.get("kind") == "conc"][:3]
    bases += [{"kind": "conc", "m": m, "ncol": 2, "calls": calls, "gaps": ["1/4", "1/2"]}
              for m in (1, None) for calls in ([["update"]], [["update"], ["save"]])]
    for b in bases:
        base = dict(b, trace="full", preempt="lines", max_preemptions=3)
        base.pop("schedule", None)
        explore_conc(base, None, tmp, max_runs=ctx.n(4000, 40000))
        if tmp.violations:
            return tmp.violations
    rng = random.Random(ctx.seed + 1)
    for _ in range(ctx.n(15000, 150000)):
        if rng.random() < 0.5:
            vs, _, _ = run_conc(random_conc_case(rng), None)
        else:
            vs, _, _ = run_seq(gen_seq(rng, 20), None)
        if vs:
            return vs
    return out


def replay(ctx: Ctx, payload: dict) -> SuiteResult:
    res = SuiteResult("replay")
    case = payload.get("case") or payload.get("first_disagreement")
    if case.get("kind") == "pending":
        res.violations = pending_case(case)
        res.evaluations = 1
        return res
    if "failing_buffer" in case:
        r = suite_failing_buffer(ctx)
        want = case["failing_buffer"]
        res.violations = [v for v in r.violations if v.case.get("failing_buffer") == want]
        res.disagreements = [d for d in r.disagreements if d.case.get("failing_buffer") == want]
        res.evaluations = 1
        return res
    if case.get("kind") == "conc":
        vs, d, r = run_conc(case, ctx.driver)
        print("lock order:", r.lock_order)
        print("events:", r.events[:200])
    else:
        vs, d, rec = run_seq(case, ctx.driver)
        print("record:", rec)
    res.evaluations = 1
    res.violations = vs
    if d:
        res.disagreements.append(d)
    return res


if __name__ == "__main__":
    setup_repo_path()
    try:
        code = run_check(
            "C07", lean_modules=["Pamiq.Props.C07", "Pamiq.Lemmas.Queue", "Pamiq.Lemmas.LockObj"],
            required_theorems=["Pamiq.Queue.load_keeps_pending", 
                "Pamiq.Queue.run_ok", "Pamiq.Queue.delivered_eq", "Pamiq.Queue.pending_eq",
                "Pamiq.Queue.update_delivers", "Pamiq.Queue.ts_paired",
                "Pamiq.Queue.windows_partition", "Pamiq.Queue.delivered_in_order",
                "Pamiq.Queue.loss_only_oldest", "Pamiq.Queue.no_loss_unbounded",
                "Pamiq.Queue.zero_drops_all", "Pamiq.Queue.count_since", "Pamiq.Queue.exclusive",
                "Pamiq.Queue.acquire_twice", "Pamiq.Queue.acquire_unknown",
                "Pamiq.LockObj.lock_atomic", "Pamiq.LockObj.lock_atomic_final",
                "Pamiq.Queue.atomicCall_collect", "Pamiq.Queue.atomicCall_update",
                "Pamiq.Queue.collect_update_atomic"],
            suites=[suite_sequential, suite_failing_buffer, suite_pending_across_load, suite_malformed, suite_conc_lock_orders, suite_conc_lines,
                    suite_conc_random],
            search=search, replay=replay,
            assumptions=[
                "one collecting thread and one consuming thread per collector (what acquire's "
                "exclusivity and the thread layout of launch() give); more producers are not modelled",
                "CPython: a single deque.append / attribute store is atomic; preemption is modelled "
                "at source-line granularity (sys.monitoring LINE events), not inside a line",
                "the clock read inside append (pamiq_core.time.time) is replaced by a scripted "
                "non-decreasing dyadic clock; monotonicity of the real one is C06",
                "the buffer is a recording DataBuffer; what built-in buffers keep is C11; "
                "DataUser.load_state and the pickle round trip are C05",
                "exhaustive enumeration of ALL line-level schedules is done for 1 collect || 1 update/count "
                "(2 collects at the granularity of the collector/queue methods); "
                "3 collects || 2 calls are enumerated over all lock-acquisition orders and over all "
                "line-level schedules with at most 2 (thorough: 3) preemptions, random beyond",
            ],
            trusted_extra=["harness/linesched.py (baton scheduler, sys.monitoring LINE preemption, "
                           "cooperating re-entrant lock substituted for data.interface.RLock)",
                           "recording DataBuffer and scripted clock in harness/corr/c07.py"],
            level_text="invariant over all histories (delivered = per-window newest-maxlen, timestamps "
                       "paired, count) + generic lock-atomicity theorem over all interleavings, "
                       "instantiated for collect || update; correspondence sequentially and under "
                       "line-granular deterministic schedules in observed lock order")
    finally:
        if _TMP is not None:
            shutil.rmtree(_TMP, ignore_errors=True)
    sys.exit(code)
