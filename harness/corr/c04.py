"""C04 — a state saved while running is one consistent snapshot (DESIGN §7.4)."""
import sys
from pathlib import Path
sys.path.insert(0, str(Path(__file__).resolve().parent.parent))
from framework import run_check, setup_repo_path
import syscheck

if __name__ == "__main__":
    setup_repo_path()
    import gentie
    sys.exit(run_check(
        "C04", lean_modules=["Pamiq.Props.C04", "Pamiq.Props.C04Data", "Pamiq.Lemmas.ProtoCtl"],
        required_theorems=["Pamiq.Proto.cedge_sound", "Pamiq.Proto.save_only_when_paused", "Pamiq.Proto.save_sees_quiescent_system", "Pamiq.Proto.no_step_completes_during_save", "Pamiq.Proto.save_end_resumes_iff_was_running", "Pamiq.Proto.save_records_paused_before", "Pamiq.Proto.after_save_only_resume", "Pamiq.Proto.final_save_after_all_exited",
                           "Pamiq.SysData.proj_reachable", "Pamiq.SysData.cut_stable", "Pamiq.SysData.snapshot_is_cut",
                           "Pamiq.SysData.nothing_in_transit", "Pamiq.SysData.collected_all",
                           "Pamiq.SysData.saved_data_is_everything_collected", "Pamiq.SysData.final_values_settled"],
        suites=[gentie.suite_for("C04")] + syscheck.make_suites("C04", [('C04', 150, 4000), ('any', 200, 6000), ('C02', 60, 2000)],
            "random scenarios (0-2 trainers, child agent, 1-3 attempts, queue 1-3, web commands incl. "
            "pause/resume/save/status/invalid, save condition, faults at every callback kind, interrupts, "
            "timed mode) x seeded random schedules of the real launch(); each trace replayed through "
            "Pamiq.Proto and through the product model Pamiq.SysData (protocol x component values: every step, "
            "hand-over, training run, clock reading and component write of the trace must be allowed by the "
            "model, and the files of every save must equal the model's predicted snapshot), and checked by the "
            "C04 monitor; non-trivial = contains a pause attempt / save / "
            "fault / resume; distinct by (scenario, schedule)"),
        search=syscheck.make_search("C04", ["any", "C02"]), replay=syscheck.make_replay("C04"),
        assumptions=syscheck.PROTO_ASSUMPTIONS, trusted_extra=syscheck.PROTO_TRUSTED,
        level_text="theorems about the thread-protocol model Pamiq.Proto and its product with the component "
                   "values Pamiq.SysData (cut stability, snapshot = values of the acknowledgement instant, nothing "
                   "in transit) for every number of threads, retry limit, collector bound, fault point and "
                   "interleaving; implementation traces are traces of both models and saved files equal the "
                   "model's snapshot"))
