"""C02 — shutdown terminates cleanly; pause and resume make progress (DESIGN §7.2)."""
import sys
from pathlib import Path
sys.path.insert(0, str(Path(__file__).resolve().parent.parent))
from framework import run_check, setup_repo_path
import syscheck

if __name__ == "__main__":
    import gentie
    setup_repo_path()
    sys.exit(run_check(
        "C02", lean_modules=["Pamiq.Props.C02", "Pamiq.Props.C02Live", "Pamiq.Props.C02Term", "Pamiq.Lemmas.ProtoCtl", "Pamiq.Lemmas.ProtoBg"],
        required_theorems=["Pamiq.Proto.cedge_sound", "Pamiq.Proto.bedge_sound", "Pamiq.Proto.shutdown_wakes", "Pamiq.Proto.no_pause_after_shutdown", "Pamiq.Proto.final_save_last", "Pamiq.Proto.done_is_final", "Pamiq.Proto.bg_rank_decreases", "Pamiq.Proto.bg_enabled_after_shutdown", "Pamiq.Proto.resume_wakes_all", "Pamiq.Proto.first_attempt_no_timeout", "Pamiq.Proto.shutdown_never_blocks", "Pamiq.Proto.pause_attempt_never_stuck", "Pamiq.Proto.attempts_bounded",
                           "Pamiq.Proto.shutdown_work_bounded", "Pamiq.Proto.shutdown_work_le", "Pamiq.Proto.no_bg_deadlock_after_shutdown",
                           "Pamiq.Proto.ctl_releases_lock_when_unwound", "Pamiq.Proto.launch_epilogue_never_blocks", "Pamiq.Proto.shutdown_stable",
                           "Pamiq.Proto.never_started_is_final", "Pamiq.Proto.joined_is_settled", "Pamiq.Proto.drain_threads",
                           "Pamiq.Proto.can_always_return", "Pamiq.Proto.no_deadlock"],
        suites=[gentie.suite_for("C02"), syscheck.suite_fakes] + syscheck.make_suites("C02", [('C02', 300, 8000), ('any', 80, 2000)],
            "random scenarios (0-2 trainers, child agent, 1-3 attempts, queue 1-3, web commands incl. "
            "pause/resume/save/status/invalid, save condition, faults at every callback kind, interrupts, "
            "timed mode) x seeded random schedules of the real launch(); each trace replayed through "
            "Pamiq.Proto and checked by the C02 monitor; non-trivial = contains a pause attempt / save / "
            "fault / resume; distinct by (scenario, schedule)"),
        search=syscheck.make_search("C02", ["C02", "any"]), replay=syscheck.make_replay("C02"),
        assumptions=syscheck.PROTO_ASSUMPTIONS, trusted_extra=syscheck.PROTO_TRUSTED,
        level_text="theorems about the thread-protocol model Pamiq.Proto for every number of threads, "
                   "retry limit, fault point and interleaving; implementation traces are traces of the model"))
