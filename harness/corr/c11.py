"""C11 — built-in buffers keep exactly what their contract says.

Correspondence: operation sequences (constructor, add, get_data, len, is_full, save/load, load of an
arbitrary file) are run on the four real buffer classes of /repo with `random.random` /
`random.randint` scripted, and line by line on the Lean model (`Pamiq/Model/Buffer.lean`) which
receives the same draws; all replies are compared for equality. Monitor: the property statement
written directly in Python on the observable behaviour (identity of the stored sample objects),
independent of the Lean model.
"""
from __future__ import annotations

import itertools
import json
import math
import pickle
import shutil
import sys
import tempfile
from collections import deque
from fractions import Fraction as F
from pathlib import Path

sys.path.insert(0, str(Path(__file__).resolve().parent.parent))
from framework import (Ctx, Disagreement, SuiteResult, Violation, corpus_cases, run_check,
                       setup_repo_path, show_frac, show_list)

GAMMA = 0.5772156649015329          # the constant of the survival-length formula (docstring link)
SYS_MAXSIZE = sys.maxsize
KINDS = ["seq", "rrb", "dseq", "drrb"]


class V(int):
    """An int with its own identity and a sample id: equal values stay distinguishable."""


_TMP: Path | None = None


def tmpdir() -> Path:
    global _TMP
    if _TMP is None:
        _TMP = Path(tempfile.mkdtemp(prefix="pamiq-verif."))
    return _TMP


def cleanup_tmp() -> None:
    global _TMP
    if _TMP is not None:
        shutil.rmtree(_TMP, ignore_errors=True)
        _TMP = None


class FakeRandomFns:
    """Scripted `random.random` / `random.randint` (same contract as the stdlib functions)."""

    def __init__(self) -> None:
        self.u = F(0)
        self.r = 0
        self.calls: list[str] = []
        self.index: int | None = None

    def begin(self, u: F, r: int) -> None:
        self.u, self.r, self.calls, self.index = u, r, [], None

    def random(self) -> float:
        self.calls.append("random")
        return float(self.u)

    def randint(self, a: int, b: int) -> int:
        self.calls.append(f"randint({a},{b})")
        if a > b:
            raise ValueError(f"empty range in randrange({a}, {b + 1})")
        self.index = a + self.r % (b - a + 1)
        return self.index


class _MathShim:
    def __init__(self, real, value: float) -> None:
        self._real, self._value = real, value

    def log(self, *_a):
        return self._value

    def __getattr__(self, name):
        return getattr(self._real, name)


def mods():
    import pamiq_core.data.impls.random_replacement_buffer as rrb_mod
    import pamiq_core.data.impls.sequential_buffer as seq_mod
    return seq_mod, rrb_mod


# ------------------------------------------------------------------------------------------------
# canonical text

def pfrac(s) -> F | None:
    return None if s is None else F(s)


def show_sample(d: dict) -> str:
    return "{" + ";".join(f"{k}:{int(d[k])}" for k in sorted(d)) + "}"


def show_content(kind: str, items) -> str:
    if kind in ("seq", "rrb"):
        return show_list(items, lambda v: str(int(v)))
    return show_list(items, show_sample)


def show_columns(cols: dict) -> str:
    return "{" + ";".join(f"{k}:{show_list(cols[k], lambda v: str(int(v)))}" for k in sorted(cols)) + "}"


def exact_esl(cap: int, esl: int, lgf: float) -> bool:
    """Is `max_size / survival_length * lg` computed without rounding in floats?"""
    if esl == 0:
        return True
    t1 = cap / esl
    if F(t1) != F(cap, esl):
        return False
    t2 = t1 * lgf
    return F(t2) == F(t1) * F(lgf) and not math.isinf(t2)


def safe_quotient(cap: int, p: F) -> bool:
    """Does rounding of the float division `max_size / p` stay away from an integer boundary
    (so that `int(max_size / p)` is the truncation of the exact quotient) and from 2**63?"""
    if p <= 0:
        return True
    t = F(cap) / p
    if t >= 2 ** 62:
        return t >= 2 ** 64 or (t.denominator == 1 and F(float(t)) == t)
    frac = t - (t.numerator // t.denominator)
    if frac == 0:
        return True
    return min(frac, 1 - frac) > t / 2 ** 45


# ------------------------------------------------------------------------------------------------
# one case on the implementation (+ monitor) and on the model

class Runner:
    def __init__(self, case: dict, variant: str) -> None:
        self.case = case
        self.kind = case["kind"]
        self.is_dict = self.kind in ("dseq", "drrb")
        self.is_rrb = self.kind in ("rrb", "drrb")
        self.malformed = bool(case.get("malformed"))
        self.violations: list[Violation] = []
        self.lines: list[str] = [f"buf variant {variant}"]
        self.impl: list[str] = ["ok"]
        self.trace: list[str] = []
        self.fake = FakeRandomFns()
        self.next_sid = 0
        self.objs: dict[int, object] = {}     # sid -> stored object(s) currently known
        self.buf = None
        self.cap = case["cap"]
        self.p = pfrac(case.get("p"))          # constructor argument (exact value of the float)
        self.p_special = case.get("p_special")  # "nan" | "inf" | "-inf": monitor only
        self.esl = case.get("esl")
        self.keys_form = case.get("keys_form", "list")
        self.keys = list(case.get("keys", []))
        self.peff: F | None = None             # probability in effect (known to the monitor)
        self.content: list[int] = []           # sids, as last observed
        self.log: list[int] = []               # seq reference: accepted sids since the baseline
        self.model_ok = True                   # False: floats not exact on this case -> monitor only
        # dict buffers with an empty key set store empty dicts: rows carry no identity, the
        # content clauses of the monitor have nothing to look at (len goes through the model)
        self.blind = self.malformed or (self.is_dict and not self.keys)

    # -- helpers -------------------------------------------------------------------------------
    def viol(self, key: str, what: str) -> None:
        self.violations.append(Violation(key, what, self.case))

    def both(self, line: str, out: str) -> None:
        self.lines.append(line)
        self.impl.append(out)

    def mk_value(self, x):
        sid = self.next_sid
        self.next_sid += 1
        if self.is_dict:
            d = {}
            # key *sets* are the contract (add() checks the set): samples arrive in differing key orders
            items = list(x.items())
            if sid % 3 == 1:
                items.reverse()
            elif sid % 3 == 2:
                items = items[1:] + items[:1]
            for k, val in items:
                v = V(val)
                v.sid = sid
                d[k] = v
            self.objs[sid] = d
            # the documented parameter type is Mapping[str, T]: exercise several mapping forms,
            # including one that invents missing entries on lookup (defaultdict)
            form = sid % 4
            if form == 1:
                import collections

                def invented():
                    w = V(-1)
                    w.sid = None
                    return w
                m = collections.defaultdict(invented)
                m.update(d)
                return sid, m
            if form == 2:
                import types
                return sid, types.MappingProxyType(d)
            if form == 3:
                import collections
                return sid, collections.OrderedDict(d)
            return sid, d
        v = V(x)
        v.sid = sid
        self.objs[sid] = v
        return sid, v

    def lg_float(self, cap: int) -> float | None:
        if self.esl is None or self.p is not None:
            return None
        if self.case.get("logv") is not None:
            return float(F(self.case["logv"])) + GAMMA
        if cap < 1:
            return None
        return math.log(cap) + GAMMA

    # -- constructor ---------------------------------------------------------------------------
    def _keys_arg(self):
        """The documented parameter type is Iterable[str]: exercise several iterable forms,
        including single-pass iterators."""
        ks = list(self.keys)
        f = self.keys_form
        if f == "tuple": return tuple(ks)
        if f == "set": return set(ks)
        if f == "generator": return (k for k in ks)
        if f == "iter": return iter(ks)
        if f == "dict_keys": return {k: None for k in ks}.keys()
        return ks

    def construct(self, cap: int):
        """Build the real object; returns (object | None, reply string)."""
        seq_mod, rrb_mod = mods()
        kw = {}
        if self.p_special is not None:
            kw["replace_probability"] = float(self.p_special)
        elif self.p is not None:
            kw["replace_probability"] = float(self.p)
        if self.esl is not None:
            kw["expected_survival_length"] = self.esl
        real_math = rrb_mod.math
        if self.case.get("logv") is not None:
            rrb_mod.math = _MathShim(real_math, float(F(self.case["logv"])))
        try:
            keys_arg = self._keys_arg() if self.kind in ("dseq", "drrb") or self.kind not in ("seq", "rrb") else None
            if self.kind == "seq":
                b = seq_mod.SequentialBuffer(cap)
            elif self.kind == "dseq":
                b = seq_mod.DictSequentialBuffer(keys_arg, cap)
            elif self.kind == "rrb":
                b = rrb_mod.RandomReplacementBuffer(cap, **kw)
            else:
                b = rrb_mod.DictRandomReplacementBuffer(keys_arg, cap, **kw)
            # the key collection is the caller's own object: what the caller does with it afterwards (one
            # set extended and reused for the next buffer) must not change the keys of this buffer
            if isinstance(keys_arg, set):
                keys_arg.add("__later__")
                keys_arg.discard(next(iter(sorted(k for k in keys_arg if k != "__later__")), None))
            elif isinstance(keys_arg, list):
                keys_arg.append("__later__")
                del keys_arg[:1]
            return b, f"ok q={b.max_queue_size}"
        except Exception as e:  # the reply names whatever was raised
            return None, "err " + type(e).__name__
        finally:
            rrb_mod.math = real_math

    def ctor_line(self, cap: int) -> str | None:
        s = f"buf new {self.kind} cap={cap}"
        if self.is_dict:
            s += " keys=" + show_list(self.keys)
        if self.is_rrb:
            if self.p is not None:
                s += " p=" + show_frac(self.p)
            if self.esl is not None:
                s += f" esl={self.esl}"
                lgf = self.lg_float(cap)
                if lgf is not None:
                    s += " lg=" + show_frac(F(lgf))
                elif self.p is None:
                    return None
        return s

    def effective_p(self, cap: int) -> F | None:
        """Probability the documentation promises for these arguments (monitor's own reading)."""
        if not self.is_rrb:
            return None
        if self.p is not None:
            return self.p
        if self.esl is None:
            return F(1)
        lgf = self.lg_float(cap)
        if lgf is None or self.esl == 0:
            return None
        x = F(cap, self.esl) * F(lgf)
        return min(max(x, F(0)), F(1))

    def start(self) -> bool:
        cap = self.cap
        buf, reply = self.construct(cap)
        self.buf = buf
        documented = (cap >= 1 and self.p_special is None
                      and (not self.is_rrb or (
                          not (self.p is not None and self.esl is not None)
                          and (self.p is None or 0 <= self.p <= 1)
                          and (self.esl is None or self.esl >= 1))))
        invalid = self.is_rrb and cap >= 1 and (
            (self.p is not None and self.esl is not None)
            or self.p_special is not None
            or (self.p is not None and not (0 <= self.p <= 1)))
        if documented and buf is None:
            self.viol(f"ctor:rejects-documented:{reply[4:]}",
                      f"{self.describe(cap)} raised {reply[4:]} although every argument is in its "
                      "documented range")
        if invalid and (buf is not None or reply != "err ValueError"):
            self.viol("ctor:accepts-invalid", f"{self.describe(cap)} answered {reply!r}, documented: ValueError")
        if documented and buf is not None:
            if buf.max_size != cap:
                self.viol("ctor:max_size", f"{self.describe(cap)}.max_size = {buf.max_size}")
            try:
                from pamiq_core.data.interface import DataUser
                DataUser(buf)
            except Exception as e:
                self.viol(f"ctor:queue-size-unusable:{type(e).__name__}",
                          f"{self.describe(cap)} has max_queue_size={buf.max_queue_size}: attaching it "
                          f"to a DataUser raises {type(e).__name__}")
        # ---- model line ----
        if self.p_special is not None:
            self.model_ok = False
        if self.is_rrb and self.esl is not None and self.p is None:
            lgf = self.lg_float(cap)
            if lgf is None or not exact_esl(cap, self.esl, lgf):
                self.model_ok = False
            elif self.esl != 0:
                pe = self.effective_p(cap)
                if pe is not None and not safe_quotient(cap, pe):
                    self.model_ok = False
        elif self.is_rrb and self.p is not None and 0 <= self.p <= 1 and not safe_quotient(cap, self.p):
            self.model_ok = False
        line = self.ctor_line(cap)
        if line is None:
            self.model_ok = False
        if self.model_ok:
            self.both(line, reply)
        self.trace.append("ctor:" + (reply.split()[0] if buf is not None else reply))
        if buf is None:
            return False
        self.peff = self.effective_p(cap)
        if self.model_ok:
            self.both("buf maxsize", str(buf.max_size))
            self.both("buf maxq", str(buf.max_queue_size))
            if self.is_dict:
                self.both("buf keys", show_list(sorted(buf.keys)))
        return True

    def describe(self, cap: int) -> str:
        names = {"seq": "SequentialBuffer", "rrb": "RandomReplacementBuffer",
                 "dseq": "DictSequentialBuffer", "drrb": "DictRandomReplacementBuffer"}
        args = []
        if self.is_dict:
            args.append(repr(self.keys))
        args.append(str(cap))
        if self.p_special is not None:
            args.append(f"replace_probability={self.p_special}")
        elif self.p is not None:
            args.append(f"replace_probability={float(self.p)!r}")
        if self.esl is not None:
            args.append(f"expected_survival_length={self.esl}")
        return f"{names[self.kind]}({', '.join(args)})"

    # -- observation ---------------------------------------------------------------------------
    def observe(self, tag: str) -> list[int] | None:
        """get_data + len on the implementation: model lines, and the monitor's decoding of the
        content into sample ids (identity checked against the objects that were handed in)."""
        buf = self.buf
        try:
            data = buf.get_data()
        except Exception as e:
            self.both("buf get", "err " + type(e).__name__)
            if not self.malformed:
                self.viol(f"get:raised:{type(e).__name__}", f"{tag}: get_data() raised {e!r}")
            return None
        n = len(buf)
        if self.is_dict:
            self.both("buf get", show_columns(data))
        else:
            self.both("buf get", show_content(self.kind, data))
        self.both("buf len", str(n))
        if self.kind == "rrb":
            self.both("buf full", "1" if buf.is_full else "0")
        if self.malformed:
            return None
        sids: list[int] = []
        if self.is_dict:
            if set(data.keys()) != set(self.keys):
                self.viol("dict:keys", f"{tag}: get_data() keys {sorted(data)} != {sorted(set(self.keys))}")
                return None
            if self.blind:
                return None
            lens = {k: len(col) for k, col in data.items()}
            if any(l != n for l in lens.values()):
                self.viol("dict:misaligned-length", f"{tag}: column lengths {lens}, len(buffer) = {n}")
                return None
            for j in range(n):
                row = {k: data[k][j] for k in data}
                ids = {getattr(v, "sid", None) for v in row.values()}
                if len(ids) != 1:
                    self.viol("dict:misaligned-row", f"{tag}: row {j} mixes samples {sorted(map(str, ids))}")
                    return None
                sid = next(iter(ids))
                orig = self.objs.get(sid)
                if orig is None or any(row[k] is not orig.get(k) for k in row):
                    self.viol("content:not-added", f"{tag}: row {j} is not a sample that was added")
                    return None
                sids.append(sid)
        else:
            if len(data) != n:
                self.viol("len:differs", f"{tag}: len(buffer) = {n}, len(get_data()) = {len(data)}")
            for j, v in enumerate(data):
                sid = getattr(v, "sid", None)
                if sid is None or self.objs.get(sid) is not v:
                    self.viol("content:not-added", f"{tag}: element {j} ({v!r}) is not a sample that was added")
                    return None
                sids.append(sid)
        return sids

    # -- operations ----------------------------------------------------------------------------
    def op_add(self, op) -> None:
        _, x, u, r = op
        u = F(u)
        buf = self.buf
        wrong_keys = self.is_dict and set(x.keys()) != set(self.keys)
        sid, val = self.mk_value(x)
        before = list(self.content)
        n_before = len(buf)
        self.fake.begin(u, r)
        try:
            buf.add(val)
            out = " ".join(["ok"] + self.fake.calls)
        except Exception as e:
            out = "err " + type(e).__name__
        idx = self.fake.index if self.fake.index is not None else r % max(self.cap_now, 1)
        vs = show_sample(x) if self.is_dict else str(x)
        word = "addd" if self.is_dict else "add"
        draws = f" u={show_frac(u)} i={idx}" if self.is_rrb else ""
        self.both(f"buf {word} {vs}{draws}", out)
        self.trace.append("add:" + out.replace(" ", "+"))
        after = self.observe(f"after add #{sid}")
        if self.is_dict and set(val.keys()) != set(x.keys()):
            self.viol("dict:sample-modified",
                      f"add() changed the caller's sample: keys {sorted(x.keys())} became {sorted(val.keys())}")
        if self.malformed and not wrong_keys:
            if after is not None:
                self.content = after
            return
        # ---- monitor ----
        if wrong_keys:
            if out != "err ValueError":
                self.viol("dict:wrong-keys-accepted",
                          f"add({x}) with keys {sorted(x)} to a buffer with keys {sorted(set(self.keys))} "
                          f"answered {out!r}, documented: ValueError")
            if self.malformed:
                # content is compared through the model only; the monitor states "unchanged"
                if len(buf) != n_before:
                    self.viol("dict:reject-changed", f"rejected add changed len from {n_before} to {len(buf)}")
                return
            if after is not None and after != before:
                self.viol("dict:reject-changed", f"rejected add changed the content: {before} -> {after}")
            return
        if out.startswith("err"):
            self.viol(f"add:raised:{out[4:]}", f"add of sample #{sid} raised {out[4:]}")
            return
        if after is None:
            return
        cap = self.cap_now
        if not self.is_rrb:
            self.log.append(sid)
            want = self.log[-cap:] if cap > 0 else []
            if after != want:
                self.viol("seq:not-latest",
                          f"after add #{sid}: holds samples {after}, the most recent {cap} are {want}")
        else:
            if len(after) > cap:
                self.viol("rrb:exceeds-max-size", f"after add #{sid}: {len(after)} samples, max_size {cap}")
            elif len(before) < cap:
                if after != before + [sid]:
                    self.viol("rrb:fill-order", f"not yet full: content {before} became {after} on add #{sid}")
            else:
                diff = [j for j in range(len(before)) if j >= len(after) or after[j] != before[j]]
                if len(after) != len(before) or len(diff) > 1 or any(after[j] != sid for j in diff):
                    self.viol("rrb:more-than-one-slot",
                              f"full buffer {before} became {after} on add #{sid}")
                else:
                    replaced = bool(diff)
                    pe = self.peff
                    if pe is not None and self.fake.calls.count("random") <= 1:
                        if pe == 1 and not replaced:
                            self.viol("rrb:p1-not-always", f"replace_probability 1.0: add #{sid} with draw "
                                      f"random()={float(u)!r} was left out")
                        elif pe == 0 and replaced:
                            self.viol("rrb:p0-not-never", f"replace_probability 0.0: add #{sid} with draw "
                                      f"random()={float(u)!r} replaced slot {diff[0]}")
                        elif 0 < pe < 1 and u != pe and replaced != (u < pe):
                            self.viol("rrb:probability", f"replace_probability {float(pe)!r}, draw "
                                      f"{float(u)!r}: replaced={replaced}")
        self.content = after

    def op_mut(self) -> None:
        """get_data must hand out a copy: mutate what it returned, look again."""
        buf = self.buf
        try:
            a = buf.get_data()
            b = buf.get_data()
        except Exception:
            return
        n = len(buf)
        if a is b:
            self.viol("get:same-object", "two get_data() calls returned the same object")
        if self.is_dict:
            if any(a[k] is b[k] for k in a):
                self.viol("get:same-object", "two get_data() calls share a column list")
            junk = V(99)
            junk.sid = -1
            for k in list(a):
                a[k].append(junk)
                a[k].reverse()
            a["zz9"] = []
            if self.keys:
                del a[sorted(a)[0]]
        else:
            junk = V(99)
            junk.sid = -1
            a.append(junk)
            a.reverse()
            if len(a) > 1:
                del a[0]
        self.trace.append("mut")
        after = self.observe("after mutating the object returned by get_data()")
        if self.blind or after is None:
            return
        if after != self.content or len(buf) != n:
            self.viol("get:not-a-copy", f"mutating the result of get_data() changed the buffer: "
                      f"{self.content} -> {after}")

    def write_pickle(self, obj) -> Path:
        path = tmpdir() / "blob"
        with open(path.with_suffix(".pkl"), "wb") as f:
            pickle.dump(obj, f)
        return path

    def rebaseline(self, tag: str, want_values: list, how: str) -> None:
        """After a load the stored objects are new ones: compare by value with what the contract
        promises, then take the objects now held as the identity baseline."""
        buf = self.buf
        try:
            data = buf.get_data()
        except Exception as e:
            self.both("buf get", "err " + type(e).__name__)
            if not self.malformed:
                self.viol(f"get:raised:{type(e).__name__}", f"{tag}: get_data() raised {e!r}")
            return
        n = len(buf)
        if self.is_dict:
            self.both("buf get", show_columns(data))
        else:
            self.both("buf get", show_content(self.kind, data))
        self.both("buf len", str(n))
        if self.blind:
            self.content = []
            return
        if self.is_dict:
            lens = {k: len(c) for k, c in data.items()}
            if set(data) != set(self.keys) or any(l != n for l in lens.values()):
                self.viol("dict:misaligned-length", f"{tag}: columns {lens}, len {n}")
                return
            rows = [{k: data[k][j] for k in data} for j in range(n)]
            got = [{k: int(v) for k, v in r.items()} for r in rows]
        else:
            rows = list(data)
            got = [int(v) for v in rows]
        if got != want_values or n != len(want_values):
            self.viol(how, f"{tag}: content {got} (len {n}), expected {want_values}")
        self.objs = {}
        self.content = []
        for r in rows:
            sid = self.next_sid
            self.next_sid += 1
            if self.is_dict:
                for v in r.values():
                    v.sid = sid
            else:
                r.sid = sid
            self.objs[sid] = r
            self.content.append(sid)
        self.log = list(self.content)

    def values_of(self, sids: list[int]) -> list:
        out = []
        for s in sids:
            o = self.objs[s]
            out.append({k: int(v) for k, v in o.items()} if self.is_dict else int(o))
        return out

    def op_save_load(self, op) -> None:
        newcap = op[1]
        buf = self.buf
        path = tmpdir() / "state"
        for stale in tmpdir().glob("state*"):
            stale.unlink()
        try:
            buf.save_state(path)
            with open(path.with_suffix(".pkl"), "rb") as f:
                saved = list(pickle.load(f))
            out = show_content(self.kind, saved)
        except Exception as e:
            out = "err " + type(e).__name__
            self.viol(f"save:raised:{type(e).__name__}", f"save_state raised {e!r}")
            self.both("buf save", out)
            return
        self.both("buf save", out)
        old_values = None if self.blind else self.values_of(self.content)
        old_cap = self.cap_now
        nb, reply = self.construct(newcap)
        line = self.ctor_line(newcap)
        if self.model_ok and line is not None:
            self.both(line, reply)
        else:
            self.model_ok = False
        self.trace.append(f"save_load:{'same' if newcap == old_cap else 'smaller' if newcap < old_cap else 'larger'}")
        if nb is None:
            if not self.malformed:
                self.viol(f"ctor:rejects-documented:{reply[4:]}", f"{self.describe(newcap)} raised {reply[4:]}")
            return
        self.buf = nb
        self.cap_now = newcap
        self.peff = self.effective_p(newcap)
        try:
            nb.load_state(path)
            r = "ok"
        except Exception as e:
            r = "err " + type(e).__name__
            self.viol(f"load:raised:{type(e).__name__}", f"load_state raised {e!r}")
        self.both("buf load " + out, r)
        if old_values is None:
            self.rebaseline("after load", [], "load")
            return
        if newcap >= len(old_values):
            want, how = old_values, "load:content-differs"
        elif self.is_rrb:
            want, how = old_values[:newcap], "load:smaller-not-first"
        else:
            want, how = old_values[len(old_values) - newcap:] if newcap > 0 else [], "load:smaller-not-newest"
        self.rebaseline(f"after save_state / load_state into max_size {newcap}", want, how)

    def op_load(self, op) -> None:
        blob = op[1]
        use_deque = len(op) > 2 and op[2] == "deque"
        objs = []
        for x in blob:
            objs.append({k: V(v) for k, v in x.items()} if self.is_dict else V(x))
        path = self.write_pickle(deque(objs) if use_deque else list(objs))
        try:
            self.buf.load_state(path)
            r = "ok"
        except Exception as e:
            r = "err " + type(e).__name__
            if not self.malformed:
                self.viol(f"load:raised:{type(e).__name__}", f"load_state raised {e!r}")
        self.both("buf load " + show_content(self.kind, blob), r)
        self.trace.append("load")
        cap = self.cap_now
        vals = [dict(x) if self.is_dict else x for x in blob]
        if len(vals) <= cap:
            want, how = vals, "load:content-differs"
        elif self.is_rrb:
            want, how = vals[:cap], "load:smaller-not-first"
        else:
            want, how = vals[len(vals) - cap:] if cap > 0 else [], "load:smaller-not-newest"
        self.rebaseline("after load_state of a longer file", want, how)

    # -- main ----------------------------------------------------------------------------------
    def run(self) -> None:
        _, rrb_mod = mods()
        rmod = rrb_mod.random                      # the module object the buffer code draws from
        real = (rmod.random, rmod.randint)
        rmod.random, rmod.randint = self.fake.random, self.fake.randint
        try:
            self.cap_now = self.cap
            if not self.start():
                return
            first = self.observe("after construction")
            if first is not None:
                self.content = first
                if first:
                    self.viol("ctor:not-empty", f"a new buffer holds {len(first)} samples")
            for op in self.case["ops"]:
                k = op[0]
                if k == "add":
                    self.op_add(op)
                elif k == "mut":
                    self.op_mut()
                elif k == "save_load":
                    self.op_save_load(op)
                elif k == "load":
                    self.op_load(op)
                elif k == "get":
                    got = self.observe("get")
                    if got is not None and not self.blind and got != self.content:
                        self.viol("get:changed", f"content changed without an operation: {self.content} -> {got}")
                else:
                    raise ValueError(f"unknown op {k}")
        finally:
            rmod.random, rmod.randint = real


def run_case(case: dict, driver, variant: str = "total=1 strict=1"):
    """Returns (violations, disagreement-or-None, trace)."""
    r = Runner(case, variant)
    r.run()
    if not r.model_ok:
        r.trace.append("monitor-only")
    disagreement = None
    if driver is not None and r.model_ok:
        replies = driver.batch(r.lines)
        for k, (ln, a, b) in enumerate(zip(r.lines, r.impl, replies)):
            if a != b:
                disagreement = Disagreement(
                    "buffer", f"line {k} `{ln[:160]}`: implementation {a[:120]!r}, model {b[:120]!r}", case)
                break
    return r.violations, disagreement, r.trace


# ------------------------------------------------------------------------------------------------
# generators

def float_frac(x: float) -> str:
    return show_frac(F(x))


BOUNDARY_P = [float_frac(0.0), float_frac(5e-324), float_frac(1e-308), float_frac(1.0)]
GRID_P = sorted({show_frac(F(k, 2 ** m)) for m in range(0, 5) for k in range(0, 2 ** m + 1)},
                key=lambda s: F(s))
TINY_P = [show_frac(F(1, 2 ** j)) for j in (10, 20, 52, 60, 62, 63, 64, 70, 100, 500, 1022, 1074)]
NEAR_ONE_P = [float_frac(1.0 - 2.0 ** -53)]
KEYSETS = [["a"], ["a", "b"], ["x", "y", "z"], ["k1", "k2"], []]


def gen_p(rng) -> str | None:
    t = rng.random()
    if t < 0.08:
        return None
    if t < 0.30:
        return rng.choice(BOUNDARY_P)
    if t < 0.40:
        return rng.choice(TINY_P + NEAR_ONE_P)
    return rng.choice(GRID_P)


def gen_cap(rng) -> int:
    t = rng.random()
    if t < 0.5:
        return rng.randint(1, 4)
    if t < 0.85:
        return rng.randint(5, 16)
    return rng.randint(17, 64)


def gen_u(rng, p: F | None) -> str:
    """A draw of random.random(): a double in [0,1), often at or next to the probability."""
    t = rng.random()
    if p is not None and 0 <= p < 1 and t < 0.30:
        pf = float(p)
        c = rng.choice([pf, math.nextafter(pf, 0.0), math.nextafter(pf, 1.0)])
        if 0.0 <= c < 1.0:
            return float_frac(c)
    if t < 0.42:
        return "0"
    if t < 0.50:
        return float_frac(1.0 - 2.0 ** -53)
    m = rng.choice([1, 2, 3, 4, 8, 53])
    return show_frac(F(rng.randrange(0, 2 ** m), 2 ** m))


def gen_value(rng, kind: str, keys: list[str]):
    if kind in ("dseq", "drrb"):
        return {k: rng.randint(-3, 9) for k in keys}
    return rng.randint(-3, 9)


def gen_esl(rng, cap: int) -> int:
    """survival lengths for which max_size / survival_length is a power of two (exact in floats)"""
    j = rng.randint(0, 12)
    if rng.random() < 0.3:
        k = 0
        while cap % (2 ** (k + 1)) == 0:
            k += 1
        return max(1, cap >> rng.randint(0, k))
    return cap << j


def gen_case(rng, kind: str | None = None, max_ops: int = 14) -> dict:
    kind = kind or rng.choice(KINDS)
    cap = gen_cap(rng)
    case: dict = {"kind": kind, "cap": cap, "ops": []}
    keys: list[str] = []
    if kind in ("dseq", "drrb"):
        keys = list(rng.choice(KEYSETS))
        case["keys"] = keys
        case["keys_form"] = rng.choice(["list", "tuple", "set", "generator", "iter", "dict_keys"])
    p = None
    if kind in ("rrb", "drrb"):
        if rng.random() < 0.15:
            case["esl"] = gen_esl(rng, cap)
            if rng.random() < 0.4:
                case["logv"] = show_frac(F(rng.randrange(-8, 64), 8))
        else:
            ps = gen_p(rng)
            if ps is not None:
                case["p"] = ps
                p = F(ps)
            else:
                p = F(1)
    n_ops = rng.randint(1, max_ops)
    # make sure many cases run past the capacity
    n_adds_target = cap + rng.randint(0, 6) if rng.random() < 0.6 else rng.randint(0, 5)
    ops = []
    for _ in range(n_adds_target):
        ops.append(["add", gen_value(rng, kind, keys), gen_u(rng, p), rng.randrange(0, 10 ** 6)])
    for _ in range(n_ops):
        t = rng.random()
        if t < 0.55:
            op = ["add", gen_value(rng, kind, keys), gen_u(rng, p), rng.randrange(0, 10 ** 6)]
        elif t < 0.65:
            op = ["mut"]
        elif t < 0.72:
            op = ["get"]
        elif t < 0.88:
            c = rng.random()
            newcap = cap if c < 0.5 else (rng.randint(1, cap) if c < 0.85 else rng.randint(cap, 64))
            op = ["save_load", newcap]
        else:
            n = rng.randint(0, cap + 4)
            op = ["load", [gen_value(rng, kind, keys) for _ in range(n)]]
            if rng.random() < 0.3:
                op.append("deque")
        ops.insert(rng.randint(0, len(ops)), op)
    case["ops"] = ops
    return case


def note_case(res: SuiteResult, case: dict, trace: list[str]) -> None:
    res.hit("kind:" + case["kind"])
    for t in trace:
        if t.startswith("add:"):
            res.hit("add:" + {"ok": "append", "ok+random": "skip"}.get(
                t[4:], "replace" if t.startswith("add:ok+random+randint") else t[4:]))
        elif t.startswith("ctor:"):
            res.hit(t)
        else:
            res.hit("op:" + t)
    n_add = sum(1 for t in trace if t.startswith("add:ok"))
    past_full = n_add > case["cap"]
    if past_full:
        key = (case["kind"], case["cap"], case.get("p"), case.get("esl"),
               tuple(t for t in trace if not t.startswith("ctor")))
        if res.exhaustive:      # enumerated histories differ in their draws, not in the outcomes
            key += (json.dumps(case["ops"]),)
        res.nontrivial.add(key)


RULE = ("non-trivial = more successful adds than the capacity (an eviction for the sequential "
        "kinds, at least one random draw for the replacement kinds); distinct = by (kind, capacity, "
        "probability, survival length, sequence of operation outcomes)")


def absorb(res: SuiteResult, case: dict, out) -> bool:
    vs, d, tr = out
    res.evaluations += 1
    note_case(res, case, tr)
    res.violations += vs
    if d:
        res.disagreements.append(d)
    return len(res.violations) > 30 or len(res.disagreements) > 30


def suite_exhaustive(ctx: Ctx) -> SuiteResult:
    """Corpus, then every small add history on the two plain kinds."""
    res = SuiteResult("buffer-exhaustive-small", exhaustive=True,
                      rule="corpus; then capacities 1-3 x probabilities {0, 1/2, 1} x every add "
                           "history of length <= capacity+2 with draws u in {0, 1/2, 3/4}, every slot "
                           "index; every constructor on capacities 1-64 x all grid/boundary "
                           "probabilities. " + RULE)
    for c in corpus_cases("C11"):
        if absorb(res, c["case"], run_case(c["case"], ctx.driver)):
            return res
        res.hit("corpus")
    # constructors: every capacity x every probability of the grid and the boundary floats
    for kind in ("rrb", "drrb"):
        for cap in range(1, 65):
            for ps in BOUNDARY_P + TINY_P + NEAR_ONE_P + (GRID_P if cap <= 8 or ctx.tier == "thorough" else GRID_P[::4]):
                case = {"kind": kind, "cap": cap, "p": ps, "ops": []}
                if kind == "drrb":
                    case["keys"] = ["a", "b"]
                if absorb(res, case, run_case(case, ctx.driver)):
                    return res
    for cap in range(1, 65):
        for kind in ("seq", "dseq"):
            case = {"kind": kind, "cap": cap, "keys": ["a"], "ops": []}
            if absorb(res, case, run_case(case, ctx.driver)):
                return res
    us = ["0", "1/2", "3/4"]
    for cap in (1, 2, 3):
        for ps in ("0", "1/2", "1"):
            extra = 2
            for draws in itertools.product(itertools.product(us, range(cap)), repeat=extra):
                ops = [["add", j, "0", 0] for j in range(cap)]
                ops += [["add", cap + j, u, i] for j, (u, i) in enumerate(draws)]
                case = {"kind": "rrb", "cap": cap, "p": ps, "ops": ops}
                if absorb(res, case, run_case(case, ctx.driver)):
                    return res
        ops = [["add", j, "0", 0] for j in range(cap + 2)]
        case = {"kind": "seq", "cap": cap, "ops": ops}
        if absorb(res, case, run_case(case, ctx.driver)):
            return res
    res.sample({"case": case})
    return res


def suite_random(ctx: Ctx) -> SuiteResult:
    res = SuiteResult("buffer-random-sequences",
                      rule="random operation sequences (add / get / mutate-the-result / save+load into "
                           "the same, a smaller or a larger buffer / load of an arbitrary file) on the "
                           "four classes; capacities 1-64; probabilities from the dyadic grid, tiny "
                           "powers of two and the boundary floats 0.0, 5e-324, 1e-308, 1.0, or a "
                           "survival length; draws often equal or adjacent to the probability. " + RULE)
    n = ctx.n(3000, 60000)
    for _ in range(n):
        case = gen_case(ctx.rng)
        out = run_case(case, ctx.driver)
        res.sample({"case": case, "trace": out[2]})
        if absorb(res, case, out):
            break
    return res


BAD_P = ["-1/8", "9/8", "2", "-1", float_frac(1.0 + 2.0 ** -52), float_frac(-5e-324)]


def gen_malformed(rng) -> dict:
    kind = rng.choice(KINDS)
    t = rng.random()
    cap = rng.randint(1, 8)
    case: dict = {"kind": kind, "cap": cap, "ops": [], "malformed": True}
    keys = ["a", "b"]
    if kind in ("dseq", "drrb"):
        keys = list(rng.choice(KEYSETS))
        case["keys"] = keys
        case["keys_form"] = rng.choice(["list", "tuple", "set", "generator", "iter", "dict_keys"])
    if kind in ("rrb", "drrb") and t < 0.45:
        c = rng.random()
        if c < 0.35:
            case["p"] = rng.choice(BAD_P)
        elif c < 0.55:
            case["p"] = rng.choice(GRID_P)
            case["esl"] = rng.randint(1, 40)
        elif c < 0.65:
            case["p_special"] = rng.choice(["nan", "inf", "-inf"])
        elif c < 0.8:
            case["esl"] = rng.choice([0, -1, -cap, -4 * cap])
        else:
            case["cap"] = 0
            if rng.random() < 0.5:
                case["p"] = rng.choice(GRID_P)
    elif kind in ("seq", "dseq") and t < 0.25:
        case["cap"] = rng.choice([0, -1, -3])
    elif kind in ("rrb", "drrb"):
        case["p"] = rng.choice(GRID_P)
    p = pfrac(case.get("p"))
    ops = []
    for _ in range(rng.randint(1, 12)):
        c = rng.random()
        if kind in ("dseq", "drrb") and c < 0.4:
            bad = rng.choice(["missing", "extra", "other", "empty"])
            x = {k: rng.randint(0, 9) for k in keys}
            if bad == "missing" and x:
                del x[rng.choice(sorted(x))]
            elif bad == "extra":
                x["q7"] = 1
            elif bad == "other":
                x = {"w" + k: v for k, v in x.items()} or {"w": 1}
            elif bad == "empty":
                x = {} if keys else {"w": 2}
            ops.append(["add", x, gen_u(rng, p), rng.randrange(0, 1000)])
        elif kind in ("dseq", "drrb") and c < 0.5:
            blob = [{k: rng.randint(0, 9) for k in rng.choice(KEYSETS)} for _ in range(rng.randint(0, 4))]
            ops.append(["load", blob])
        elif c < 0.9:
            ops.append(["add", gen_value(rng, kind, keys), gen_u(rng, p), rng.randrange(0, 1000)])
        else:
            ops.append(["mut"])
    case["ops"] = ops
    return case


def suite_malformed(ctx: Ctx) -> SuiteResult:
    res = SuiteResult("buffer-malformed",
                      rule="invalid probabilities (negative, > 1, nan, inf), both parameters, survival "
                           "length <= 0, capacity 0 / negative, samples with missing / extra / other / "
                           "no keys, files saved from a buffer with other keys; non-trivial = the "
                           "case contains a rejected constructor or a rejected sample; distinct = by "
                           "(kind, outcome sequence)")
    for _ in range(ctx.n(700, 14000)):
        case = gen_malformed(ctx.rng)
        vs, d, tr = run_case(case, ctx.driver)
        res.evaluations += 1
        res.hit("kind:" + case["kind"])
        for t in tr:
            res.hit(t if t.startswith("ctor:") else ("add:" + t[4:] if t.startswith("add:err") else "op:" + t.split(":")[0]))
        if any(t.startswith("ctor:err") or t.startswith("add:err") for t in tr):
            res.nontrivial.add((case["kind"], tuple(tr)))
        res.sample({"case": case, "trace": tr})
        res.violations += vs
        if d:
            res.disagreements.append(d)
        if len(res.violations) > 30 or len(res.disagreements) > 30:
            break
    return res


def search(ctx: Ctx, disagreements, broken):
    """§5: look for a concrete case on which the property fails on the implementation."""
    import random
    out: list[Violation] = []
    for d in disagreements:
        vs, _, _ = run_case(d.case, None)
        out += vs
    if out:
        return out
    rng = random.Random(ctx.seed + 1)
    for _ in range(ctx.n(20000, 200000)):
        case = gen_case(rng, max_ops=20)
        vs, _, _ = run_case(case, None)
        if vs:
            return vs
    return out


def replay(ctx: Ctx, payload: dict) -> SuiteResult:
    res = SuiteResult("replay")
    case = payload.get("case") or payload.get("first_disagreement")
    vs, d, tr = run_case(case, ctx.driver)
    res.evaluations = 1
    res.violations = vs
    if d:
        res.disagreements.append(d)
    print("trace:", tr)
    return res


if __name__ == "__main__":
    import gentie
    setup_repo_path()
    try:
        code = run_check(
            "C11", lean_modules=["Pamiq.Props.C11"],
            required_theorems=[
                "Pamiq.Buffer.seq_is_suffix", "Pamiq.Buffer.seq_len", "Pamiq.Buffer.rrb_len_le",
                "Pamiq.Buffer.rrb_fill_order", "Pamiq.Buffer.rrb_one_slot",
                "Pamiq.Buffer.rrb_p1_always", "Pamiq.Buffer.rrb_p0_never", "Pamiq.Buffer.rrb_subset",
                "Pamiq.Buffer.dict_aligned", "Pamiq.Buffer.dict_reject_unchanged",
                "Pamiq.Buffer.ctor_total", "Pamiq.Buffer.survival_prob_clamped",
                "Pamiq.Buffer.get_is_copy", "Pamiq.Buffer.len_eq", "Pamiq.Buffer.save_load",
                "Pamiq.Buffer.load_into_smaller"],
            suites=[gentie.suite_for("C11"), suite_exhaustive, suite_random, suite_malformed], search=search, replay=replay,
            assumptions=[
                "IEEE-754 rounding is not modelled: probabilities, draws and survival lengths are "
                "chosen so that every float operation of the buffer code is exact (checked with "
                "fractions.Fraction per case; inexact cases run under the monitor only)",
                "math.log(max_size) + gamma enters the model as an input value",
                "aliasing is not expressible in the pure model: that get_data returns a copy is "
                "stated as 'the buffer is unchanged' and checked on the code by mutating the result",
                "pickle round-trips the stored values (trusted; C05 covers persistence)"],
            trusted_extra=["scripted random.random / random.randint (harness/corr/c11.py FakeRandomFns)"],
            level_text="invariants by induction over add/load histories for the four buffer models "
                       "(suffix, one-slot, probability boundaries, subset, alignment, total "
                       "constructor) + correspondence of the model with the buffer classes")
    finally:
        cleanup_tmp()
    sys.exit(code)
