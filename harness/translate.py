"""A small Python -> Lean translator for the *pure decision functions* of pamiq-core (DESIGN §2, second
tie mechanism): functions whose body is a tree of `if` / `return` / local assignments over boolean
connectives, comparisons and + - * / of values read from `self` (attributes, results of argument-less
method calls, module-level clock reads). Every distinct value read becomes a field of an input
structure (each read is an input of its own: two reads of the same event at two instants are two
fields), the body becomes a Lean `def` over core `Bool` / `Rat` / `String`.

The generated definitions are re-created from `$PAMIQ_REPO/src` on every run and tied to the
hand-written models by theorems checked by Lean on the spot (`gentie.py`): a change of the source
function changes the generated definition, and the tie theorem is re-checked against what the code says
now. A function that leaves the supported subset is reported as "static tie unavailable" (the dynamic
correspondence still covers it); it is never guessed at.
"""
from __future__ import annotations

import ast
import hashlib
from dataclasses import dataclass, field
from fractions import Fraction
from pathlib import Path


class Untranslatable(Exception):
    pass


@dataclass
class Gen:
    name: str                      # Lean name of the def
    source: str                    # "<file>:<class>.<function>"
    digest: str                    # sha1 of the function's source text
    fields: list[tuple[str, str]]  # (field name, Lean type) in order of first read
    ret: str                       # Lean return type
    body: str                      # Lean expression
    reads: dict = field(default_factory=dict)   # field name -> Python expression text

    def lean(self, expected: tuple[tuple[str, str], ...] = ()) -> str:
        """`expected`: the inputs the tie theorem supplies; they are fields even if the function no longer
        reads them (then the theorem still elaborates and is judged on its proof)."""
        st = self.name[0].upper() + self.name[1:] + "In"
        have = dict(self.fields)
        for f, t in expected:
            if f not in have:
                self.fields.append((f, t))
        out = [f"/-- generated from `{self.source}` (sha1 {self.digest[:12]}); reads: "
               + "; ".join(f"{k} = `{v}`" for k, v in self.reads.items()) + " -/",
               f"structure {st} where"]
        out += [f"  {f} : {t}" for f, t in self.fields] or ["  unit : Unit := ()"]
        out.append(f"def {self.name} (i : {st}) : {self.ret} :=")
        out.append("  " + self.body)
        return "\n".join(out)


def _chain(e: ast.expr) -> list[str] | None:
    """`self._a.b` -> ["a", "b"]; `_original_time.time` -> ["original_time", "time"]."""
    parts: list[str] = []
    while isinstance(e, ast.Attribute):
        parts.append(e.attr)
        e = e.value
    if isinstance(e, ast.Name):
        if e.id != "self":
            parts.append(e.id)
        return [p.lstrip("_") for p in reversed(parts)]
    return None


class _Tr:
    def __init__(self, fn: ast.FunctionDef, ret: str, enums: set[str], effects: tuple[str, ...] = ()) -> None:
        self.fn, self.ret, self.enums = fn, ret, enums
        self.effects = set(effects)            # side effects the caller declared irrelevant for the *value*
        self.opaque: set[str] = set()          # locals holding an object obtained from a call with arguments
        self.ignored: list[str] = []
        self.value_call: str | None = None     # the function's "value" is the argument of this call (or none)
        self.args = {a.arg for a in fn.args.args[1:]}
        self.fields: dict[str, str] = {}
        self.reads: dict[str, str] = {}
        self.locals: dict[str, str] = {}       # name -> Lean type

    # ---- inputs ------------------------------------------------------------------------------
    def named_input(self, name: str, e: ast.expr, ty: str) -> str:
        if name in self.reads and self.reads[name] != ast.unparse(e):
            raise Untranslatable(f"two different reads would both be called `{name}`")
        old = self.fields.get(name)
        if old is not None and old != ty:
            raise Untranslatable(f"`{ast.unparse(e)}` used both as {old} and as {ty}")
        self.fields[name] = ty
        self.reads[name] = ast.unparse(e)
        return f"i.{name}"

    def inp(self, e: ast.expr, ty: str) -> str:
        target = e.func if isinstance(e, ast.Call) else e
        ch = _chain(target)
        if ch is None or not ch:
            raise Untranslatable(f"unsupported read `{ast.unparse(e)}`")
        # the field is named after what is read (last component), not after the private attribute it is
        # read through: renaming `self._controller` changes nothing here
        name = ch[-1]
        if name in ("if", "then", "else", "fun", "let", "do", "end", "at", "from", "in", "time"):
            name += "_"
        if name in self.reads and self.reads[name] != ast.unparse(e):
            name = "_".join(ch)
            if name in self.reads and self.reads[name] != ast.unparse(e):
                raise Untranslatable(f"two different reads would both be called `{name}`")
        old = self.fields.get(name)
        if old is not None and old != ty:
            raise Untranslatable(f"`{ast.unparse(e)}` used both as {old} and as {ty}")
        self.fields[name] = ty
        self.reads[name] = ast.unparse(e)
        return f"i.{name}"

    # ---- expressions -------------------------------------------------------------------------
    def expr(self, e: ast.expr, ty: str) -> str:
        if isinstance(e, ast.Constant):
            if isinstance(e.value, bool):
                if ty != "Bool":
                    raise Untranslatable("boolean constant in a numeric position")
                return "true" if e.value else "false"
            if isinstance(e.value, (int, float)) and ty == "Rat":
                q = Fraction(str(e.value))
                return f"(({q.numerator} : Rat) / {q.denominator})" if q.denominator != 1 else f"({q.numerator} : Rat)"
            raise Untranslatable(f"constant {e.value!r}")
        if isinstance(e, ast.BoolOp) and ty == "Bool":
            op = " && " if isinstance(e.op, ast.And) else " || "
            return "(" + op.join(self.expr(v, "Bool") for v in e.values) + ")"
        if isinstance(e, ast.UnaryOp) and isinstance(e.op, ast.Not) and ty == "Bool":
            return f"(!{self.expr(e.operand, 'Bool')})"
        if isinstance(e, ast.UnaryOp) and isinstance(e.op, ast.USub) and ty == "Rat":
            return f"(-{self.expr(e.operand, 'Rat')})"
        if isinstance(e, ast.Compare) and ty == "Bool" and len(e.ops) == 1 and \
                isinstance(e.ops[0], (ast.Is, ast.IsNot)) and isinstance(e.comparators[0], ast.Constant) \
                and e.comparators[0].value is None:
            ch = _chain(e.left)
            if not ch:
                raise Untranslatable(f"`{ast.unparse(e)}`")
            v = self.named_input(ch[-1] + "_is_none", e.left, "Bool")
            return v if isinstance(e.ops[0], ast.Is) else f"(!{v})"
        if isinstance(e, ast.Call) and isinstance(e.func, ast.Name) and e.func.id == "len" and len(e.args) == 1 \
                and ty == "Rat":
            a = e.args[0]
            ch = [a.id] if isinstance(a, ast.Name) and a.id in self.opaque else _chain(a)
            if not ch:
                raise Untranslatable(f"`{ast.unparse(e)}`")
            return self.named_input("len_" + ch[-1], e, "Rat")
        if isinstance(e, ast.Call) and isinstance(e.func, ast.Attribute) and isinstance(e.func.value, ast.Name) \
                and e.func.value.id in self.opaque:
            # a query on an object obtained earlier: its result is an input named after the method
            return self.named_input(e.func.attr, e, ty)
        if isinstance(e, ast.Compare) and ty == "Bool" and len(e.ops) == 1:
            ops = {ast.Lt: "<", ast.LtE: "≤", ast.Gt: ">", ast.GtE: "≥", ast.Eq: "==", ast.NotEq: "!="}
            o = ops.get(type(e.ops[0]))
            if o is None:
                raise Untranslatable(f"comparison `{ast.unparse(e)}`")
            a, b = self.expr(e.left, "Rat"), self.expr(e.comparators[0], "Rat")
            return f"({a} {o} {b})" if o in ("==", "!=") else f"decide ({a} {o} {b})"
        if isinstance(e, ast.BinOp) and ty == "Rat":
            ops = {ast.Add: "+", ast.Sub: "-", ast.Mult: "*", ast.Div: "/"}
            o = ops.get(type(e.op))
            if o is None:
                raise Untranslatable(f"operator in `{ast.unparse(e)}`")
            return f"({self.expr(e.left, 'Rat')} {o} {self.expr(e.right, 'Rat')})"
        if isinstance(e, ast.IfExp):
            return (f"(if {self.expr(e.test, 'Bool')} then {self.expr(e.body, ty)} "
                    f"else {self.expr(e.orelse, ty)})")
        if isinstance(e, ast.Name) and e.id in self.args:
            return self.named_input(e.id, e, ty)                      # a parameter of the function
        if isinstance(e, ast.Name):
            if e.id in self.locals:
                if self.locals[e.id] != ty:
                    raise Untranslatable(f"local `{e.id}` used as {ty}")
                return e.id
            raise Untranslatable(f"free name `{e.id}`")
        if isinstance(e, ast.Attribute):
            ch = _chain(e)
            if ty == "String" and ch and len(ch) == 2 and ch[0] in self.enums:
                return f'"{ch[1]}"'
            return self.inp(e, ty)
        if isinstance(e, ast.Call) and not e.args and not e.keywords:
            return self.inp(e, ty)
        raise Untranslatable(f"unsupported expression `{ast.unparse(e)}`")

    # ---- statements (continuation = the statements that follow) --------------------------------
    def stmts(self, body: list[ast.stmt]) -> str:
        if not body:
            if self.value_call is not None:
                return "none"                                         # the call was not reached
            raise Untranslatable("control reaches the end of the function without a return")
        s, rest = body[0], body[1:]
        if self.value_call is not None and isinstance(s, ast.Expr) and isinstance(s.value, ast.Call) and \
                (_chain(s.value.func) or [""])[-1] == self.value_call and len(s.value.args) == 1 and not rest \
                and (_chain(s.value.func) or [""])[0] != "":
            return f"some {self.expr(s.value.args[0], 'Rat')}"
        if isinstance(s, ast.If) and isinstance(s.test, ast.Compare) and isinstance(s.test.left, ast.NamedExpr):
            # `if (x := e) > 0:` - bind first, then test
            ne = s.test.left
            rhs = self.expr(ne.value, "Rat")
            self.locals[ne.target.id] = "Rat"
            test = ast.Compare(left=ast.Name(id=ne.target.id, ctx=ast.Load()), ops=s.test.ops,
                               comparators=s.test.comparators)
            s2 = ast.If(test=test, body=s.body, orelse=s.orelse)
            return f"(let {ne.target.id} : Rat := {rhs}; {self.stmts([s2] + rest)})"
        if isinstance(s, ast.Expr) and isinstance(s.value, ast.Constant) and isinstance(s.value.value, str):
            return self.stmts(rest)                                   # docstring
        if isinstance(s, ast.Expr) and isinstance(s.value, ast.Call):
            ch = _chain(s.value.func) or []
            if any(p in ("logger", "logging") for p in ch):
                return self.stmts(rest)                               # log statements have no value
            if ch and ch[-1] in self.effects:
                self.ignored.append(ast.unparse(s))
                return self.stmts(rest)                               # declared effect, no value
            raise Untranslatable(f"statement with an effect `{ast.unparse(s)}`")
        if isinstance(s, ast.Assign) and len(s.targets) == 1 and isinstance(s.targets[0], ast.Name) and \
                isinstance(s.value, ast.Call) and (s.value.args or s.value.keywords):
            self.opaque.add(s.targets[0].id)                          # an object looked up by name
            self.ignored.append(ast.unparse(s))
            return self.stmts(rest)
        if isinstance(s, ast.If) and not s.orelse and all(
                isinstance(b, ast.Assign) and len(b.targets) == 1 and isinstance(b.targets[0], ast.Attribute)
                and "assign:" + b.targets[0].attr in self.effects for b in s.body):
            self.expr(s.test, "Bool")                                 # the condition must still make sense
            self.ignored.append(ast.unparse(s).replace("\n", " "))
            return self.stmts(rest)                                   # an effect-only branch
        if isinstance(s, ast.With) and len(s.items) == 1 and s.items[0].optional_vars is None and \
                (_chain(s.items[0].context_expr) or [""])[-1] == "lock":
            return self.stmts(list(s.body) + rest)                    # a critical section: transparent for the value
        if isinstance(s, ast.Return):
            if s.value is None and self.value_call is not None:
                return "none"                                         # returned before the call
            if s.value is None:
                raise Untranslatable("bare return")
            return self.expr(s.value, self.ret)
        if isinstance(s, ast.Assign) and len(s.targets) == 1 and isinstance(s.targets[0], ast.Name):
            name = s.targets[0].id
            ty = "Bool" if isinstance(s.value, (ast.BoolOp, ast.Compare)) or \
                (isinstance(s.value, ast.UnaryOp) and isinstance(s.value.op, ast.Not)) else "Rat"
            rhs = self.expr(s.value, ty)
            self.locals[name] = ty
            return f"(let {name} : {ty} := {rhs}; {self.stmts(rest)})"
        if isinstance(s, ast.If):
            c = self.expr(s.test, "Bool")
            saved = dict(self.locals)
            a = self.stmts(list(s.body) + rest)
            self.locals = dict(saved)
            b = self.stmts(list(s.orelse) + rest)
            self.locals = saved
            return f"(if {c} then {a}\n  else {b})"
        raise Untranslatable(f"unsupported statement `{ast.unparse(s).splitlines()[0]}`")


RET = {"bool": "Bool", "float": "Rat", "int": "Rat"}


def translate(repo: Path, rel: str, cls: str, func: str, lean_name: str, enums: tuple[str, ...] = (),
              effects: tuple[str, ...] = (), value_call: str | None = None) -> Gen:
    path = repo / "src" / "pamiq_core" / rel
    try:
        src = path.read_text()
        tree = ast.parse(src)
    except (OSError, SyntaxError) as e:
        raise Untranslatable(f"cannot read {rel}: {e}")
    c = next((n for n in ast.walk(tree) if isinstance(n, ast.ClassDef) and n.name == cls), None)
    fn = next((n for n in (c.body if c else []) if isinstance(n, ast.FunctionDef) and n.name == func), None)
    if fn is None:
        raise Untranslatable(f"{cls}.{func} not found in {rel}")
    ann = ast.unparse(fn.returns) if fn.returns is not None else ""
    ret = RET.get(ann, "String" if ann in enums else None)
    if value_call is not None and ann == "None":
        ret = "Option Rat"
    if ret is None:
        raise Untranslatable(f"return annotation `{ann}` of {cls}.{func}")
    if fn.args.vararg or fn.args.kwarg or fn.args.kwonlyargs:
        raise Untranslatable(f"{cls}.{func} takes variadic arguments")
    tr = _Tr(fn, ret, set(enums), effects)
    tr.value_call = value_call
    body = tr.stmts(list(fn.body))
    text = ast.get_source_segment(src, fn) or ""
    return Gen(lean_name, f"{rel}:{cls}.{func}", hashlib.sha1(text.encode()).hexdigest(),
               list(tr.fields.items()), ret, body, tr.reads)
