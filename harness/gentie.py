"""Second tie mechanism (DESIGN §2): pure decision functions of the source are *translated* to Lean on
every run (`translate.py`) and proved equal to the corresponding definitions of the hand-written models
- for all inputs, by Lean, on the spot (`lake env lean <generated file>`; nothing is written into the
lake workspace, so concurrent checks do not interfere).

  function (source)                                         model definition it is proved equal to
  SystemStatusProvider.get_current_status (C17, C01)        WebQ.statusOf  (one instant: pause = not resume)
  TrainingModel._need_sync (C14)                            Models.Model.needSync
  TimeController.time / perf_counter / monotonic (C06)      Clock.Ctl.read
  TimeIntervalScheduler.is_available (C15)                  Sched.TSched.due
  StepIntervalScheduler.is_available (C15)                  Sched.SSched.due
  ControlThread.is_max_uptime_reached (C08)                 Bookkeep.uptimeReached
  ThreadController.is_pause / is_active (C17, C02)          negation of the resume / shutdown event
  EnvStep.done (C20)                                        terminated || truncated
  Trainer.is_trainable (C13; effects declared)              the decision of Trainer.Tr.isTrainable
  SleepIntervalAdjustor.adjust_impl (C16)                   the sleep argument of Adjust.Adj.adjust
  TimeController.sleep (C06, C16)                           Clock.sleepReal
  RandomReplacementBuffer.is_full (C11)                     Buffer.Rrb.isFull

Outcome per function: `tied` (the theorem checks), `unavailable` (the function left the translatable
subset or renamed what it reads: no claim, the dynamic correspondence still covers it), or a
*disagreement* (the function translates, reads the same things, and is no longer equal to the model:
the proof fails - the check then searches for a failing input as for any broken tie).
"""
from __future__ import annotations

import os
import re
import subprocess
import sys
import tempfile
from pathlib import Path

sys.path.insert(0, str(Path(__file__).resolve().parent))
import translate as T
from framework import LEAN_DIR, Ctx, Disagreement, SuiteResult

PREAMBLE = """import Pamiq.Model.WebQ
import Pamiq.Model.Models
import Pamiq.Model.Clock
import Pamiq.Model.Sched
import Pamiq.Model.Bookkeep
import Pamiq.Model.Trainer
import Pamiq.Model.Adjust
import Pamiq.Model.Buffer
namespace Pamiq.Gen
open Pamiq
"""

STATUS_NAME = """def statusName : WebQ.Status → String
  | .active => "ACTIVE" | .pausing => "PAUSING" | .paused => "PAUSED" | .resuming => "RESUMING"
  | .shuttingDown => "SHUTTING_DOWN"
"""

# side effects of a function that do not enter its value (declared, so that nothing is dropped silently)
EFFECTS = {"isTrainable": ("update", "assign:_previous_training_time")}

# functions whose "value" is the argument of one call they may make
VALUE_CALL = {"adjustImpl": "sleep", "clockSleep": "sleep"}

EXPECTED = {
    "getCurrentStatus": (("is_shutdown","Bool"),("is_pause","Bool"),("is_resume","Bool"),("check_all_threads_paused","Bool"),("check_any_threads_paused","Bool")),
    "needSync": (("has_inference_model","Bool"),("inference_thread_only","Bool")),
    "clockTime": (("is_paused","Bool"),("scaled_anchor_time","Rat"),("time_","Rat"),("anchor_time","Rat"),("time_scale","Rat")),
    "clockPerfCounter": (("is_paused","Bool"),("scaled_anchor_perf_counter","Rat"),("perf_counter","Rat"),("anchor_perf_counter","Rat"),("time_scale","Rat")),
    "clockMonotonic": (("is_paused","Bool"),("scaled_anchor_monotonic","Rat"),("monotonic","Rat"),("anchor_monotonic","Rat"),("time_scale","Rat")),
    "timeIntervalAvailable": (("time_","Rat"),("previous_available_time","Rat"),("interval","Rat")),
    "stepIntervalAvailable": (("steps_since_last_call","Rat"),("interval","Rat")),
    "maxUptimeReached": (("time_","Rat"),("system_start_time","Rat"),("max_uptime","Rat")),
    "controllerIsPause": (("is_resume","Bool"),),
    "controllerIsActive": (("is_shutdown","Bool"),),
    "envStepDone": (("terminated","Bool"),("truncated","Bool")),
    "clockSleep": (("is_paused","Bool"),("time_scale","Rat"),("secs","Rat")),
    "rrbIsFull": (("current_size","Rat"),("max_size","Rat")),
    "adjustImpl": (("last_reset_time","Rat"),("time_to_wait","Rat"),("perf_counter","Rat")),
    "isTrainable": (("training_condition_data_user_is_none","Bool"),("len_data_user","Rat"),("min_buffer_size","Rat"),("count_data_added_since","Rat"),("min_new_data_count","Rat")),
}

# (property ids, source, class, function, lean name, enums, extra defs, theorem text)
SPECS = [
    (("C17", "C01"), "console/system_status.py", "SystemStatusProvider", "get_current_status", "getCurrentStatus",
     ("SystemStatus",), STATUS_NAME,
     """/-- The status function of the source, applied to one instant (`is_pause() = not is_resume()`), is the
decision table of the model - for every number of threads and every combination of flags. -/
theorem getCurrentStatus_is_table (sd rs : Bool) (flags : List Bool) :
    getCurrentStatus { is_shutdown := sd, is_pause := !rs, is_resume := rs,
                       check_all_threads_paused := flags.all id,
                       check_any_threads_paused := flags.any id } =
      statusName (WebQ.statusOf sd rs flags) := by
  unfold getCurrentStatus WebQ.statusOf statusName
  cases sd <;> cases rs <;> cases (flags.all id) <;> cases (flags.any id) <;> rfl
"""),
    (("C14",), "model/interface.py", "TrainingModel", "_need_sync", "needSync", (), "",
     """theorem needSync_is_model (m : Models.Model) :
    needSync { has_inference_model := m.hasInf, inference_thread_only := m.infOnly } = m.needSync := by
  unfold needSync Models.Model.needSync
  cases m.hasInf <;> cases m.infOnly <;> rfl
"""),
    (("C06",), "time.py", "TimeController", "time", "clockTime", (), "",
     """theorem clockTime_is_model (c : Clock.Ctl) (r : Rat) :
    clockTime { is_paused := c.paused, scaled_anchor_time := c.t.sAnchor, time_ := r,
                anchor_time := c.t.anchor, time_scale := c.scale } = c.read .time r := by
  unfold clockTime Clock.Ctl.read Clock.Chan.value Clock.Ctl.chan
  cases c.paused <;> rfl
"""),
    (("C06",), "time.py", "TimeController", "perf_counter", "clockPerfCounter", (), "",
     """theorem clockPerfCounter_is_model (c : Clock.Ctl) (r : Rat) :
    clockPerfCounter { is_paused := c.paused, scaled_anchor_perf_counter := c.p.sAnchor,
                       perf_counter := r, anchor_perf_counter := c.p.anchor,
                       time_scale := c.scale } = c.read .perf r := by
  unfold clockPerfCounter Clock.Ctl.read Clock.Chan.value Clock.Ctl.chan
  cases c.paused <;> rfl
"""),
    (("C06",), "time.py", "TimeController", "monotonic", "clockMonotonic", (), "",
     """theorem clockMonotonic_is_model (c : Clock.Ctl) (r : Rat) :
    clockMonotonic { is_paused := c.paused, scaled_anchor_monotonic := c.m.sAnchor,
                     monotonic := r, anchor_monotonic := c.m.anchor,
                     time_scale := c.scale } = c.read .mono r := by
  unfold clockMonotonic Clock.Ctl.read Clock.Chan.value Clock.Ctl.chan
  cases c.paused <;> rfl
"""),
    (("C15",), "utils/schedulers.py", "TimeIntervalScheduler", "is_available", "timeIntervalAvailable", (), "",
     """theorem timeIntervalAvailable_is_model (s : Sched.TSched) (r : Rat) :
    timeIntervalAvailable { time_ := r, previous_available_time := s.prev, interval := s.interval } =
      s.due r := rfl
"""),
    (("C15",), "utils/schedulers.py", "StepIntervalScheduler", "is_available", "stepIntervalAvailable", (), "",
     """theorem stepIntervalAvailable_is_model (s : Sched.SSched) :
    stepIntervalAvailable { steps_since_last_call := (s.steps : Rat), interval := (s.interval : Rat) } =
      s.due := by
  unfold stepIntervalAvailable Sched.SSched.due
  simp only [ge_iff_le, Rat.natCast_le_natCast]
"""),
    (("C08",), "thread/threads/control.py", "ControlThread", "is_max_uptime_reached", "maxUptimeReached", (), "",
     """/-- With the system clock at `start + scale * e` (C06: `e` un-paused real seconds after the start at time
scale `scale`) the uptime test of the source is the model's. -/
theorem maxUptimeReached_is_model (scale limit e start : Rat) :
    maxUptimeReached { time_ := start + scale * e, system_start_time := start, max_uptime := limit } =
      Bookkeep.uptimeReached scale limit e := by
  unfold maxUptimeReached Bookkeep.uptimeReached
  have h : start + scale * e - start = scale * e := by
    rw [Rat.add_comm, Rat.add_sub_cancel]
  simp only [h]
"""),
    (("C17", "C01"), "thread/thread_control.py", "ThreadController", "is_pause", "controllerIsPause", (), "",
     """/-- "paused" is read off the resume event (what `getCurrentStatus_is_table` assumes of one instant). -/
theorem controllerIsPause_is_not_resume (r : Bool) : controllerIsPause { is_resume := r } = !r := rfl
"""),
    (("C02",), "thread/thread_control.py", "ThreadController", "is_active", "controllerIsActive", (), "",
     """/-- The loop guard's activity flag is the negation of the shutdown event (`Proto.bReadShutdown`). -/
theorem controllerIsActive_is_not_shutdown (sd : Bool) : controllerIsActive { is_shutdown := sd } = !sd := rfl
"""),
    (("C13",), "trainer/base.py", "Trainer", "is_trainable", "isTrainable", (), "",
     """/-- The trainability decision of the source (ignoring its declared effects: the hand-over `update()` and the
marker assignment) is the model's: both thresholds with `>=`, an unconditioned trainer always trainable. -/
theorem isTrainable_is_model (len cnt : Nat) (ms mn : Int) :
    isTrainable { training_condition_data_user_is_none := false, len_data_user := ((len : Int) : Rat), min_buffer_size := (ms : Rat), count_data_added_since := ((cnt : Int) : Rat), min_new_data_count := (mn : Rat) } =
      (decide ((len : Int) ≥ ms) && decide ((cnt : Int) ≥ mn)) := by
  unfold isTrainable
  simp only [Bool.false_eq_true, if_false, ge_iff_le, Rat.intCast_le_intCast]

theorem isTrainable_unconditioned (a b c d : Rat) :
    isTrainable { training_condition_data_user_is_none := true, len_data_user := a, min_buffer_size := b, count_data_added_since := c, min_new_data_count := d } = true := rfl

/-- ... which is the decision `Trainer.Tr.isTrainable` takes on the updated data user. -/
theorem isTrainable_decision (t : Trainer.Tr) (us : Trainer.Users) (now : Rat) (k : String) (u : Trainer.DataUser)
    (d : Trainer.Decision) (hc : t.cond = some k) (hu : us.get k = some u) (h : t.isTrainable us now = .ok d) :
    d.trainable = isTrainable { training_condition_data_user_is_none := false, len_data_user := ((u.update.len : Int) : Rat), min_buffer_size := (t.minSize : Rat), count_data_added_since := ((Trainer.countSince u.update.ts t.prev : Int) : Rat), min_new_data_count := (t.minNew : Rat) } := by
  rw [isTrainable_is_model]
  unfold Trainer.Tr.isTrainable at h
  simp only [hc, hu] at h
  split at h <;> (cases h; simp_all)
"""),
    (("C06", "C16"), "time.py", "TimeController", "sleep", "clockSleep", (), "",
     """/-- `sleep(secs)` hands `secs / scale` to the stdlib sleep, nothing at all while paused (`sleep_len`). -/
theorem clockSleep_is_model (c : Clock.Ctl) (secs : Rat) :
    clockSleep { is_paused := c.paused, time_scale := c.scale, secs := secs } = Clock.sleepReal c secs := by
  unfold clockSleep Clock.sleepReal
  cases c.paused <;> rfl
"""),
    (("C16",), "interaction/interval_adjustors.py", "SleepIntervalAdjustor", "adjust_impl", "adjustImpl", (), "",
     """/-- What `adjust_impl` hands to `time.sleep` (nothing when the interval is already over) is the model's:
the remaining part of `last reset + (interval - offset)`, measured on the system perf-counter. -/
theorem adjustImpl_is_model (a : Adjust.Adj) (t : Adjust.Tl) (env : Adjust.AdjEnv) (l : Rat) (h : a.last = some l) :
    adjustImpl { last_reset_time := l, time_to_wait := a.timeToWait, perf_counter := t.sys } = (a.adjust t env).slept := by
  unfold adjustImpl Adjust.Adj.adjust
  simp only [h, gt_iff_lt, decide_eq_true_eq]
  split <;> rfl
"""),
    (("C11",), "data/impls/random_replacement_buffer.py", "RandomReplacementBuffer", "is_full", "rrbIsFull", (), "",
     """/-- "Full" is `current_size >= max_size` (the test that switches `add` from filling to replacing). -/
theorem rrbIsFull_is_model (b : Buffer.Rrb Nat) :
    rrbIsFull { current_size := (b.size : Rat), max_size := (b.maxSize : Rat) } = b.isFull := by
  unfold rrbIsFull Buffer.Rrb.isFull
  simp only [ge_iff_le, Rat.natCast_le_natCast]
"""),
    (("C20",), "gym/types.py", "EnvStep", "done", "envStepDone", (), "",
     """/-- An episode has ended iff the step was terminated or truncated (the test of `Gym.affect`). -/
theorem envStepDone_is_or (t u : Bool) : envStepDone { terminated := t, truncated := u } = (t || u) := by
  unfold envStepDone
  cases t <;> cases u <;> rfl
"""),
]


CLASS_METHODS = ["time", "perf_counter", "monotonic", "_update_anchor_values", "_update_scaled_anchor_values",
                 "set_time_scale", "pause", "resume", "state_dict", "load_state_dict", "is_paused", "get_time_scale"]

CLASS_TIE = r'''/-- The generated state record of a model state. -/
def ofCtl (c : Clock.Ctl) : TC :=
  { anchor_time := c.t.anchor, anchor_perf_counter := c.p.anchor, anchor_monotonic := c.m.anchor, scaled_anchor_time := c.t.sAnchor, scaled_anchor_perf_counter := c.p.sAnchor, scaled_anchor_monotonic := c.m.sAnchor, time_scale := c.scale, is_paused := c.paused }

def l3 (r : Clock.R3) : List Rat := [r.t, r.p, r.m]

macro "tc_simp" : tactic => `(tactic|
  simp [time_, perf_counter, monotonic, update_anchor_values, update_scaled_anchor_values, set_time_scale, pause,
    resume, state_dict, load_state_dict, is_paused, get_time_scale, getS, modifyS, rd, ofCtl, l3,
    Clock.pause, Clock.resume, Clock.setScale, Clock.stateDict, Clock.loadStateDict, Clock.updScaled,
    Clock.updAnchors, Clock.Ctl.read, Clock.Chan.value, Clock.Ctl.chan, Clock.Ctl.saved, StateT.run, bind,
    StateT.bind, get, getThe, MonadStateOf.get, StateT.get, pure, StateT.pure, set, StateT.set, modify, modifyGet,
    MonadStateOf.modifyGet, StateT.modifyGet, failure, StateT.failure, Alternative.failure, *])

theorem time_is_model (c : Clock.Ctl) (r : Rat) (rest : List Rat) :
    time_.run (ofCtl c, r :: rest) = some (c.read .time r, (ofCtl c, if c.paused then r :: rest else rest)) := by
  cases hp : c.paused <;> tc_simp

theorem perf_counter_is_model (c : Clock.Ctl) (r : Rat) (rest : List Rat) :
    perf_counter.run (ofCtl c, r :: rest) = some (c.read .perf r, (ofCtl c, if c.paused then r :: rest else rest)) := by
  cases hp : c.paused <;> tc_simp

theorem monotonic_is_model (c : Clock.Ctl) (r : Rat) (rest : List Rat) :
    monotonic.run (ofCtl c, r :: rest) = some (c.read .mono r, (ofCtl c, if c.paused then r :: rest else rest)) := by
  cases hp : c.paused <;> tc_simp

theorem pause_is_model (c : Clock.Ctl) (r : Clock.R3) :
    pause.run (ofCtl c, l3 r) = some ((), (ofCtl (Clock.pause c r), if c.paused then l3 r else [])) := by
  cases hp : c.paused <;> tc_simp

theorem resume_is_model (c : Clock.Ctl) (r : Clock.R3) :
    resume.run (ofCtl c, l3 r) = some ((), (ofCtl (Clock.resume c r), if c.paused then [] else l3 r)) := by
  cases hp : c.paused <;> tc_simp

theorem set_time_scale_is_model (c : Clock.Ctl) (k : Rat) (r1 r2 : Clock.R3) :
    ((set_time_scale k).run (ofCtl c, if c.paused then l3 r2 else l3 r1 ++ l3 r2)).map (·.2.1) =
      (match Clock.setScale c k r1 r2 with | .ok c' => some (ofCtl c') | .error _ => none) := by
  by_cases hk : 0 < k <;> cases hp : c.paused <;> tc_simp

theorem state_dict_is_model (c : Clock.Ctl) (r1 r2 : Clock.R3) :
    state_dict.run (ofCtl c, if c.paused then l3 r2 else l3 r1 ++ l3 r2) =
      some (((Clock.stateDict true c r1 r2).2.t, (Clock.stateDict true c r1 r2).2.m, (Clock.stateDict true c r1 r2).2.p),
            (ofCtl (Clock.stateDict true c r1 r2).1, [])) := by
  cases hp : c.paused <;> tc_simp

theorem load_state_dict_is_model (c : Clock.Ctl) (d : Clock.Saved) (r : Clock.R3) :
    (load_state_dict d.t d.m d.p).run (ofCtl c, l3 r) = some ((), (ofCtl (Clock.loadStateDict c d r), [])) := by
  tc_simp

'''


CTL_METHODS = ["resume", "pause", "shutdown", "activate", "is_resume", "is_pause", "is_shutdown", "is_active"]

CTL_TIE = r'''/-- The controller's two events as the protocol model holds them. -/
def ofProto (s : Proto.St) : TC := { shutdown_event := s.shutdown, resume_event := s.resume }

macro "ctl_simp" : tactic => `(tactic|
  simp [resume, pause, shutdown, activate, is_resume, is_pause, is_shutdown, is_active, getS, modifyS, ofProto,
    Proto.run, Proto.step, Proto.cstep, Proto.Act.thread, Proto.notifyAll, StateT.run, bind, StateT.bind, get, getThe,
    MonadStateOf.get, StateT.get, pure, StateT.pure, set, StateT.set, modify, modifyGet, MonadStateOf.modifyGet,
    StateT.modifyGet, failure, StateT.failure, Alternative.failure, *])

/-- **`shutdown()` sets the resume event before the shutdown event, and does nothing the second time** - the
order `Proto` gives the control thread (`cSetResume` at `sdSet`, then `cSetShutdown`), which is what
`shutdown_wakes` (a thread blocked in a pause is always woken by a shutdown) rests on. -/
theorem shutdown_is_proto (s : Proto.St) (hpc : s.ctl.pc = .sdSet) (hsd : s.shutdown = false) :
    ∃ s', Proto.run s [.cSetResume, .cSetShutdown] = some s' ∧
      (shutdown.run (ofProto s, [])).map (fun r => (r.2.1.resume_event, r.2.1.shutdown_event, r.2.1.log)) =
        some (s'.resume, s'.shutdown, ["set resume_event", "set shutdown_event"]) := by
  refine ⟨_, by simp [Proto.run, Proto.step, Proto.cstep, Proto.Act.thread, hpc]; rfl, ?_⟩
  ctl_simp

theorem shutdown_twice_is_noop (st : TC) (h : st.shutdown_event = true) :
    shutdown.run (st, []) = some ((), (st, [])) := by
  ctl_simp

/-- **`pause()` refuses after shutdown and clears the resume event under the resume lock** (`cAcquire`,
`cClearResume`, `cRelease` of `Proto`; `no_pause_after_shutdown`). -/
theorem pause_is_proto (s : Proto.St) (hpc : s.ctl.pc = .tpLock) (hh : s.ctl.holds = false)
    (hall : s.thr.all (fun x => !x.holds) = true) (hsd : s.shutdown = false) :
    ∃ s', Proto.run s [.cAcquire, .cClearResume, .cRelease] = some s' ∧
      (pause.run (ofProto s, [])).map (fun r => (r.2.1.resume_event, r.2.1.shutdown_event, r.2.1.log)) =
        some (s'.resume, s'.shutdown, ["acquire resume_lock", "clear resume_event", "release resume_lock"]) := by
  refine ⟨_, by simp [Proto.run, Proto.step, Proto.cstep, Proto.Act.thread, hpc, hh, hall]; rfl, ?_⟩
  ctl_simp

theorem pause_refused_after_shutdown (st : TC) (h : st.shutdown_event = true) : pause.run (st, []) = none := by
  ctl_simp

theorem resume_sets_event (st : TC) (h : st.shutdown_event = false) :
    (resume.run (st, [])).map (fun r => (r.2.1.resume_event, r.2.1.shutdown_event)) = some (true, false) := by
  ctl_simp

theorem resume_refused_after_shutdown (st : TC) (h : st.shutdown_event = true) : resume.run (st, []) = none := by
  ctl_simp

'''


def generate_ctl(repo: Path) -> str:
    """`ThreadController` (two events, one lock) as a Lean state machine that logs its primitive writes, and the
    theorems tying `shutdown` / `pause` / `resume` to the control actions of `Pamiq.Proto`."""
    import translate_class as TCm
    c = TCm.ClassTr(repo, "thread/thread_control.py", "ThreadController", skip_fields=())
    c.log_writes = True
    return ("import Pamiq.Model.Proto\nnamespace Pamiq.GenCtl\nopen Pamiq\n\n" + c.generate(CTL_METHODS) + "\n"
            + CTL_TIE + "\nend Pamiq.GenCtl\n")


STATUS_TIE = r'''/-- The two flags of a background thread as the protocol model holds them. -/
def ofThread (th : Proto.BThread) : TC := { paused_event := th.pausedFlag, exception_event := th.excFlag }

macro "st_simp" : tactic => `(tactic|
  simp [pause, resume, exception_raised, is_pause, is_resume, is_exception_raised, getS, modifyS, ofThread,
    StateT.run, bind, StateT.bind, get, getThe, MonadStateOf.get, StateT.get, pure, StateT.pure, set, StateT.set, modify,
    modifyGet, MonadStateOf.modifyGet, StateT.modifyGet, *])

/-- **`ThreadStatus.pause()` sets the paused flag and nothing else** - the write of `bSetPaused`; `resume()` clears it
(`bClearPaused`); `exception_raised()` sets the exception flag and leaves the paused flag alone (`bSetExc`). -/
theorem pause_sets_flag (st : TC) :
    (pause.run (st, [])).map (fun r => (r.2.1.paused_event, r.2.1.exception_event, r.2.1.log)) =
      some (true, st.exception_event, st.log ++ ["set paused_event"]) := by
  st_simp

theorem resume_clears_flag (st : TC) :
    (resume.run (st, [])).map (fun r => (r.2.1.paused_event, r.2.1.exception_event, r.2.1.log)) =
      some (false, st.exception_event, st.log ++ ["clear paused_event"]) := by
  st_simp

theorem exception_raised_sets_flag (st : TC) :
    (exception_raised.run (st, [])).map (fun r => (r.2.1.paused_event, r.2.1.exception_event, r.2.1.log)) =
      some (st.paused_event, true, st.log ++ ["set exception_event"]) := by
  st_simp

/-- the reads are reads: the flags as they are, nothing written -/
theorem reads_are_pure (st : TC) :
    is_pause.run (st, []) = some (st.paused_event, (st, [])) ∧
    is_resume.run (st, []) = some (!st.paused_event, (st, [])) ∧
    is_exception_raised.run (st, []) = some (st.exception_event, (st, [])) := by
  refine ⟨?_, ?_, ?_⟩ <;> st_simp

'''


def generate_status(repo: Path) -> str:
    """`ThreadStatus` (the paused flag and the exception flag of a background thread) as a Lean state machine that logs
    its writes, tied to the flag writes of `Pamiq.Proto`."""
    import translate_class as TCm
    c = TCm.ClassTr(repo, "thread/thread_control.py", "ThreadStatus", skip_fields=())
    c.log_writes = True
    return ("import Pamiq.Model.Proto\nset_option linter.unusedSimpArgs false\nnamespace Pamiq.GenStatus\nopen Pamiq\n\n"
            + c.generate(["pause", "resume", "exception_raised", "is_pause", "is_resume", "is_exception_raised"]) + "\n"
            + STATUS_TIE + "\nend Pamiq.GenStatus\n")


ADJ_TIE = r'''/-- the adjustor's fields as the model holds them (a reference of `-inf` is `none` there: any number will do here) -/
def ofAdj (a : Adjust.Adj) : TC :=
  { interval := a.interval, offset := a.offset, time_to_wait := a.timeToWait, last_reset_time := a.last.getD 0 }

/-- **`IntervalAdjustor.reset()` is one reading of the system clock, stored as the new reference and returned -
whatever the reference was before** (also a later instant): `Adjust.Adj.reset`, `reset_forgets`, `reset_after_load`. -/
theorem reset_is_model (a : Adjust.Adj) (t : Adjust.Tl) (rest : List Rat) :
    (reset.run (ofAdj a, t.sys :: rest)).map (fun x => (x.1, x.2.1.last_reset_time, x.2.1.time_to_wait, x.2.2)) =
      some ((a.reset t).2, t.sys, a.timeToWait, rest) ∧ (a.reset t).1.last = some t.sys := by
  constructor
  · simp [reset, rd, getS, modifyS, ofAdj, Adjust.Adj.reset, StateT.run, bind, StateT.bind, get, getThe, MonadStateOf.get,
      StateT.get, pure, StateT.pure, set, StateT.set, modify, modifyGet, MonadStateOf.modifyGet, StateT.modifyGet]
  · rfl

'''


def generate_adjustor(repo: Path) -> str:
    """`IntervalAdjustor.reset` as a Lean action over the adjustor's fields, tied to `Pamiq.Adjust.Adj.reset`."""
    import translate_class as TCm
    c = TCm.ClassTr(repo, "interaction/interval_adjustors.py", "IntervalAdjustor", skip_fields=(),
                    extra_fields=[("last_reset_time", "Rat")])
    return ("import Pamiq.Model.Adjust\nset_option linter.unusedSimpArgs false\nnamespace Pamiq.GenAdj\nopen Pamiq\n\n"
            + c.generate(["reset"]) + "\n" + ADJ_TIE + "\nend Pamiq.GenAdj\n")


TSCHED_TIE = r'''def ofSched (s : Sched.TSched) : TC := { interval := s.interval, previous_available_time := s.prev }

/-- **`update()` decides once**: the callbacks run and the interval restarts iff the *first* reading is more than
the interval after the previous firing; the restart takes a second reading; nothing else is read - the repaired
form of finding F7 (`Sched.TSched.update true`). -/
theorem update_is_model (s : Sched.TSched) (r1 r2 r3 : Rat) :
    (update.run (ofSched s, [r1, r2])).map (fun x => (x.2.1.previous_available_time, x.2.1.interval, x.2.1.log, x.2.2.length)) =
      some ((s.update true r1 r2 r3).st.prev, (s.update true r1 r2 r3).st.interval,
            (if (s.update true r1 r2 r3).fired then ["run callbacks"] else []), 2 - (s.update true r1 r2 r3).reads) := by
  by_cases h : s.due r1 = true <;>
    simp_all [update, is_available, getS, modifyS, rd, ofSched, Sched.TSched.update, Sched.TSched.due, StateT.run, bind, StateT.bind,
      get, getThe, MonadStateOf.get, StateT.get, pure, StateT.pure, set, StateT.set, modify, modifyGet,
      MonadStateOf.modifyGet, StateT.modifyGet, failure, StateT.failure, Alternative.failure]
'''

SSCHED_TIE = r'''def ofSched (s : Sched.SSched) : TC := { interval := (s.interval : Rat), steps_since_last_call := (s.steps : Rat) }

/-- **The step scheduler counts the update, runs the callbacks when the interval is reached and then starts
counting again** (`Sched.SSched.update`). -/
theorem update_is_model (s : Sched.SSched) :
    (update.run (ofSched s, [])).map (fun x => (x.2.1.steps_since_last_call, x.2.1.interval, x.2.1.log)) =
      some (((s.update.st.steps : Nat) : Rat), ((s.update.st.interval : Nat) : Rat),
            (if s.update.fired then ["run callbacks"] else [])) := by
  have hc : ((s.steps : Rat) + 1 ≥ (s.interval : Rat)) ↔ (s.steps + 1 ≥ s.interval) := by
    rw [ge_iff_le, ge_iff_le, ← Rat.natCast_le_natCast]; simp
  by_cases h : s.steps + 1 ≥ s.interval
  · simp_all [update, super_update, is_available, getS, modifyS, ofSched, Sched.SSched.update, Sched.SSched.due, StateT.run,
      bind, StateT.bind, get, getThe, MonadStateOf.get, StateT.get, pure, StateT.pure, set, StateT.set, modify,
      modifyGet, MonadStateOf.modifyGet, StateT.modifyGet]
  · have h' : ¬ (s.interval ≤ s.steps + 1) := h
    simp_all [update, super_update, is_available, getS, modifyS, ofSched, Sched.SSched.update, Sched.SSched.due, StateT.run,
      bind, StateT.bind, get, getThe, MonadStateOf.get, StateT.get, pure, StateT.pure, set, StateT.set, modify,
      modifyGet, MonadStateOf.modifyGet, StateT.modifyGet]
    have hn : ¬ (s.interval ≤ s.steps + 1) := by omega
    simp [hn]
'''


def generate_tsched(repo: Path) -> str:
    import translate_class as TCm
    c = TCm.ClassTr(repo, "utils/schedulers.py", "TimeIntervalScheduler", skip_fields=())
    c.log_writes = True
    return ("import Pamiq.Model.Sched\nnamespace Pamiq.GenTSched\nopen Pamiq\n\n" + c.generate(["is_available", "update"])
            + "\n" + TSCHED_TIE + "\nend Pamiq.GenTSched\n")


def generate_ssched(repo: Path) -> str:
    import translate_class as TCm
    c = TCm.ClassTr(repo, "utils/schedulers.py", "StepIntervalScheduler", skip_fields=())
    c.log_writes = True
    return ("import Pamiq.Model.Sched\nnamespace Pamiq.GenSSched\nopen Pamiq\n\n" + c.generate(["is_available", "update"])
            + "\n" + SSCHED_TIE + "\nend Pamiq.GenSSched\n")


TIES_DIR = Path(__file__).resolve().parent / "ties"


def generate_control_tick(repo: Path) -> str:
    """`ControlThread.on_tick` / `process_received_web_api_commands` / `shutdown` (its calls of `save_state`, `try_pause`
    and `resume` one log entry each) as Lean actions that log the calls they make, tied to `Pamiq.Tick.tick`."""
    import translate_skel as S
    t = S.SkelTr(repo, S.CONTROL_SPEC, opaque=("save_state", "try_pause", "resume"))
    gen = t.generate(["on_tick", "on_finally", "is_running"])
    body = (TIES_DIR / "control_tick.lean").read_text().replace("--%GEN%\n", gen)
    body = body.replace("--%GEN_MON%\n", S.SkelTr(repo, S.MONITOR_SPEC).generate(["check_exception_raised"]))
    return ("import Pamiq.Model.Tick\nset_option linter.unusedVariables false\nset_option linter.unusedSimpArgs false\n"
            "namespace Pamiq.GenCT\nopen Pamiq\n\n" + S.PRELUDE + "\n" + body + "\nend Pamiq.GenCT\n")


def generate_control_proto(repo: Path) -> str:
    """`try_pause`, `resume`, `shutdown`, `save_state`, `on_finally` with every call interpreted as the control actions of
    `Pamiq.Proto` it stands for (`Model/ProtoCtl.lean`): the translated methods never leave the control graph."""
    import translate_skel as S
    t = S.SkelTr(repo, S.CONTROL_SPEC, trace_calls=True)
    gen = t.generate(["save_state", "try_pause", "resume", "shutdown", "on_finally"])
    body = (TIES_DIR / "control_proto.lean").read_text().replace("--%GEN%\n", gen)
    return ("import Pamiq.Model.Tick\nimport Pamiq.Lemmas.ProtoCtl\nset_option linter.unusedVariables false\n"
            "set_option linter.unusedSimpArgs false\nnamespace Pamiq.GenCTP\nopen Pamiq\n\n" + body + "\nend Pamiq.GenCTP\n")


def generate_stats(repo: Path) -> str:
    """`InferenceThread.log_tick_time_statistics`: the statistics calls and the guards on the number of samples."""
    import translate_skel as S
    gen = S.SkelTr(repo, S.STATS_SPEC).generate(["log_tick_time_statistics"])
    body = (TIES_DIR / "stats.lean").read_text().replace("--%GEN%\n", gen)
    body = body.replace("--%GEN_TICK%\n", S.SkelTr(repo, S.INFERENCE_TICK_SPEC).generate(["on_tick"]))
    return ("import Pamiq.Model.Tick\nset_option linter.unusedVariables false\nset_option linter.unusedSimpArgs false\n"
            "namespace Pamiq.GenStats\nopen Pamiq\n\n" + S.PRELUDE + "\n" + body + "\nend Pamiq.GenStats\n")


def generate_training_tick(repo: Path) -> str:
    """`TrainingThread.on_tick`: which trainer is run and how the cursor moves."""
    import translate_skel as S
    gen = S.SkelTr(repo, S.TRAINING_TICK_SPEC).generate(["on_tick"])
    body = (TIES_DIR / "training_tick.lean").read_text().replace("--%GEN%\n", gen)
    return ("set_option linter.unusedVariables false\nset_option linter.unusedSimpArgs false\n"
            "namespace Pamiq.GenTT\n\n" + body + "\nend Pamiq.GenTT\n")


def generate_handler(repo: Path) -> str:
    """`ControllerCommandHandler.manage_loop` / `stop_if_pause` (the loop guard of every background thread) interpreted
    over a background thread's graph of `Pamiq.Proto` (`Model/ProtoBg.lean`)."""
    import translate_skel as S
    t = S.SkelTr(repo, S.HANDLER_SPEC)
    gen = t.generate(["manage_loop"])
    body = (TIES_DIR / "handler_proto.lean").read_text().replace("--%GEN%\n", gen)
    for mark, rel, cls, comp in (("--%GEN_TRAINING%\n", "thread/threads/training.py", "TrainingThread", "_trainers"),
                                 ("--%GEN_INFERENCE%\n", "thread/threads/inference.py", "InferenceThread", "_interaction")):
        body = body.replace(mark, S.SkelTr(repo, S.hooks_spec(rel, cls, comp)).generate(["on_paused", "on_resumed"]))
    return ("import Pamiq.Lemmas.ProtoBg\nset_option linter.unusedVariables false\nset_option linter.unusedSimpArgs false\n"
            "namespace Pamiq.GenH\nopen Pamiq\n\n" + body + "\nend Pamiq.GenH\n")


def qualified_theorems(text: str) -> list[str]:
    """Fully qualified names of the theorems of a generated file (namespaces tracked line by line)."""
    ns: list[str] = []
    out = []
    for l in text.splitlines():
        m = re.match(r"namespace (\S+)", l)
        if m:
            ns.append(m.group(1))
            continue
        m = re.match(r"end (\S+)", l)
        if m and ns and ns[-1] == m.group(1):
            ns.pop()
            continue
        m = re.match(r"theorem (\w+'?)", l)
        if m:
            out.append(".".join(ns + [m.group(1)]))
    return out


def generate_class(repo: Path) -> str:
    """`TimeController` as a Lean state machine + the theorems tying every method to `Pamiq.Clock`."""
    import translate_class as TCm
    c = TCm.ClassTr(repo, "time.py", "TimeController")
    return ("import Pamiq.Model.Clock\nnamespace Pamiq.GenTC\nopen Pamiq\n\n" + c.generate(CLASS_METHODS) + "\n"
            + CLASS_TIE + "\nend Pamiq.GenTC\n")


def check_class(res: SuiteResult, repo: Path, which: str = "TimeController") -> None:
    gen, ns, model, nmeth = {"TimeController": (generate_class, "GenTC", "Pamiq.Clock", len(CLASS_METHODS)),
                             "ThreadController": (generate_ctl, "GenCtl", "Pamiq.Proto", len(CTL_METHODS)),
                             "ThreadStatus": (generate_status, "GenStatus", "Pamiq.Proto (flag writes)", 6),
                             "IntervalAdjustor": (generate_adjustor, "GenAdj", "Pamiq.Adjust", 1),
                             "TimeIntervalScheduler": (generate_tsched, "GenTSched", "Pamiq.Sched", 2),
                             "StepIntervalScheduler": (generate_ssched, "GenSSched", "Pamiq.Sched", 3),
                             "ControlThread.on_tick": (generate_control_tick, "GenCT", "Pamiq.Tick", 5),
                             "ControlThread.pause_save": (generate_control_proto, "GenCTP", "Pamiq.Proto (ProtoCtl)", 7),
                             "ControllerCommandHandler": (generate_handler, "GenH", "Pamiq.Proto (ProtoBg)", 2),
                             "InferenceThread.statistics": (generate_stats, "GenStats", "Pamiq.Bookkeep (guarded)", 2),
                             "TrainingThread.on_tick": (generate_training_tick, "GenTT", "Pamiq.Trainer (round robin)", 1)}[which]
    try:
        text = gen(repo)
    except T.Untranslatable as e:
        res.evaluations += 1
        res.hit("static-tie-unavailable:" + which)
        res.extra.setdefault("unavailable", []).append(f"{which}: {e}")
        return
    names = re.findall(r"^theorem (\w+)", text, re.M)
    qnames = qualified_theorems(text) if which.startswith(("Control", "Inference")) else [f"Pamiq.{ns}.{n}" for n in names]
    with tempfile.TemporaryDirectory(prefix="pamiq-verif.") as d:
        f = Path(d) / "GenTC.lean"
        f.write_text(text + "\n" + "\n".join(f"#print axioms {n}" for n in qnames) + "\n")
        proc = subprocess.run(["lake", "env", "lean", str(f)], cwd=LEAN_DIR, capture_output=True, text=True)
        log = proc.stdout + proc.stderr
    if proc.returncode == 0:
        for n in names:
            res.evaluations += 1
            res.hit(f"tied:{which}." + n.replace("_is_model", ""))
            res.nontrivial.add(f"{which}." + n)
        for l in log.splitlines():
            m = re.search(r"depends on axioms: \[(.*)\]", l)
            if m and not set(a.strip() for a in m.group(1).split(",")) <= {"propext", "Classical.choice", "Quot.sound"}:
                res.disagreements.append(Disagreement(res.name, "generated tie theorem uses non-standard axioms: " + l, {"gentie": l}))
        res.extra.setdefault("class_translation", []).append(
            f"{which}: {nmeth} methods translated, {len(names)} tie theorems checked")
        return
    # which theorems fail? map error lines to the enclosing theorem
    lines = text.splitlines()
    starts = [(k + 1, m.group(1)) for k, l in enumerate(lines)
              if (m := re.match(r"(?:@\[[^\]]*\]\s*)?theorem (\w+'?)", l))]
    failing, other = set(), []
    for l in log.splitlines():
        m = re.match(r".*GenTC\.lean:(\d+):\d+: error: (.*)", l)
        if not m:
            continue
        ln = int(m.group(1))
        owner = [n for s0, n in starts if s0 <= ln]
        if owner:
            failing.add(owner[-1])
        else:
            other.append(m.group(2)[:200])
    res.evaluations += 1
    if other:
        # the generated definitions themselves do not elaborate: the class left the translatable subset
        res.hit("static-tie-unavailable:" + which)
        res.extra.setdefault("unavailable", []).append(f"{which}: generated definitions rejected: " + other[0])
        return
    res.disagreements.append(Disagreement(
        res.name, f"`{which}` as translated from the source no longer agrees with {model}: Lean rejects "
        f"{sorted(failing)}", {"gentie": {"class": which, "failing": sorted(failing)}}))


def generate(repo: Path, props: tuple[str, ...] | None = None):
    """-> (lean text, [(lean name, source, digest)], [(function, reason)])."""
    parts, done, skipped, extras = [], [], [], []
    for ps, rel, cls, fn, name, enums, extra, thm in SPECS:
        if props is not None and not (set(ps) & set(props)):
            continue
        try:
            g = T.translate(repo, rel, cls, fn, name, enums, EFFECTS.get(name, ()), VALUE_CALL.get(name))
        except T.Untranslatable as e:
            skipped.append((f"{cls}.{fn}", str(e)))
            continue
        if extra and extra not in extras:
            extras.append(extra)
        parts.append((g, thm))
        done.append((name, g.source, g.digest))
    text = PREAMBLE + "\n" + "\n".join(extras) + "\n"
    for g, thm in parts:
        text += g.lean(EXPECTED.get(g.name, ())) + "\n\n" + thm + "\n"
    text += "\nend Pamiq.Gen\n"
    return text, parts, done, skipped


def check_text(text: str) -> tuple[bool, str]:
    with tempfile.TemporaryDirectory(prefix="pamiq-verif.") as d:
        f = Path(d) / "GenTie.lean"
        audit = "\n".join(f"#print axioms Pamiq.Gen.{m}" for m in re.findall(r"^theorem (\w+)", text, re.M))
        f.write_text(text + "\n" + audit + "\n")
        proc = subprocess.run(["lake", "env", "lean", str(f)], cwd=LEAN_DIR, capture_output=True, text=True)
        return proc.returncode == 0, proc.stdout + proc.stderr


def suite_for(*props: str):
    def suite_gentie(ctx: Ctx) -> SuiteResult:
        from framework import REPO
        res = SuiteResult("source-translation",
                          rule="pure decision functions of the source translated to Lean from the working tree on "
                               "this run and proved equal to the model's definitions for all inputs (Lean checks the "
                               "generated file on the spot); non-trivial = every function tied")
        if "C06" in props:
            check_class(res, Path(REPO), "TimeController")
        if "C02" in props:
            check_class(res, Path(REPO), "ThreadController")
        if "C15" in props:
            check_class(res, Path(REPO), "TimeIntervalScheduler")
            check_class(res, Path(REPO), "StepIntervalScheduler")
        if {"C03", "C08", "C17"} & set(props):
            check_class(res, Path(REPO), "ControlThread.on_tick")
        if {"C01", "C02", "C04"} & set(props):
            check_class(res, Path(REPO), "ControlThread.pause_save")
        if {"C01", "C02", "C09"} & set(props):
            check_class(res, Path(REPO), "ControllerCommandHandler")
        if {"C01", "C03"} & set(props):
            check_class(res, Path(REPO), "ThreadStatus")
        if "C08" in props:
            check_class(res, Path(REPO), "InferenceThread.statistics")
        if "C13" in props:
            check_class(res, Path(REPO), "TrainingThread.on_tick")
        if "C16" in props:
            check_class(res, Path(REPO), "IntervalAdjustor")
        text, parts, done, skipped = generate(Path(REPO), props)
        for fn, why in skipped:
            res.evaluations += 1
            res.hit("static-tie-unavailable:" + fn)
            res.extra.setdefault("unavailable", []).append(f"{fn}: {why}")
        if not parts:
            return res
        ok, log = check_text(text)
        if ok:
            for name, src, dg in done:
                res.evaluations += 1
                res.hit("tied:" + name)
                res.nontrivial.add(name)
            bad_ax = [l for l in log.splitlines() if "depends on axioms" in l and
                      re.search(r"\[(.*)\]", l) and
                      not set(a.strip() for a in re.search(r"\[(.*)\]", l).group(1).split(",")) <= {"propext", "Classical.choice", "Quot.sound"}]
            for l in bad_ax:
                res.disagreements.append(Disagreement(res.name, "generated tie theorem uses non-standard axioms: " + l, {"gentie": l}))
            res.extra["functions"] = [f"{n} <- {s} ({d[:12]})" for n, s, d in done]
            res.sample({"generated": parts[0][0].lean()})
            return res
        # which function(s) failed? check them one by one
        for (g, thm), (name, src, dg) in zip(parts, done):
            extras = STATUS_NAME if "statusName" in thm else ""
            one = PREAMBLE + "\n" + extras + "\n" + g.lean(EXPECTED.get(g.name, ())) + "\n\n" + thm + "\nend Pamiq.Gen\n"
            ok1, log1 = check_text(one)
            res.evaluations += 1
            if ok1:
                res.hit("tied:" + name)
                res.nontrivial.add(name)
                continue
            err = " | ".join(l for l in log1.splitlines() if "error" in l)[:600]
            if re.search(r"is not a field of structure|[Ff]ields missing|[Uu]nknown constant|invalid field", log1):
                # the function reads other things than the tie theorem names (an attribute was renamed,
                # a read added or dropped): nothing is claimed
                res.hit("static-tie-unavailable:" + name)
                res.extra.setdefault("unavailable", []).append(f"{name}: reads changed ({err[:200]})")
                continue
            res.disagreements.append(Disagreement(
                res.name, f"`{src}` as translated from the source is no longer equal to the model "
                f"definition: Lean rejects the tie theorem ({err})", {"gentie": {"function": src, "generated": g.lean()}}))
        return res
    suite_gentie.needs_driver = False
    return suite_gentie


if __name__ == "__main__":
    from framework import setup_repo_path, REPO
    setup_repo_path()
    text, parts, done, skipped = generate(Path(REPO))
    if "--write" in sys.argv:
        out2 = Path(LEAN_DIR) / "Pamiq" / "Gen" / "TimeControllerTie.lean"
        out2.parent.mkdir(exist_ok=True)
        out2.write_text("/- GENERATED by harness/gentie.py (translate_class.py) from /repo's time.py (reference copy of "
                        "what every C06 run re-creates and re-checks; do not edit). -/\n" + generate_class(Path(REPO)))
        print("written", out2)
        out3 = Path(LEAN_DIR) / "Pamiq" / "Gen" / "ThreadControllerTie.lean"
        out3.write_text("/- GENERATED by harness/gentie.py (translate_class.py) from /repo's thread_control.py (reference "
                        "copy of what every C02 run re-creates and re-checks; do not edit). -/\n" + generate_ctl(Path(REPO)))
        print("written", out3)
        out4 = Path(LEAN_DIR) / "Pamiq" / "Gen" / "SchedulersTie.lean"
        both = generate_tsched(Path(REPO)) + "\n" + generate_ssched(Path(REPO)).replace("import Pamiq.Model.Sched\n", "")
        out4.write_text("/- GENERATED by harness/gentie.py (translate_class.py) from /repo's utils/schedulers.py (reference "
                        "copy of what every C15 run re-creates and re-checks; do not edit). -/\n" + both)
        print("written", out4)
        out5 = Path(LEAN_DIR) / "Pamiq" / "Gen" / "ControlThreadTickTie.lean"
        out5.write_text("/- GENERATED by harness/gentie.py (translate_skel.py + harness/ties/control_tick.lean) from /repo's "
                        "thread/threads/control.py (reference copy of what every C03 / C08 / C17 run re-creates and re-checks; "
                        "do not edit). -/\n" + generate_control_tick(Path(REPO)))
        print("written", out5)
        out6 = Path(LEAN_DIR) / "Pamiq" / "Gen" / "ControlThreadProtoTie.lean"
        out6.write_text("/- GENERATED by harness/gentie.py (translate_skel.py + harness/ties/control_proto.lean) from /repo's "
                        "thread/threads/control.py (reference copy of what every C01 / C02 / C04 run re-creates and re-checks; "
                        "do not edit). -/\n" + generate_control_proto(Path(REPO)))
        print("written", out6)
        out7 = Path(LEAN_DIR) / "Pamiq" / "Gen" / "CommandHandlerTie.lean"
        out7.write_text("/- GENERATED by harness/gentie.py (translate_skel.py + harness/ties/handler_proto.lean) from /repo's "
                        "thread/thread_control.py (reference copy of what every C01 / C02 / C09 run re-creates and re-checks; "
                        "do not edit). -/\n" + generate_handler(Path(REPO)))
        print("written", out7)
        out8 = Path(LEAN_DIR) / "Pamiq" / "Gen" / "StatisticsTie.lean"
        out8.write_text("/- GENERATED by harness/gentie.py (translate_skel.py + harness/ties/stats.lean) from /repo's "
                        "thread/threads/inference.py (reference copy of what every C08 run re-creates and re-checks; do not "
                        "edit). -/\n" + generate_stats(Path(REPO)))
        print("written", out8)
        out9 = Path(LEAN_DIR) / "Pamiq" / "Gen" / "TrainingTickTie.lean"
        out9.write_text("/- GENERATED by harness/gentie.py (translate_skel.py + harness/ties/training_tick.lean) from /repo's "
                        "thread/threads/training.py (reference copy of what every C13 run re-creates and re-checks; do not "
                        "edit). -/\n" + generate_training_tick(Path(REPO)))
        print("written", out9)
        out10 = Path(LEAN_DIR) / "Pamiq" / "Gen" / "ThreadStatusTie.lean"
        out10.write_text("/- GENERATED by harness/gentie.py (translate_class.py) from /repo's thread/thread_control.py (reference "
                         "copy of what every C01 / C03 run re-creates and re-checks; do not edit). -/\n" + generate_status(Path(REPO)))
        print("written", out10)
        out11 = Path(LEAN_DIR) / "Pamiq" / "Gen" / "AdjustorTie.lean"
        out11.write_text("/- GENERATED by harness/gentie.py (translate_class.py) from /repo's interaction/interval_adjustors.py "
                         "(reference copy of what every C16 run re-creates and re-checks; do not edit). -/\n" + generate_adjustor(Path(REPO)))
        print("written", out11)
        out = Path(LEAN_DIR) / "Pamiq" / "Gen" / "DecisionsTie.lean"
        out.parent.mkdir(exist_ok=True)
        out.write_text("/- GENERATED by harness/gentie.py from /repo's source (reference copy of what every run "
                       "re-creates and re-checks; do not edit). -/\n" + text)
        print("written", out)
    ok, log = check_text(text)
    print("ok" if ok else "FAILED", log[-3000:])
    print("skipped:", skipped)
