"""Common machinery of the pamiq-core verification checks (see DESIGN.md §2-§5, §9).

A check = (1) build the Lean library for the property and audit it (no sorry / foreign axioms),
(2) run the correspondence between the Lean model's executable definitions (driver) and the real
code in /repo's working tree, with the property monitor on every implementation execution,
(3) when a proof obligation or the correspondence is broken: search for a concrete failing input
on the implementation, (4) write evidence, print VIOLATION / KNOWN-FINDING lines, exit 0/1/2.
"""
from __future__ import annotations

import fnmatch
import hashlib
import json
import os
import random
import re
import subprocess
import sys
import time as _time
from dataclasses import dataclass, field
from fractions import Fraction
from pathlib import Path
from typing import Any, Callable, Iterable

VERIF = Path(__file__).resolve().parent.parent
LEAN_DIR = Path(os.environ.get("PAMIQ_LEAN_DIR", str(VERIF / "lean")))
REPO = Path(os.environ.get("PAMIQ_REPO", "/repo"))
ALLOWED_AXIOMS = {"propext", "Classical.choice", "Quot.sound"}
FORBIDDEN = re.compile(
    r"\bsorry\b|\badmit\b|^\s*axiom\s|\bnative_decide\b|\bbv_decide\b|\bimplemented_by\b|"
    r"\bunsafe\s|maxHeartbeats\s+0\b|\bextern\b", re.M)
AUTO_THM = re.compile(
    r"\.(inj|injEq|sizeOf_spec|eq_def|eq_\d+|ofNat_ctorIdx|congr_simp|noConfusion.*|"
    r"match_\d+.*|proof_\d+|ctorIdx.*|below.*|brecOn.*|rec.*|induct.*|fun_cases.*|toCtorIdx.*|"
    r"ofNat.*|ctorElim.*|elim.*|hinj|ext|ext_iff)$")


def setup_repo_path() -> None:
    """Put the working tree under test first on sys.path (shadows the editable install)."""
    src = str(REPO / "src")
    if src in sys.path:
        sys.path.remove(src)
    sys.path.insert(0, src)
    os.environ.setdefault("PYTHONDONTWRITEBYTECODE", "1")
    sys.dont_write_bytecode = True


def frac_of_float(x: float) -> Fraction:
    return Fraction(x)


def show_frac(q: Fraction | int) -> str:
    q = Fraction(q)
    return str(q.numerator) if q.denominator == 1 else f"{q.numerator}/{q.denominator}"


def parse_frac(s: str) -> Fraction:
    return Fraction(s)


def show_list(xs: Iterable[Any], f: Callable[[Any], str] = str) -> str:
    return "[" + ",".join(f(x) for x in xs) + "]"


# --------------------------------------------------------------------------------------------
# Lean side
# --------------------------------------------------------------------------------------------

@dataclass
class LeanStatus:
    built: bool
    log: str
    theorems: dict[str, list[str]] = field(default_factory=dict)  # user theorems -> axioms
    auto_theorems: int = 0
    problems: list[str] = field(default_factory=list)
    leanchecker: str = "not run (thorough tier only)"

    @property
    def ok(self) -> bool:
        return self.built and not self.problems


def strip_lean_comments(src: str) -> str:
    out = []
    i, depth, n = 0, 0, len(src)
    while i < n:
        if src.startswith("/-", i):
            depth += 1
            i += 2
        elif depth and src.startswith("-/", i):
            depth -= 1
            i += 2
        elif depth:
            if src[i] == "\n":
                out.append("\n")
            i += 1
        elif src.startswith("--", i):
            while i < n and src[i] != "\n":
                i += 1
        else:
            out.append(src[i])
            i += 1
    return "".join(out)


def lean_sources() -> list[Path]:
    return sorted(p for p in (LEAN_DIR / "Pamiq").rglob("*.lean"))


def grep_forbidden() -> list[str]:
    bad = []
    for p in lean_sources():
        code = strip_lean_comments(p.read_text())
        for m in FORBIDDEN.finditer(code):
            line = code.count("\n", 0, m.start()) + 1
            bad.append(f"{p.relative_to(LEAN_DIR)}:{line}: forbidden token {m.group(0).strip()!r}")
    return bad


def lean_check(modules: list[str], required: list[str]) -> LeanStatus:
    """Build the property modules + driver, audit axioms of every theorem in them."""
    env = dict(os.environ)
    t0 = _time.time()
    proc = subprocess.run(["lake", "build", *modules, "driver"], cwd=LEAN_DIR, env=env,
                          capture_output=True, text=True)
    log = proc.stdout + proc.stderr
    st = LeanStatus(built=proc.returncode == 0, log=log)
    if not st.built:
        errs = [l for l in log.splitlines() if "error" in l][:10]
        st.problems.append("lake build failed: " + " | ".join(errs))
        return st
    st.problems += grep_forbidden()
    proc = subprocess.run(["lake", "env", "lean", "--run", "Audit.lean", *modules], cwd=LEAN_DIR,
                          env=env, capture_output=True, text=True)
    if proc.returncode != 0:
        st.problems.append("axiom audit failed to run: " + (proc.stderr or proc.stdout)[-400:])
        return st
    for line in proc.stdout.splitlines():
        parts = line.split()
        if parts and parts[0] == "axiom":
            st.problems.append(f"own axiom declared: {parts[2]}")
        if not parts or parts[0] != "thm":
            continue
        name = parts[2]
        axs = [a for a in parts[3][len("axioms=["):-1].split(",") if a]
        extra = [a for a in axs if a not in ALLOWED_AXIOMS]
        if extra:
            st.problems.append(f"theorem {name} depends on non-standard axioms {extra}")
        if AUTO_THM.search(name):
            st.auto_theorems += 1
        else:
            st.theorems[name] = axs
    for r in required:
        if r not in st.theorems:
            st.problems.append(f"required property theorem {r} is missing")
    st.log += f"\n[audit] {len(st.theorems)} theorems in {_time.time()-t0:.1f}s"
    if os.environ.get("VERIF_TIER") == "thorough" or "thorough" in sys.argv[1:]:
        # independent re-check of the compiled proofs by the toolchain's stand-alone kernel checker
        proc = subprocess.run(["lake", "env", "leanchecker", *modules], cwd=LEAN_DIR, env=env,
                              capture_output=True, text=True)
        st.leanchecker = "ok" if proc.returncode == 0 else "FAILED"
        if proc.returncode != 0:
            st.problems.append("leanchecker rejected the compiled modules: " + (proc.stdout + proc.stderr)[-400:])
    return st


class Driver:
    """The compiled Lean model driver, one line in / one line out."""

    def __init__(self) -> None:
        exe = LEAN_DIR / ".lake" / "build" / "bin" / "driver"
        if not exe.exists():
            raise RuntimeError("driver executable missing (run bin/setup)")
        self.proc = subprocess.Popen([str(exe)], stdin=subprocess.PIPE, stdout=subprocess.PIPE,
                                     text=True, bufsize=1)
        self.lines = 0

    def ask(self, line: str) -> str:
        assert "\n" not in line
        self.proc.stdin.write(line + "\n")
        self.proc.stdin.flush()
        self.lines += 1
        out = self.proc.stdout.readline()
        if not out:
            raise RuntimeError("driver died on: " + line)
        return out.rstrip("\n")

    def batch(self, lines: list[str]) -> list[str]:
        """Send many lines, read as many replies (chunked to keep the pipes from filling)."""
        out: list[str] = []
        CH = 200
        for i in range(0, len(lines), CH):
            chunk = lines[i:i + CH]
            self.proc.stdin.write("\n".join(chunk) + "\n")
            self.proc.stdin.flush()
            for _ in chunk:
                r = self.proc.stdout.readline()
                if not r:
                    raise RuntimeError("driver died")
                out.append(r.rstrip("\n"))
        self.lines += len(lines)
        return out

    def close(self) -> None:
        try:
            self.proc.stdin.close()
            self.proc.wait(timeout=5)
        except Exception:
            self.proc.kill()


# --------------------------------------------------------------------------------------------
# Results
# --------------------------------------------------------------------------------------------

@dataclass
class Violation:
    """The *property* fails on the implementation for this concrete case."""
    key: str            # signature used to match KNOWN_FINDINGS
    what: str
    case: Any           # JSON-able replay payload


@dataclass
class Disagreement:
    """Model and implementation behave differently on this case (not by itself a violation)."""
    suite: str
    what: str
    case: Any


@dataclass
class SuiteResult:
    name: str
    evaluations: int = 0
    nontrivial: set = field(default_factory=set)
    rule: str = ""
    histogram: dict[str, int] = field(default_factory=dict)
    samples: list[Any] = field(default_factory=list)
    violations: list[Violation] = field(default_factory=list)
    disagreements: list[Disagreement] = field(default_factory=list)
    exhaustive: bool = False
    extra: dict[str, Any] = field(default_factory=dict)

    def hit(self, k: str, n: int = 1) -> None:
        self.histogram[k] = self.histogram.get(k, 0) + n

    def sample(self, case: Any, limit: int = 3) -> None:
        if len(self.samples) < limit:
            self.samples.append(case)


def load_known_findings() -> tuple[dict[str, list[tuple[str, str]]], list[str]]:
    """KNOWN_FINDINGS.txt: `open: property=<id> key=<sig> <text>` / `fixed: property=<id> ...`."""
    open_: dict[str, list[tuple[str, str]]] = {}
    fixed: list[str] = []
    p = VERIF / "KNOWN_FINDINGS.txt"
    if p.exists():
        for line in p.read_text().splitlines():
            line = line.strip()
            if line.startswith("open:"):
                m = re.match(r"open:\s+property=(\S+)\s+key=(\S+)\s+(.*)", line)
                if m:
                    open_.setdefault(m.group(1), []).append((m.group(2), m.group(3)))
            elif line.startswith("fixed:"):
                fixed.append(line)
    return open_, fixed


def write_replay(prop: str, payload: dict) -> Path:
    d = Path(os.environ.get("PAMIQ_REPLAY_DIR", str(VERIF / "replays")))
    d.mkdir(exist_ok=True)
    blob = json.dumps(payload, sort_keys=True, default=str)
    digest = hashlib.sha1(blob.encode()).hexdigest()[:10]
    path = d / f"{prop}-{digest}.json"
    path.write_text(json.dumps(payload, indent=1, sort_keys=True, default=str))
    return path


@dataclass
class Ctx:
    prop: str
    tier: str
    seed: int
    rng: random.Random
    driver: Driver | None
    lean: LeanStatus
    budget: float       # multiplier: 1 quick, ~20 thorough
    t0: float = field(default_factory=_time.time)

    def n(self, quick: int, thorough: int | None = None) -> int:
        if self.tier == "thorough":
            return thorough if thorough is not None else quick * 20
        return quick


def corpus_cases(prop: str) -> list[dict]:
    d = VERIF / "corpus" / prop
    out = []
    if d.exists():
        for p in sorted(d.glob("*.json")):
            c = json.loads(p.read_text())
            c["_corpus_file"] = p.name
            out.append(c)
    return out


TRUSTED_COMMON = [
    "Lean 4.33.0 kernel and elaborator; Mathlib tactic modules used only inside proofs",
    "axioms allowed: propext, Classical.choice, Quot.sound (audited per theorem on every run); "
    "no sorry/admit/own axiom/native_decide/bv_decide/implemented_by/unsafe (grep, comments stripped)",
    "correspondence harness (harness/framework.py + corr module) and the compiled model driver "
    "(lean/Driver.lean): model and code are only compared on the generated cases",
    "CPython semantics of float on dyadic inputs, deque, list, dict, pickle",
]


def run_check(prop: str, *, lean_modules: list[str], required_theorems: list[str],
              suites: list[Callable[[Ctx], SuiteResult]],
              search: Callable[[Ctx, list[Disagreement], list[str]], list[Violation]] | None,
              replay: Callable[[Ctx, dict], SuiteResult] | None,
              assumptions: list[str], trusted_extra: list[str], level_text: str) -> int:
    """Generic main of one property check. Returns the process exit code."""
    args = sys.argv[1:]
    tier = os.environ.get("VERIF_TIER", "quick")
    replay_file = None
    i = 0
    while i < len(args):
        if args[i] in ("quick", "thorough"):
            tier = args[i]
        elif args[i] == "--replay":
            replay_file = args[i + 1]
            i += 1
        i += 1
    seed = int(os.environ.get("VERIF_SEED", "0"))
    t0 = _time.time()
    setup_repo_path()
    lean = lean_check(lean_modules, required_theorems)
    driver = None
    try:
        driver = Driver() if lean.built else None
    except Exception as e:  # pragma: no cover
        lean.problems.append(f"driver unavailable: {e}")
    ctx = Ctx(prop=prop, tier=tier, seed=seed, rng=random.Random(seed), driver=driver, lean=lean,
              budget=20.0 if tier == "thorough" else 1.0)
    known, _fixed = load_known_findings()
    known_here = known.get(prop, [])

    if replay_file is not None:
        if replay is None:
            print("replay not supported for this property")
            return 2
        payload = json.loads(Path(replay_file).read_text())
        res = replay(ctx, payload)
        for v in res.violations:
            print(f"REPLAY property={prop} violation key={v.key}: {v.what}")
        for d in res.disagreements:
            print(f"REPLAY property={prop} model/implementation disagreement: {d.what}")
        if not res.violations and not res.disagreements:
            print(f"REPLAY property={prop}: no violation and no disagreement on this case")
        return 1 if res.violations else 0

    results: list[SuiteResult] = []
    infra_errors: list[str] = []
    for s in suites:
        try:
            if driver is None and getattr(s, "needs_driver", True):
                # model unavailable: still run the implementation side with the monitor
                pass
            results.append(s(ctx))
        except Exception as e:
            import traceback
            infra_errors.append(f"suite {getattr(s, '__name__', s)} crashed: {e!r}\n"
                                + traceback.format_exc()[-1500:])
    if driver is not None:
        driver.close()

    violations = [v for r in results for v in r.violations]
    disagreements = [d for r in results for d in r.disagreements]
    broken: list[str] = list(lean.problems)
    broken += [f"correspondence[{d.suite}]: {d.what}" for d in disagreements[:5]]
    broken += infra_errors

    # §5: something that ties the theorems to the code no longer checks -> search for an input
    def _is_known(v: Violation) -> bool:
        return any(fnmatch.fnmatchcase(v.key, k[0]) for k in known_here)

    if broken and all(_is_known(v) for v in violations) and search is not None:
        try:
            violations += search(ctx, disagreements, broken)
        except Exception as e:
            infra_errors.append(f"search crashed: {e!r}")

    exit_code = 0
    reported = set()
    n_known = 0
    for v in violations:
        hit = [k for k in known_here if fnmatch.fnmatchcase(v.key, k[0])]
        if hit:
            if ("known", hit[0][0]) not in reported:
                print(f"KNOWN-FINDING: property={prop} {hit[0][1]} [key={hit[0][0]}]")
                reported.add(("known", hit[0][0]))
            n_known += 1
            continue
        if v.key in reported:
            continue
        reported.add(v.key)
        path = write_replay(prop, {"property": prop, "kind": "failing-input", "key": v.key,
                                   "what": v.what, "case": v.case, "seed": seed,
                                   "how_to_replay": f"./bin/check {prop} --replay <this file>"})
        print(f"VIOLATION property={prop} replay={path}")
        print(f"  {v.what}")
        exit_code = 1
    unknown_violation = exit_code == 1
    if broken and not unknown_violation:
        # no failing input exhibited (known findings do not explain a broken proof/correspondence
        # unless every disagreement case is itself a known violation)
        unexplained = list(lean.problems) + infra_errors
        known_cases = {json.dumps(v.case, sort_keys=True, default=str) for v in violations}
        for d in disagreements:
            if json.dumps(d.case, sort_keys=True, default=str) not in known_cases:
                unexplained.append(f"correspondence[{d.suite}]: {d.what}")
        if unexplained:
            path = write_replay(prop, {
                "property": prop, "kind": "unproved",
                "no_longer_checks": unexplained[:20],
                "first_disagreement": (disagreements[0].case if disagreements else None),
                "lean_log_tail": lean.log[-3000:], "seed": seed})
            print(f"VIOLATION property={prop} replay={path} no-failing-input-found")
            for u in unexplained[:5]:
                print("  " + u[:600])
            exit_code = 1 if not (infra_errors and not lean.problems and not disagreements) else 2
            if exit_code == 2:
                print("  (infrastructure error)")

    # ---------------- evidence ----------------
    n_thm = len(lean.theorems)
    n_suites = len(suites)
    obligations = n_thm + n_suites
    suites_ok = sum(1 for r in results if not r.disagreements and all(
        any(fnmatch.fnmatchcase(v.key, k[0]) for k in known_here) for v in r.violations))
    discharged = (n_thm if lean.ok else 0) + (suites_ok if not infra_errors else 0)
    if n_known and not unknown_violation:
        # suites whose only findings are listed known findings still count as run-and-explained
        discharged = (n_thm if lean.ok else 0) + sum(
            1 for r in results if not r.disagreements
            and all(any(fnmatch.fnmatchcase(v.key, k[0]) for k in known_here) for v in r.violations))
    evaluations = sum(r.evaluations for r in results)
    nontrivial = sum(len(r.nontrivial) for r in results)
    cov = {
        "obligations": obligations,
        "discharged": discharged,
        "checker_cmd": f"cd lean && lake build {' '.join(lean_modules)} driver && "
                       f"lake env lean --run Audit.lean {' '.join(lean_modules)}; "
                       f"then ./bin/check {prop} {tier}",
        "trusted_base": TRUSTED_COMMON + trusted_extra + (
            ["source translators (harness/translate.py, translate_class.py, translate_skel.py) and the tables in "
             "harness/ties/*.lean that say which model actions a call of the source stands for: the generated definitions are "
             "taken to mean what the source says; the tie theorems about them are checked by Lean on this run"]
            if any(r.name == "source-translation" for r in results) else []),
        "theorems": sorted(lean.theorems),
        "axioms_used": sorted({a for axs in lean.theorems.values() for a in axs}),
        "auto_generated_theorems_audited": lean.auto_theorems,
        "evaluations": evaluations,
        "distinct_nontrivial": nontrivial,
        "rule": " || ".join(f"{r.name}: {r.rule}" for r in results),
        "samples": [s for r in results for s in r.samples][:8] or ["(no cases run)"],
        "suites": {r.name: {"evaluations": r.evaluations, "distinct_nontrivial": len(r.nontrivial),
                            "histogram": r.histogram, "exhaustive": r.exhaustive,
                            "disagreements": len(r.disagreements),
                            "violations": len(r.violations), **r.extra} for r in results},
        "driver_lines": driver.lines if driver else 0,
        "level_text": level_text,
        "known_findings_seen": n_known,
        "lean_problems": lean.problems,
        "leanchecker": lean.leanchecker,
    }
    ev = {"property_id": prop, "tier": tier, "seed": seed, "level": "proof", "coverage": cov,
          "assumptions": assumptions, "wall_s": round(_time.time() - t0, 2),
          "violations": sum(1 for k in reported if not (isinstance(k, tuple)))
          + (1 if exit_code == 1 and not unknown_violation else 0)}
    # development runs against scratch trees (bin/seedmatrix, bin/trycheck) divert their evidence and
    # replays so that the committed files only ever come from runs against the real tree
    evdir = Path(os.environ.get("PAMIQ_EVIDENCE_DIR", str(VERIF / "evidence")))
    evdir.mkdir(parents=True, exist_ok=True)
    (evdir / f"{prop}.json").write_text(json.dumps(ev, indent=1, default=str))
    print(f"[{prop}] tier={tier} seed={seed} theorems={n_thm} suites={suites_ok}/{n_suites} "
          f"evaluations={evaluations} nontrivial={nontrivial} exit={exit_code} "
          f"wall={_time.time()-t0:.1f}s")
    return exit_code
