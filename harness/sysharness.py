"""Runs the real `pamiq_core.launch()` under the deterministic scheduler (detsched.py).

No source hooks: module attributes are substituted from outside (DESIGN.md §3) and a few public
methods are wrapped for *observation only* (ControlThread.try_pause/resume/shutdown/save_state,
StateStore.save_state, time.pause/resume/set_time_scale). Recording components (agent with
optional child, environment, trainers, a buffer) emit callback begin/end events, can take virtual
time and can be told to raise at their k-th call.
"""
from __future__ import annotations

import gc
import math
import threading as _real_threading
import pickle
import shutil
import tempfile
from dataclasses import dataclass, field
from pathlib import Path
from typing import Any

from detsched import (FakeEvent, FakeExecutor, FakeLock, FakeRLock, FakeThread, Pending, Sched, SchedAbort)


class InjectedFault(Exception):
    pass


class WeirdFault(InjectedFault):
    """A user exception that cannot be turned into text (its `__str__` returns an error code, not a
    string): legal Python, met in the wild, and fatal for any handler that formats it before doing its job."""

    def __str__(self) -> int:          # type: ignore[override]
        return 17

    def __repr__(self) -> str:
        return "WeirdFault()"


class InjectedOSError(InjectedFault, OSError):
    """A user callback failing the way the operating system makes it fail (disk full while a state is written)."""


# kinds of user callbacks (the vocabulary of the Proto model)
STEP_CBS = {"observe", "step", "affect"}
TRAIN_CBS = {"t_setup", "train", "t_teardown", "sync"}


class VStdTime:
    """Virtual stdlib clock handed to pamiq_core.time."""

    def __init__(self, sched: Sched) -> None:
        self.s = sched

    def time(self) -> float: return 1_000_000.0 + self.s.now
    def perf_counter(self) -> float: return 5_000.0 + self.s.now
    def monotonic(self) -> float: return 70_000.0 + self.s.now

    def sleep(self, secs: float) -> None:
        self.s.sleep(secs, "sleep")
        self.s.log("sleep", "", secs)


class _FakeThreadingModule:
    def __init__(self, sched: Sched, H: "Harness") -> None:
        self._s, self._H = sched, H

    def Event(self) -> FakeEvent:
        return FakeEvent(self._s, self._H.resolve_event_role)

    def Thread(self, *a: Any, **kw: Any) -> FakeThread:
        return FakeThread(self._s, self._H.name_thread_target, *a, **kw)

    def Lock(self) -> FakeLock:
        return FakeLock(self._s, "resume_lock")

    def current_thread(self):  # pragma: no cover
        import threading
        return threading.current_thread()


class _FakeTimeModule:
    """Stand-in for the stdlib `time` imported by threads/base.py (only `sleep` is used)."""

    def __init__(self, sched: Sched, quantum: float = 0.0) -> None:
        self._s = sched
        self._q = quantum

    def sleep(self, secs: float) -> None:
        # timed mode: the loop period is coarsened to `quantum` virtual seconds (a slower machine)
        self._s.sleep(max(secs, self._q), "loop_sleep")
        self._s.log("loop_sleep")


class _FakeStdlibTime:
    """Stand-in for the stdlib `time` used by thread_control.py (monotonic + sleep)."""

    def __init__(self, sched: Sched, quantum: float = 0.0) -> None:
        self._s = sched
        self._q = quantum

    def monotonic(self) -> float:
        return 70_000.0 + self._s.now

    def time(self) -> float:
        return 1_000_000.0 + self._s.now

    def perf_counter(self) -> float:
        return 40_000.0 + self._s.now

    def monotonic_ns(self) -> int:
        return int(self.monotonic() * 1e9)

    def perf_counter_ns(self) -> int:
        return int(self.perf_counter() * 1e9)

    def time_ns(self) -> int:
        return int(self.time() * 1e9)

    def sleep(self, secs: float) -> None:
        self._s.sleep(max(secs, self._q), "poll_sleep")

    def __getattr__(self, name: str) -> Any:
        # anything else of the stdlib module (strftime, struct_time, ...) is the real thing
        import time as _real
        return getattr(_real, name)


class _FakeUvicorn:
    def __init__(self, H: "Harness") -> None:
        self.H = H

    def run(self, app: Any, **kw: Any) -> None:
        self.H.client_main(app)


class _FakeDatetime:
    """Strictly increasing stamps so that state directory names never collide."""
    n = 0

    class _D:
        def __init__(self, n: int) -> None:
            self.n = n

        def strftime(self, fmt: str) -> str:
            return f"state-{self.n:04d}.state" if fmt.endswith(".state") else f"state-{self.n:04d}"

    @classmethod
    def now(cls) -> "_FakeDatetime._D":
        cls.n += 1
        return cls._D(cls.n)


@dataclass
class Scenario:
    trainers: int = 1
    conditioned: bool = False
    child_agent: bool = False
    max_attempts: int = 2
    pause_timeout: float = 60.0
    queue_size: int = 2
    max_uptime: float = math.inf
    time_scale: float = 1.0
    pre_scale: float = 1.0            # the application has set the global time scale itself before calling launch()
    log_interval: float = 60.0
    client: list = field(default_factory=list)          # [["POST","/api/pause"], ["GET","/api/status"], ["delay", 3.0]]
    save_condition: list = field(default_factory=list)  # scripted booleans (then False) | "raise"
    faults: list = field(default_factory=list)          # [{"comp":"agent","cb":"step","k":2}]
    durations: dict = field(default_factory=dict)       # {"step": 0.5, ...} virtual seconds (timed)
    timed: bool = False
    interrupt_at: int | None = None
    coarse_data: bool = False         # True: collect/update are atomic steps (schedules recorded before the
                                      # collector lock became a scheduling point keep their meaning)
    boot_interrupt: str | None = None   # KeyboardInterrupt instead of starting "inference" | "training" | "webapi"
    keeper_max_keep: int | None = None
    custom_keeper: bool = False           # a user-written StatesKeeper whose selection is a generator (an Iterable)
    fixed_interval: float | None = None   # FixedIntervalInteraction.with_sleep_adjustor(agent, env, interval, offset)
    interval_offset: float = 0.0
    lazy_points: list = field(default_factory=list)   # e.g. ["clock_resume"]: the control thread dawdles there
    swap_env: bool = False                # the environment is put in place after the Interaction was constructed
    train_clock_sleep: float = 0.0        # every training run sleeps this long on the *system* clock (pamiq_core.time.sleep)
    archive_states: bool = False      # somebody moves the oldest state directory away after every runtime save
    loop_quantum: float = 0.25        # timed mode: virtual duration of one loop delay
    prelaunch: bool = False           # run a short first launch() and start the scenario from its final state
    downtime: float = 0.0             # real (virtual) seconds between the preparatory launch and the scenario's
    reuse_components: bool = False    # the scenario's launch() gets the very objects the preparatory launch() used
    budget: int = 20000

    @staticmethod
    def from_json(d: dict) -> "Scenario":
        sc = Scenario()
        for k, v in d.items():
            if hasattr(sc, k):
                setattr(sc, k, v)
        if sc.max_uptime is None or sc.max_uptime == "inf":
            sc.max_uptime = math.inf
        return sc

    def to_json(self) -> dict:
        d = dict(self.__dict__)
        if d["max_uptime"] == math.inf:
            d["max_uptime"] = "inf"
        return d


@dataclass
class RunResult:
    events: list
    outcome: str                  # "returned" | "raised:<Exc>" | "aborted:<reason>"
    schedule: list
    states_dir_listing: list
    saves: list                   # [{"path":…, "files":{rel: content}}] in order of save_end
    post: dict                    # observations after launch returned
    decisions: int
    sched_abort: str | None
    times: list = field(default_factory=list)
    pending_at_abort: dict = field(default_factory=dict)


class Harness:
    def __init__(self, scenario: Scenario, schedule: list[int] | None, seed: int) -> None:
        self.sc = scenario
        self.sched = Sched(schedule, seed=seed, timed=scenario.timed, budget=scenario.budget)
        self.sched.interrupt_at = scenario.interrupt_at
        self.sched.lazy = set(scenario.lazy_points or [])

        def disarm(ev: tuple) -> None:
            # an interrupt is only delivered inside the control loop, not inside the `finally`
            # clean-up that follows the first completed shutdown() (DESIGN §7.2, partial)
            if ev[0] == "control" and ev[1] in ("shutdown_ret", "shutdown_raise"):
                self.sched.interrupt_at = None
        self.sched.listeners.append(disarm)
        self.ctl_ticks = 0

        def count_ticks(ev: tuple) -> None:
            if ev[0] == "control" and ev[1] == "loop_sleep":
                self.ctl_ticks += 1
        self.sched.listeners.append(count_ticks)
        self.cb_counts: dict[tuple[str, str], int] = {}
        self.saves: list[dict] = []
        self.tmp = Path(tempfile.mkdtemp(prefix="pamiq-verif."))
        self._restore: list = []
        self.save_cond_calls = 0
        self.control_thread = None
        self.threads_by_status: dict[int, str] = {}
        self.in_prelaunch = False
        self.save_state_depth = 0
        self.in_final_save = False

    # ---- role resolution -----------------------------------------------------------------------
    @staticmethod
    def _owners(obj: Any):
        """Objects that hold `obj` in an attribute: (owner, attribute name)."""
        for ref in gc.get_referrers(obj):
            cands = []
            if isinstance(ref, dict):
                cands = [o for o in gc.get_referrers(ref) if getattr(o, "__dict__", None) is ref]
            elif hasattr(ref, "__dict__") and not isinstance(ref, type):
                cands = [ref]
            for o in cands:
                try:
                    d = vars(o)
                except TypeError:
                    continue
                for k, v in d.items():
                    if v is obj:
                        yield o, k

    def resolve_event_role(self, ev: FakeEvent) -> str:
        for owner, attr in self._owners(ev):
            cls = type(owner).__name__
            if cls == "ThreadController":
                return {"_resume_event": "resume", "_shutdown_event": "shutdown"}.get(attr, attr)
            if cls == "ThreadStatus":
                which = {"_paused_event": "paused", "_exception_event": "exc"}.get(attr, attr)
                return f"{which}[{self.thread_of_status(owner)}]"
            if cls not in ("FakeEvent",):
                return f"{cls}.{attr}"
        return f"event#{ev.id}"

    def thread_of_status(self, status: Any) -> str:
        k = id(status)
        if k in self.threads_by_status:
            return self.threads_by_status[k]
        for owner, _attr in self._owners(status):
            if hasattr(owner, "THREAD_TYPE"):
                self.threads_by_status[k] = owner.THREAD_TYPE.thread_name
                return self.threads_by_status[k]
        return "?"

    def name_thread_target(self, target: Any) -> str:
        owner = getattr(target, "__self__", None)
        if owner is not None and hasattr(owner, "THREAD_TYPE"):
            return owner.THREAD_TYPE.thread_name
        if owner is not None and type(owner).__name__ == "ThreadStatus":
            return f"worker[{self.thread_of_status(owner)}]"
        if owner is not None and type(owner).__name__ == "WebApiServer":
            return "webapi"
        return getattr(target, "__name__", "thread")

    # ---- callbacks of the recording components ---------------------------------------------------
    def cb(self, comp: str, name: str) -> "_Cb":
        return _Cb(self, comp, name)

    # ---- the scripted web client (runs as the logical thread `webapi`) ----------------------------
    def client_main(self, app: Any) -> None:
        s = self.sched
        if self.in_prelaunch:
            # the preparatory launch: let it run a little, then shut it down; the thread ends
            for _ in range(6):
                s.point("client_next", "prelaunch")
            while True:
                s.point("client_next", "POST /api/shutdown")
                status, _body = self.asgi_request(app, "POST", "/api/shutdown")
                if status == 200:
                    return
        for req in self.sc.client:
            if req[0] == "delay":
                s.sleep(float(req[1]), "client_delay")
                continue
            if req[0] == "linger":
                # let the control loop complete n more ticks before the next request (a user who looks
                # away for a while): blocks until they have happened or launch() has ended
                target = self.ctl_ticks + int(req[1])
                s.yield_(Pending("client_linger", alts=lambda: ["go"] if self.ctl_ticks >= target else []))
                continue
            method = req[0].rstrip("!")
            t_first = self.ctl_ticks
            while True:
                s.point("client_next", f"{method} {req[1]}")
                status, body = self.asgi_request(app, method, req[1])
                s.log("http", f"{method} {req[1]}", (status, body))
                if not req[0].endswith("!") or status == 200:
                    break
                if self.ctl_ticks > t_first + 60:
                    # refused (queue full) across 60 completed control ticks, each of which drains the whole queue
                    s.log("starved", "", {"refused": f"{method} {req[1]}"})
                    s.aborted = f"starved: {method} {req[1]} still refused after 60 further control ticks"
                    break
        # every tick of the control loop drains the whole queue: 40 completed ticks after the last request whatever
        # was accepted has long been carried out - if not, the run is cut here (it would only burn the budget) and
        # the monitors are told
        t0 = self.ctl_ticks
        s.yield_(Pending("client_watch", alts=lambda: ["go"] if self.ctl_ticks >= t0 + 40 else []))
        acc = [e[2] for e in s.events if e[1] == "cmd_accept"]
        exe = [e[2] for e in s.events if e[1] == "cmd_exec"]
        upto = acc.index("SHUTDOWN") + 1 if "SHUTDOWN" in acc else len(acc)
        if len(exe) < upto:
            s.log("starved", "", {"accepted": acc[:upto], "executed": exe})
            s.aborted = f"starved: accepted {acc[:upto]}, executed {exe} after 40 further control ticks"
        # stay alive (daemon thread) until the run is cut
        s.yield_(Pending("client_done", alts=lambda: []))

    def asgi_request(self, app: Any, method: str, path: str) -> tuple[int, Any]:
        import json
        sent: list[dict] = []
        scope = {"type": "http", "asgi": {"version": "3.0"}, "http_version": "1.1",
                 "method": method, "path": path, "raw_path": path.encode(), "root_path": "",
                 "scheme": "http", "query_string": b"", "headers": [],
                 "client": ("testclient", 1), "server": ("testserver", 80)}

        async def receive() -> dict:
            return {"type": "http.request", "body": b"", "more_body": False}

        async def send(msg: dict) -> None:
            sent.append(msg)

        coro = app(scope, receive, send)
        try:
            while True:
                coro.send(None)
        except StopIteration:
            pass
        status = next((m["status"] for m in sent if m["type"] == "http.response.start"), -1)
        body = b"".join(m.get("body", b"") for m in sent if m["type"] == "http.response.body")
        try:
            body = json.loads(body) if body else None
        except Exception:
            body = body.decode(errors="replace")
        return status, body

    # ---- installation of the fakes -----------------------------------------------------------------
    def _patch(self, obj: Any, attr: str, value: Any) -> None:
        old = getattr(obj, attr)
        self._restore.append((obj, attr, old))
        setattr(obj, attr, value)

    def install(self) -> None:
        import pamiq_core.time as ptime
        import pamiq_core.thread.thread_control as tc
        import pamiq_core.thread.threads.base as tbase
        import pamiq_core.thread.threads.control as tctl
        import pamiq_core.console.web_api as web
        import pamiq_core.state_persistence as sp
        s = self.sched
        fake_threading = _FakeThreadingModule(s, self)
        self._patch(tc, "threading", fake_threading)
        if hasattr(tc, "ThreadPoolExecutor"):
            self._patch(tc, "ThreadPoolExecutor",
                        lambda max_workers=None, **kw: FakeExecutor(s, self.name_thread_target, max_workers))
        if getattr(getattr(tc, "time", None), "__name__", "") == "time":   # a stdlib `time` import
            self._patch(tc, "time", _FakeStdlibTime(s, self.sc.loop_quantum if self.sc.timed else 0.0))
        self._patch(tbase, "threading", fake_threading)
        self._patch(tbase, "time", _FakeTimeModule(s, self.sc.loop_quantum if self.sc.timed else 0.0))
        self._patch(web, "threading", fake_threading)
        self._patch(web, "uvicorn", _FakeUvicorn(self))
        _FakeDatetime.n = 0
        self._patch(sp, "datetime", _FakeDatetime)
        # virtual real clock + a re-initialised global controller
        vt = VStdTime(s)
        self._patch(ptime, "_original_time", vt)
        self._patch(ptime, "fixed_time", vt.time)
        self._patch(ptime, "fixed_sleep", vt.sleep)
        ctl = ptime._time_controller
        self._saved_ctl_state = dict(ctl.__dict__)
        # the clock's own lock cooperates with the scheduler: never a scheduling point while uncontended
        # (no decisions are added), but a thread that finds it held blocks in the scheduler instead of
        # hanging the run (a sleep taken while holding it)
        self._patch(ptime, "RLock", lambda: FakeRLock(s, "clock_lock"))
        ctl.__init__()
        # observation wrappers (no behaviour change)
        H = self

        def wrap_time(name: str) -> None:
            orig = getattr(ptime, name)

            def w(*a: Any, **kw: Any) -> Any:
                s.point("clock_" + name)
                r = orig(*a, **kw)
                s.log("clock_" + name, "", a[0] if a else None)
                return r
            self._patch(ptime, name, w)
        for n in ("pause", "resume", "set_time_scale"):
            wrap_time(n)

        def wrap_method(cls: Any, name: str, label: str) -> None:
            orig = getattr(cls, name)

            def w(self_: Any, *a: Any, **kw: Any) -> Any:
                H.control_thread = self_ if cls is tctl.ControlThread else H.control_thread
                s.log(label + "_call", "", ptime._time_controller.time())
                if label == "save_state":
                    H.save_state_depth += 1
                try:
                    r = orig(self_, *a, **kw)
                except SchedAbort:
                    raise
                except BaseException as e:
                    s.log(label + "_raise", "", type(e).__name__)
                    raise
                finally:
                    if label == "save_state":
                        H.save_state_depth -= 1
                s.log(label + "_ret", "", r if isinstance(r, (bool, type(None))) else str(r))
                s.log("sysclock", label + "_ret", ptime._time_controller.time())
                return r
            self._patch(cls, name, w)
        wrap_method(tctl.ControlThread, "try_pause", "try_pause")
        wrap_method(tctl.ControlThread, "resume", "resume")
        wrap_method(tctl.ControlThread, "shutdown", "shutdown")
        wrap_method(tctl.ControlThread, "save_state", "save_state")

        orig_uptime = tctl.ControlThread.is_max_uptime_reached

        def uptime_getter(self_: Any) -> bool:
            v = orig_uptime.fget(self_)
            s.log("uptime_reached" if v else "uptime_check")
            return v
        self._patch(tctl.ControlThread, "is_max_uptime_reached", property(uptime_getter))

        orig_save = sp.StateStore.save_state

        def save_w(store: Any) -> Any:
            s.point("save_begin")
            s.log("save_begin")
            # launch()'s own, final, save is the store call outside ControlThread.save_state
            H.in_final_save = H.save_state_depth == 0 and not H.in_prelaunch
            try:
                p = orig_save(store)
            except SchedAbort:
                raise
            except BaseException as e:
                s.log("save_raise", "", type(e).__name__)
                raise
            H.saves.append({"path": str(p), "files": H.read_tree(Path(p)),
                            "event_index": len(s.events)})
            if H.sc.archive_states and not H.in_prelaunch:
                # the user archives old checkpoints by hand while the system runs: retention must cope
                olds = sorted(q for q in Path(p).parent.glob("*.state") if q != Path(p))
                if olds:
                    shutil.rmtree(olds[0], ignore_errors=True)
                    s.log("archived", olds[0].name)
            s.log("save_end", Path(p).name)
            s.log("sysclock", "save_end", ptime._time_controller.time())
            return p
        self._patch(sp.StateStore, "save_state", save_w)

        # data-flow observation for the SysData model (log only: no scheduling points are added)
        import pamiq_core.data.interface as di
        # the hand-over between collector and buffer at the granularity of its own lock: the collector's
        # lock cooperates with the scheduler, and the clock reading between the two appends of one
        # `collect` (sample, then timestamp) is a scheduling point - so a consumer can run *inside* a
        # collect exactly where the lock does not exclude it
        _FakeLock = FakeLock

        class _CollectorLock(_FakeLock):
            def __init__(self_) -> None:
                super().__init__(s, "collector_lock")

        class _DiTime:
            def __getattr__(self_, name: str) -> Any:
                return getattr(ptime, name)

            def time(self_) -> float:
                if _real_threading.get_ident() in s.by_ident and not s.aborted:
                    s.point("collect_ts")
                return ptime.time()
        if not getattr(self.sc, "coarse_data", False):
            self._patch(di, "RLock", _CollectorLock)
            self._patch(di, "time", _DiTime())
        orig_update = di.DataUser.update
        orig_dsave = di.DataUser.save_state
        H._in_data_save = False

        def update_w(self_: Any) -> Any:
            r = orig_update(self_)
            if not H._in_data_save:
                s.log("data", "update", len(self_._timestamps))
            return r

        def dsave_w(self_: Any, path: Any) -> Any:
            s.log("data", "write", "data")
            H._in_data_save = True
            try:
                return orig_dsave(self_, path)
            finally:
                H._in_data_save = False
                s.log("data", "saved_len", len(self_))
        self._patch(di.DataUser, "update", update_w)
        self._patch(di.DataUser, "save_state", dsave_w)
        orig_tsave = ptime.TimeController.save_state

        def tsave_w(self_: Any, path: Any) -> Any:
            s.log("data", "write", "time")
            return orig_tsave(self_, path)
        self._patch(ptime.TimeController, "save_state", tsave_w)

        # command queue observation
        import queue as _q

        class RecQueue(_q.Queue):
            # blocking variants cooperate with the scheduler instead of blocking the OS thread
            def put(q, item: Any, block: bool = True, timeout: Any = None) -> None:
                if block:
                    s.yield_(Pending("q_put", "", alts=lambda: ["go"] if not q.full() else
                                     (["timeout"] if timeout is not None else [])))
                _q.Queue.put(q, item, False)

            def get(q, block: bool = True, timeout: Any = None) -> Any:
                if block:
                    s.yield_(Pending("q_get", "", alts=lambda: ["go"] if not q.empty() else
                                     (["timeout"] if timeout is not None else [])))
                return _q.Queue.get(q, False)

            def put_nowait(q, item: Any) -> None:
                try:
                    _q.Queue.put_nowait(q, item)
                except _q.Full:
                    s.log("cmd_reject", item.name)
                    raise
                s.log("cmd_accept", item.name)

            def get_nowait(q) -> Any:
                item = _q.Queue.get_nowait(q)
                s.log("cmd_exec", item.name)
                return item
        self._patch(web, "Queue", RecQueue)

    def uninstall(self) -> None:
        import pamiq_core.time as ptime
        for obj, attr, old in reversed(self._restore):
            setattr(obj, attr, old)
        self._restore.clear()
        ptime._time_controller.__dict__.update(self._saved_ctl_state)
        shutil.rmtree(self.tmp, ignore_errors=True)

    @staticmethod
    def read_tree(root: Path) -> dict:
        out = {}
        for p in sorted(root.rglob("*")):
            rel = str(p.relative_to(root))
            if p.is_dir():
                out[rel + "/"] = None
            else:
                b = p.read_bytes()
                try:
                    out[rel] = repr(pickle.loads(b)) if p.suffix == ".pkl" else b.decode()
                except Exception:
                    out[rel] = f"<{len(b)} bytes>"
        return out

    # ---- run ------------------------------------------------------------------------------------------
    def run(self) -> RunResult:
        from pamiq_core import launch, LaunchConfig
        from pamiq_core.data.impls import SequentialBuffer
        from pamiq_core.interaction import Interaction
        import pamiq_core.time as ptime
        sc, s = self.sc, self.sched
        s.adopt_current("control")
        self.install()
        outcome = "?"
        post: dict = {}
        try:
            comps = build_components(self)
            keeper = None
            if sc.keeper_max_keep is not None:
                from pamiq_core.state_persistence import LatestStatesKeeper
                keeper = LatestStatesKeeper(self.tmp / "states", sc.keeper_max_keep)
                if sc.custom_keeper:
                    from pamiq_core.state_persistence import StatesKeeper

                    class LazyKeeper(StatesKeeper):
                        """The same policy written by a user: `select_removal_states` is declared to return an
                        Iterable - here a generator that hands out the oldest tracked states one by one."""

                        def __init__(self, states_dir: Path, max_keep: int) -> None:
                            super().__init__()
                            self.max_keep = max_keep
                            states_dir.mkdir(parents=True, exist_ok=True)
                            self._paths = sorted(states_dir.glob("*.state"), key=lambda p: p.stat().st_mtime)

                        def append(self, path: Path) -> None:
                            self._paths.append(path)

                        def select_removal_states(self):
                            while len(self._paths) > self.max_keep:
                                yield self._paths.pop(0)
                    keeper = LazyKeeper(self.tmp / "states", sc.keeper_max_keep)
                _orig_cleanup = keeper.cleanup

                def _cleanup_w(*a: Any, **kw: Any) -> Any:
                    r = _orig_cleanup(*a, **kw)
                    if not self.in_prelaunch:
                        s.log("cleanup_listing", "", sorted(p.name for p in (self.tmp / "states").glob("*.state")))
                    return r
                keeper.cleanup = _cleanup_w     # observation only

            def save_cond() -> bool:
                i = self.save_cond_calls
                self.save_cond_calls += 1
                v = sc.save_condition[i] if i < len(sc.save_condition) else False
                if v == "raise":
                    s.log("savecond_raise")
                    raise InjectedFault("save condition")
                s.log("savecond_eval", "", bool(v))
                if v:
                    s.log("savecond", "", True)
                return bool(v)

            saved_state_path = None
            if sc.prelaunch:
                self.in_prelaunch = True
                try:
                    launch(comps["interaction"], {}, {"buf": SequentialBuffer(8)}, comps["trainers"],
                           LaunchConfig(states_dir=self.tmp / "states", web_api_address=("localhost", 8391),
                                        web_api_command_queue_size=1,
                                        max_attempts_to_pause_all_threads=sc.max_attempts))
                except SchedAbort as e:
                    # the preparatory launch itself could not be brought to an end (its shutdown command is
                    # never carried out): the scenario proper is not run
                    s.log("launch_aborted", "", f"aborted:prelaunch {e}")
                    return RunResult(events=s.events, outcome=f"aborted:prelaunch {e}", schedule=list(s.taken),
                                     states_dir_listing=[], saves=self.saves, post={}, decisions=s.decisions,
                                     sched_abort=f"prelaunch: {e}", times=s.times,
                                     pending_at_abort=dict(getattr(s, "pending_at_abort", {}) or {}))
                self.in_prelaunch = False
                s.now += float(sc.downtime)
                saved_state_path = sorted((self.tmp / "states").glob("*.state"))[-1]
                self.prelaunch_files = self.read_tree(saved_state_path)
                # forget the preparatory run: fresh components, fresh trace
                del s.events[:]
                del s.times[:]
                self.saves.clear()
                self.cb_counts.clear()
                self.threads_by_status.clear()
                if not sc.reuse_components:
                    comps = build_components(self)
                s.log("prelaunch_done", str(saved_state_path.name))
                s.log("data", "init", self.prelaunch_files)
            cfg = LaunchConfig(
                saved_state_path=saved_state_path,
                states_dir=self.tmp / "states", save_state_condition=save_cond,
                states_keeper=keeper, timeout_for_all_threads_pause=sc.pause_timeout,
                max_attempts_to_pause_all_threads=sc.max_attempts, max_uptime=sc.max_uptime,
                web_api_address=("localhost", 8391), web_api_command_queue_size=sc.queue_size,
                log_tick_time_statistics_interval=sc.log_interval, time_scale=sc.time_scale)
            s.boot_interrupt = sc.boot_interrupt
            if sc.pre_scale != 1.0:
                ptime.set_time_scale(sc.pre_scale)
            try:
                launch(comps["interaction"], {}, {"buf": SequentialBuffer(8)},
                       comps["trainers"], cfg)
                outcome = "returned"
            except SchedAbort as e:
                outcome = f"aborted:{e}"
            except KeyboardInterrupt:
                outcome = "raised:KeyboardInterrupt"
            except BaseException as e:
                import os as _os
                if _os.environ.get("PAMIQ_VERIF_TRACE"):
                    import traceback
                    traceback.print_exc()
                outcome = f"raised:{type(e).__name__}"
            s.log("launch_" + outcome.split(":")[0], "", outcome)
            if not outcome.startswith("aborted"):
                post = {"clock_paused": ptime._time_controller._is_paused,
                        "time_scale": ptime._time_controller._time_scale,
                        "alive": [t.name for t in s.threads
                                  if t.name in ("inference", "training") and not t.done]}
        finally:
            s.finish("end")
            listing = sorted(p.name for p in (self.tmp / "states").glob("*")) \
                if (self.tmp / "states").exists() else []
            self.uninstall()
        if s.aborted and s.aborted not in ("end", "all threads finished") and outcome == "?":
            outcome = "aborted:" + s.aborted
        if s.abort_index is not None:
            del s.events[s.abort_index:]        # whatever unwinding threads logged after the cut
            del s.times[s.abort_index:]
        return RunResult(events=s.events, outcome=outcome, schedule=list(s.taken),
                         states_dir_listing=listing, saves=self.saves, post=post,
                         decisions=s.decisions,
                         sched_abort=None if s.aborted in ("end", "all threads finished") else s.aborted,
                         times=s.times, pending_at_abort=dict(s.pending_at_abort))


class _Cb:
    """`with H.cb(comp, name):` — begin/end events, optional virtual duration, fault injection."""

    def __init__(self, H: Harness, comp: str, name: str) -> None:
        self.H, self.comp, self.name = H, comp, name

    def __enter__(self) -> None:
        H, s = self.H, self.H.sched
        key = (self.comp, self.name)
        H.cb_counts[key] = H.cb_counts.get(key, 0) + 1
        self.k = H.cb_counts[key]
        s.point("cb_begin", f"{self.comp}.{self.name}")
        s.log("cb_begin", f"{self.comp}.{self.name}", self.k)
        d = H.sc.durations.get(self.name, 0.0)
        if d:
            try:
                s.sleep(d, "cb_run", f"{self.comp}.{self.name}")
            except KeyboardInterrupt:
                s.log("cb_raise", f"{self.comp}.{self.name}", "interrupt")
                raise

    def __exit__(self, et: Any, ev: Any, tb: Any) -> bool:
        H, s = self.H, self.H.sched
        if et is not None:
            if not issubclass(et, SchedAbort):
                s.log("cb_raise", f"{self.comp}.{self.name}", "propagated")
            return False
        try:
            s.point("cb_end", f"{self.comp}.{self.name}")
        except KeyboardInterrupt:
            s.log("cb_raise", f"{self.comp}.{self.name}", "interrupt")
            raise
        for f in ([] if H.in_prelaunch else H.sc.faults):     # the preparatory launch runs fault-free
            if f["comp"] == self.comp and f["cb"] == self.name and \
                    (f["k"] == self.k or (f["k"] == "final" and getattr(H, "in_final_save", False))):
                s.log("cb_raise", f"{self.comp}.{self.name}", self.k)
                # every second injected fault is an exception that cannot be formatted
                if (self.k + len(self.comp)) % 2 == 0:
                    raise WeirdFault(f"{self.comp}.{self.name}#{self.k}")
                if self.name == "save":
                    raise InjectedOSError(28, f"No space left on device ({self.comp}.{self.name}#{self.k})")
                raise InjectedFault(f"{self.comp}.{self.name}#{self.k}")
        s.log("cb_end", f"{self.comp}.{self.name}", self.k)
        return False


def build_components(H: Harness) -> dict:
    from pamiq_core.interaction import Agent, Environment, Interaction
    from pamiq_core.trainer import Trainer

    class RecAgent(Agent):
        def __init__(self, name: str, children: dict | None = None) -> None:
            super().__init__(children)
            self.name = name
            self.steps = 0
            self.collector = None

        def on_data_collectors_attached(self) -> None:
            if self.name == "agent":
                self.collector = self.get_data_collector("buf")

        def setup(self) -> None:
            with H.cb(self.name, "setup"):
                pass
            super().setup()

        def teardown(self) -> None:
            with H.cb(self.name, "teardown"):
                pass
            super().teardown()

        def step(self, observation: Any) -> Any:
            with H.cb(self.name, "step"):
                self.steps += 1
                if self.collector is not None:
                    self.collector.collect(self.steps)
                if self.name == "agent":
                    H.sched.log("data", "agentStep", self.steps)
            for c in self._agents.values():
                c.step(observation)
            return self.steps

        def on_paused(self) -> None:
            with H.cb(self.name, "on_paused"):
                pass
            super().on_paused()

        def on_resumed(self) -> None:
            with H.cb(self.name, "on_resumed"):
                pass
            super().on_resumed()

        def save_state(self, path: Path) -> None:
            with H.cb(self.name, "save"):
                path.mkdir()
                (path / "steps").write_text(str(self.steps))
                if self.name == "agent":
                    H.sched.log("data", "write", "agent")
            super().save_state(path)

        def load_state(self, path: Path) -> None:
            with H.cb(self.name, "load"):
                self.steps = int((path / "steps").read_text())
                H.sched.log("loaded_steps", self.name, self.steps)
            super().load_state(path)

    class RecEnv(Environment):
        name = "env"

        def __init__(self) -> None:
            self.observed = 0
            self.affected = 0

        def setup(self) -> None:
            with H.cb("env", "setup"):
                pass

        def teardown(self) -> None:
            with H.cb("env", "teardown"):
                pass

        def observe(self) -> Any:
            with H.cb("env", "observe"):
                self.observed += 1
                H.sched.log("data", "envObserve", self.observed)
            return self.observed

        def affect(self, action: Any) -> None:
            with H.cb("env", "affect"):
                self.affected += 1
                H.sched.log("data", "envAffect", self.affected)

        def on_paused(self) -> None:
            with H.cb("env", "on_paused"):
                pass

        def on_resumed(self) -> None:
            with H.cb("env", "on_resumed"):
                pass

        def save_state(self, path: Path) -> None:
            with H.cb("env", "save"):
                path.mkdir()
                (path / "counts").write_text(f"{self.observed},{self.affected}")
                H.sched.log("data", "write", "env")

        def load_state(self, path: Path) -> None:
            with H.cb("env", "load"):
                o, a = (path / "counts").read_text().split(",")
                self.observed, self.affected = int(o), int(a)

    class RecTrainer(Trainer):
        def __init__(self, name: str, conditioned: bool) -> None:
            super().__init__("buf" if conditioned else None, 1 if conditioned else 0,
                             1 if conditioned else 0)
            self.name = name
            self.runs = 0
            self.seen = -1

        def on_data_users_attached(self) -> None:
            self.user = self.get_data_user("buf")

        def setup(self) -> None:
            with H.cb(self.name, "t_setup"):
                pass

        def train(self) -> None:
            with H.cb(self.name, "train"):
                self.runs += 1
                H.sched.log("data", "trainRun", int(self.name[7:]))
                self.seen = len(self.user.get_data())
                if H.sc.train_clock_sleep and not H.in_prelaunch:
                    import pamiq_core.time as _pt
                    _pt.sleep(float(H.sc.train_clock_sleep))     # user code waiting on the system clock

        def teardown(self) -> None:
            with H.cb(self.name, "t_teardown"):
                pass

        def on_paused(self) -> None:
            with H.cb(self.name, "on_paused"):
                pass

        def on_resumed(self) -> None:
            with H.cb(self.name, "on_resumed"):
                pass

        def save_state(self, path: Path) -> None:
            with H.cb(self.name, "save"):
                super().save_state(path)
                (path / "runs").write_text(str(self.runs))
                H.sched.log("data", "write", f"trainer {int(self.name[7:])}")
                u = getattr(self, "user", None)
                if u is not None:
                    # a trainer may well record something about its data (the size of the dataset it was trained
                    # on so far): what it sees while the state is written is what the state's buffer file holds
                    (path / "dataset_size").write_text(str(len(u)))
                    H.sched.log("data", "trainer_sees", len(u))

        def load_state(self, path: Path) -> None:
            with H.cb(self.name, "load"):
                super().load_state(path)

    children = {"child": RecAgent("child")} if H.sc.child_agent else None
    agent = RecAgent("agent", children)
    env = RecEnv()
    trainers = {f"trainer{i}": RecTrainer(f"trainer{i}", H.sc.conditioned and i == 0)
                for i in range(H.sc.trainers)}
    H.agent, H.env, H.trainer_objs = agent, env, trainers
    if H.sc.fixed_interval:
        from pamiq_core.interaction import FixedIntervalInteraction
        inter = FixedIntervalInteraction.with_sleep_adjustor(agent, env, float(H.sc.fixed_interval),
                                                             float(H.sc.interval_offset))
    elif H.sc.swap_env:
        # `interaction.environment = …` after construction (a user decorating or replacing the environment):
        # the public attribute is what the framework steps, sets up, pauses and tears down
        class _Placeholder(Environment):
            def observe(self) -> Any:
                return None

            def affect(self, action: Any) -> None:
                pass
        inter = Interaction(agent, _Placeholder())
        inter.environment = env
    else:
        inter = Interaction(agent, env)
    return {"interaction": inter, "trainers": trainers}


def run_scenario(scenario: Scenario | dict, schedule: list[int] | None = None,
                 seed: int = 0) -> RunResult:
    if isinstance(scenario, dict):
        scenario = Scenario.from_json(scenario)
    h = Harness(scenario, schedule, seed)
    return h.run()
