"""Shared body of the system-level checks (C01, C02, C03, C04, C08, C09, C17): real `launch()` under
the deterministic scheduler, trace refinement against the Lean model `Pamiq.Proto`, property monitor.
"""
from __future__ import annotations

import json
import logging
import multiprocessing as mp
import os
import random
import sys
from pathlib import Path

sys.path.insert(0, str(Path(__file__).resolve().parent))
from framework import (Ctx, Disagreement, Driver, SuiteResult, Violation, corpus_cases,
                       setup_repo_path)

PROTO_LABELS_TOTAL = 62   # action constructors of Pamiq.Proto: 14 background + 33 control/worker + 3 callback actions x 5 kinds


def _one(args):
    """Run one scenario (in a worker or inline): returns a JSON-able summary."""
    prop, sc, schedule, seed, want_follow = args
    setup_repo_path()
    logging.disable(logging.CRITICAL)
    import monitors
    import protofollow
    from sysharness import run_scenario
    try:
        res = run_scenario(sc, schedule, seed=seed)
    except Exception:
        raise
    except BaseException as e:      # a pool worker that dies of a BaseException makes Pool.map wait for ever
        raise RuntimeError(f"harness run ended with {type(e).__name__}: {e} (scenario {json.dumps(sc)[:300]})") from None
    for e in res.events:
        if e[0] == "webapi" and e[1] == "exit" and e[3] is not None:
            raise RuntimeError(f"harness client thread died of {e[3]} (infrastructure error)")
    vs = monitors.ALL[prop](res, sc) if prop in monitors.ALL else []
    extra = EXTRA_MONITORS.get(prop)
    if extra:
        vs += extra(res, sc)
    div, labels, nact = (None, set(), 0)
    tick_div, n_ticks = None, 0
    cov_pairs: list[str] = []
    data_follow = None
    if want_follow:
        global _DRIVER
        if _DRIVER is None:
            _DRIVER = Driver()
        div, labels, nact = protofollow.follow(_DRIVER, res.events, sc.get("max_attempts", 2))
        cov_pairs = list(protofollow.LAST_COV)
        import tickfollow
        tick_div, n_ticks = tickfollow.follow(_DRIVER, res.events)
        if prop in DATA_FOLLOW and div is None:
            import sysdatafollow
            ddiv, mism, dn = sysdatafollow.follow(_DRIVER, res.events, res.saves, sc.get("max_attempts", 2),
                                                  sc.get("trainers", 0))
            data_follow = {"divergence": ddiv, "mismatches": mism, "actions": dn,
                           "saves": len(res.saves)}
    kinds = {e[1] for e in res.events}
    feats = []
    if any(e[1] == "try_pause_ret" and e[3] is True for e in res.events): feats.append("pause-acked")
    if any(e[1] == "try_pause_ret" and e[3] is False for e in res.events): feats.append("pause-failed")
    if any(e[0].startswith("worker[") and e[1] == "wait_timeout" for e in res.events): feats.append("attempt-timeout")
    if sum(1 for e in res.events if e[1] == "save_end") >= 2: feats.append("runtime-save")
    if "cb_raise" in kinds: feats.append("fault")
    if "interrupt" in kinds: feats.append("interrupt")
    if any(e[1] == "resume_call" for e in res.events): feats.append("resume")
    if any(e[1] == "http" and e[2] == "GET /api/status" for e in res.events): feats.append("status")
    if any(e[1] == "cmd_reject" for e in res.events): feats.append("queue-full")
    if any(e[1] == "bLeaveBack" for e in res.events): feats.append("leave-back")
    if any(e[0] in ("inference", "training") and e[1] == "read" and e[2] == "resume" and e[3] is False
           for e in res.events): feats.append("bg-saw-pause")
    return {"scenario": sc, "schedule": res.schedule, "outcome": res.outcome,
            "violations": [(v.key, v.what, v.case) for v in vs], "divergence": div,
            "labels": sorted(labels), "actions": nact, "features": feats,
            "decisions": res.decisions, "events": len(res.events), "abort": res.sched_abort,
            "data_follow": data_follow, "tick_div": tick_div, "ticks": n_ticks, "cov": cov_pairs}


_DRIVER = None
EXTRA_MONITORS: dict = {}
DATA_FOLLOW = {"C04"}      # properties whose traces are also replayed through Pamiq.SysData


def _init_worker() -> None:
    """Each pool worker talks to its own model driver process (never the parent's pipes)."""
    global _DRIVER
    _DRIVER = None


def run_many(ctx: Ctx, prop: str, jobs: list, res: SuiteResult, want_follow: bool = True) -> None:
    """jobs: list of (scenario, schedule|None, seed)."""
    args = [(prop, sc, sched, seed, want_follow and ctx.driver is not None) for sc, sched, seed in jobs]
    nproc = int(os.environ.get("VERIF_JOBS", "12" if ctx.tier == "thorough" else "4"))
    if nproc > 1 and len(args) > 40:
        with mp.get_context("fork").Pool(nproc, initializer=_init_worker) as pool:
            outs = pool.map(_one, args, chunksize=8)
    else:
        outs = [_one(a) for a in args]
    labels = set(res.extra.get("proto_labels", []))
    pairs = set(res.extra.get("proto_action_at_pc_pairs", []))
    for o in outs:
        pairs |= set(o.get("cov", []))
        res.evaluations += 1
        res.hit("outcome:" + o["outcome"].split(":")[0] + (":" + o["abort"].split(":")[0] if o["abort"] else ""))
        for f in o["features"]:
            res.hit("feature:" + f)
        if o["features"]:
            res.nontrivial.add((json.dumps(o["scenario"], sort_keys=True), len(o["schedule"]),
                                tuple(o["schedule"][:40])))
        labels |= set(o["labels"])
        res.extra["proto_actions_followed"] = res.extra.get("proto_actions_followed", 0) + o["actions"]
        for key, what, case in o["violations"]:
            res.violations.append(Violation(key, what, case))
        if o["divergence"] is not None:
            d = o["divergence"]
            res.disagreements.append(Disagreement(
                res.name, f"implementation event #{d['event_index']} {d['event']} (model action "
                f"`{d['action']}`) is not allowed by Pamiq.Proto: {d['model'][:300]}",
                {"scenario": o["scenario"], "schedule": o["schedule"]}))
        res.extra["control_ticks_compared"] = res.extra.get("control_ticks_compared", 0) + o.get("ticks", 0)
        if o.get("tick_div") is not None:
            d = o["tick_div"]
            res.disagreements.append(Disagreement(
                res.name, f"control tick #{d['tick']} `{d['line']}`: the implementation did "
                f"{d['implementation']}, Pamiq.Tick says {d['model']}",
                {"scenario": o["scenario"], "schedule": o["schedule"]}))
        df = o.get("data_follow")
        if df is not None:
            res.extra["sysdata_actions_followed"] = res.extra.get("sysdata_actions_followed", 0) + df["actions"]
            res.extra["sysdata_snapshots_compared"] = res.extra.get("sysdata_snapshots_compared", 0) + df["saves"]
            if df["divergence"] is not None:
                d = df["divergence"]
                res.disagreements.append(Disagreement(
                    res.name, f"implementation event #{d['event_index']} {d['event']} (model action "
                    f"`{d['action']}`) is not allowed by Pamiq.SysData: {d['model'][:300]}",
                    {"scenario": o["scenario"], "schedule": o["schedule"]}))
            for m in df["mismatches"][:3]:
                res.disagreements.append(Disagreement(
                    res.name, "saved files differ from the snapshot predicted by Pamiq.SysData: " + m,
                    {"scenario": o["scenario"], "schedule": o["schedule"]}))
        res.sample({"scenario": o["scenario"], "schedule_len": len(o["schedule"]),
                    "outcome": o["outcome"], "features": o["features"]})
    n_budget = res.histogram.get("outcome:aborted:budget", 0)
    if res.evaluations >= 50 and n_budget > res.evaluations // 2:
        raise RuntimeError(f"{n_budget} of {res.evaluations} runs exhausted the step budget: the harness "
                           f"is not making progress (infrastructure error)")
    res.extra["proto_labels"] = sorted(labels)
    res.extra["proto_action_at_pc_pairs"] = sorted(pairs)
    res.extra["proto_action_at_pc_coverage"] = (f"{len(pairs)} distinct (action, program counter of the acting thread) "
                                                f"pairs of Pamiq.Proto exercised against the code")
    res.extra["proto_transition_coverage"] = f"{len(labels)}/{PROTO_LABELS_TOTAL}"


def make_suites(prop: str, focuses: list[tuple[str, int, int]], rule: str):
    """focuses: [(focus, quick_n, thorough_n)]"""
    from sysgen import gen_scenario

    def suite_corpus(ctx: Ctx) -> SuiteResult:
        res = SuiteResult(f"{prop}-corpus", rule="committed minimised past failures (scenario + schedule), "
                                                  "replayed first; non-trivial = exercises a pause/save/fault")
        jobs = [(c["case"]["scenario"], c["case"].get("schedule"), 0) for c in corpus_cases(prop)
                if "scenario" in c["case"]]
        # the shared protocol corpus (findings F1-F3, F10 witnesses) is replayed by every Proto check
        jobs += [(c["case"]["scenario"], c["case"].get("schedule"), 0) for c in corpus_cases("PROTO")]
        run_many(ctx, prop, jobs, res)
        return res

    def suite_random(ctx: Ctx) -> SuiteResult:
        res = SuiteResult(f"{prop}-random-schedules", rule=rule)
        jobs = []
        for focus, nq, nt in focuses:
            for _ in range(ctx.n(nq, nt)):
                jobs.append((gen_scenario(ctx.rng, focus), None, ctx.rng.randrange(1 << 30)))
        run_many(ctx, prop, jobs, res)
        return res

    return [suite_corpus, suite_random]


def suite_fakes(ctx: Ctx) -> SuiteResult:
    """The deterministic scheduler's fake Event / Lock / Thread / ThreadPoolExecutor against the real ones."""
    import fakecheck
    res = SuiteResult("fake-primitives-vs-real-threading",
                      rule="9 small multi-thread programs around the semantics the handshake relies on (notified "
                           "waiter returns True after clear, wait on a set flag, clear/set races, lock hand-over, "
                           "try-lock, exception in a Thread, Future.result re-raising, executor exit joining): "
                           "every schedule of the fakes enumerated (S_fake), real threads with random real delays "
                           "and real time-outs (S_real); required S_real within S_fake; non-trivial = all")
    r = fakecheck.check(reps=ctx.n(6, 60), seed=ctx.seed)
    res.evaluations = r["fake_runs"] + r["real_runs"]
    for rep in r["report"]:
        res.nontrivial.add(rep["program"])
        res.hit(f"{rep['program']}:fake={rep['fake_outcomes']},real={rep['real_outcomes']}")
    for pb in r["problems"]:
        if "('hung',)" in pb:
            res.hit("real-run-hung(inconclusive)")
            continue
        res.disagreements.append(Disagreement(res.name, pb, {"fakecheck": True}))
    res.sample(r["report"][0])
    return res


def make_search(prop: str, focuses: list[str]):
    from sysgen import gen_scenario

    def search(ctx: Ctx, disagreements, broken):
        res = SuiteResult("search")
        jobs = [(d.case["scenario"], d.case.get("schedule"), 0) for d in disagreements[:50] if "scenario" in d.case]
        run_many(ctx, prop, jobs, res, want_follow=False)
        if res.violations:
            return res.violations
        rng = random.Random(ctx.seed + 99)
        jobs = []
        for f in focuses:
            for _ in range(ctx.n(1500, 8000)):
                jobs.append((gen_scenario(rng, f), None, rng.randrange(1 << 30)))
        run_many(ctx, prop, jobs, res, want_follow=False)
        return res.violations
    return search


def make_replay(prop: str):
    def replay(ctx: Ctx, payload: dict) -> SuiteResult:
        res = SuiteResult("replay")
        case = payload.get("case") or payload.get("first_disagreement")
        run_many(ctx, prop, [(case["scenario"], case.get("schedule"), 0)], res)
        return res
    return replay


PROTO_ASSUMPTIONS = [
    "the OS schedules every runnable thread eventually (fairness) and user callbacks terminate",
    "between two primitive operations (Event/lock operation, callback boundary) a thread touches no "
    "shared protocol state; CPython threading.Event / Lock / ThreadPoolExecutor semantics are "
    "reproduced by the fakes in harness/detsched.py",
    "an asynchronous KeyboardInterrupt is delivered inside the control loop and in the start-up section of "
    "launch() (at each of the three thread starts), not inside the `finally` clean-up of "
    "launch()/Thread.run (DESIGN §7.2, partial)",
    "durations are covered by nondeterministic time-outs (untimed mode) plus a discrete-event timed "
    "mode; real-time bounds rest on Event.wait's contract",
]
PROTO_TRUSTED = [
    "deterministic scheduler and fake primitives (harness/detsched.py), system harness "
    "(harness/sysharness.py: substituted threading/time/uvicorn/Queue/datetime, observation wrappers)",
    "projection of implementation events onto the model alphabet (harness/protofollow.py)",
]
