/-! ### semantics of the four effects -/
@[simp] theorem call_run (n : String) (w : W) :
    call n w = some ((), { w with log := w.log ++ [(n, none)] }) := rfl
@[simp] theorem ask_run_cons (n : String) (a : Bool) (rest : List Bool) (r : Bool) (c : List Tick.Cmd) (l) :
    ask n { running := r, ans := a :: rest, cmds := c, log := l } =
      some (a, { running := r, ans := rest, cmds := c, log := l ++ [(n, some a)] }) := rfl
@[simp] theorem hasCmds_run (w : W) : hasCmds w = some (!w.cmds.isEmpty, w) := rfl
@[simp] theorem recv_run_cons (c : Tick.Cmd) (rest : List Tick.Cmd) (r : Bool) (a : List Bool) (l) :
    recv { running := r, ans := a, cmds := c :: rest, log := l } =
      some (c, { running := r, ans := a, cmds := rest, log := l ++ [("receive_command", none)] }) := rfl

/-- unfolding of the state monad over `Option` -/
macro "st_simp" "[" ts:Lean.Parser.Tactic.simpLemma,* "]" : tactic =>
  `(tactic| simp [$ts,*, bind, StateT.bind, pure, StateT.pure, modify, modifyGet, MonadStateOf.modifyGet,
      StateT.modifyGet, get, getThe, MonadStateOf.get, StateT.get, set, StateT.set, failure, StateT.failure,
      Alternative.failure, StateT.run])
abbrev Log := List (String × Option Bool)

namespace Flat
--%GEN%

def sdLog : Log := [("time.resume", none), ("controller.shutdown", none)]

def renderEv : Tick.Ev → Log
  | .exec .pause => [("receive_command", none), ("self.try_pause", none)]
  | .exec .resume => [("receive_command", none), ("self.resume", none)]
  | .exec .save => [("receive_command", none), ("self.save_state", none)]
  | .exec .shutdown => [("receive_command", none)]
  | .shutdown => sdLog
  | .saveCond v => [("save_state_condition", some v)]
  | .saveState => [("self.save_state", none)]
  | .uptime v => [("is_max_uptime_reached", some v)]
  | .readExc _ _ => []

def render (l : List Tick.Ev) : Log := l.flatMap renderEv

@[simp] theorem shutdown_run (cfg : Cfg) (w : W) :
    (shutdown cfg).run w = some ((), { w with running := false, log := w.log ++ sdLog }) := by
  st_simp [shutdown, on_resumed, sdLog]

theorem render_append (a b : List Tick.Ev) : render (a ++ b) = render a ++ render b := by simp [render]

/-- **The drain loop is `Tick.drain`**: with enough fuel (more than the queue length) the `while` of
`process_received_web_api_commands` carries out the waiting commands oldest first; a `SHUTDOWN` ends the
method (not only the loop: the continuation is dropped), an empty queue hands over to the continuation. -/
theorem drain_loop (cfg : Cfg) (k : M Unit) (q : List Tick.Cmd) :
    ∀ (fuel : Nat) (r : Bool) (a : List Bool) (l : Log), q.length < fuel →
      process_received_web_api_commands_while1 cfg k fuel { running := r, ans := a, cmds := q, log := l } =
        if (Tick.drain q).1.contains .shutdown then
          some ((), { running := false, ans := a, cmds := (Tick.drain q).2, log := l ++ render (Tick.drain q).1 })
        else k { running := r, ans := a, cmds := [], log := l ++ render (Tick.drain q).1 } := by
  induction q with
  | nil =>
    intro fuel r a l h
    obtain ⟨f, rfl⟩ : ∃ f, fuel = f + 1 := ⟨fuel - 1, by simp at h; omega⟩
    st_simp [process_received_web_api_commands_while1, Tick.drain, render]
  | cons c rest ih =>
    intro fuel r a l h
    obtain ⟨f, rfl⟩ : ∃ f, fuel = f + 1 := ⟨fuel - 1, by simp at h; omega⟩
    have hf : rest.length < f := by simp at h; omega
    cases c <;>
      st_simp [process_received_web_api_commands_while1, Tick.drain, render, renderEv, ih f _ _ _ hf, sdLog,
        shutdown, on_resumed] <;>
      split <;> simp_all [render, renderEv]

theorem drain_left_nil (q : List Tick.Cmd) (h : Tick.Ev.shutdown ∉ (Tick.drain q).1) :
    (Tick.drain q).2 = [] := by
  induction q with
  | nil => rfl
  | cons c rest ih => cases c <;> simp_all [Tick.drain]

theorem readFlags_any (t : Nat) (l : List Bool) : (Tick.readFlags t l).2 = l.any id := by
  induction l generalizing t with
  | nil => rfl
  | cons v rest ih => simp [Tick.readFlags, ih]

/-- What `on_tick` finds, as the world it runs in: the three answers it asks for, in source order. -/
def world (i : Tick.In) : W :=
  { running := true, ans := [i.saveCond, i.exc.any id, i.uptime], cmds := i.queue, log := [] }

def cleanupLog (cfg : Cfg) : Log := if cfg.hasKeeper then [("states_keeper.cleanup", none)] else []

/-- **`ControlThread.on_tick`, as translated from the source, is `Tick.tick`**: for every save-condition
value, command queue, set of exception flags and uptime outcome the translated method ends normally, has asked
exactly its three questions, leaves in the queue what `Tick.tick` leaves, has cleared `_running` exactly when
`Tick.tick` says the loop stops, and its call log is the rendering of `Tick.tick`'s events (save condition,
save, [retention clean-up], drained commands, the exception check, shutdown, uptime test, shutdown). -/
theorem on_tick_is_tick (cfg : Cfg) (i : Tick.In) (hweb : cfg.hasWeb = true ∨ i.queue = []) :
    on_tick cfg (world i) = some ((),
      { running := !(Tick.tick i).stopped, ans := [], cmds := (Tick.tick i).left,
        log := render ([Tick.Ev.saveCond i.saveCond] ++ (if i.saveCond then [Tick.Ev.saveState] else []))
          ++ cleanupLog cfg ++ render (Tick.drain i.queue).1
          ++ [("thread_statuses_monitor.check_exception_raised", some (i.exc.any id))]
          ++ render ((if i.exc.any id then [Tick.Ev.shutdown] else [])
                      ++ [Tick.Ev.uptime i.uptime] ++ (if i.uptime then [Tick.Ev.shutdown] else [])) }) := by
  obtain ⟨sc, q, exc, up⟩ := i
  have hl := drain_left_nil q
  have hd := fun k r a l => drain_loop cfg k q (q.length + 1) r a l (Nat.lt_succ_self _)
  rcases hweb with hweb | hq
  · by_cases hs : Tick.Ev.shutdown ∈ (Tick.drain q).1 <;> cases sc <;> cases hk : cfg.hasKeeper <;>
      cases hr : exc.any id <;> cases up <;>
      st_simp [on_tick, world, process_received_web_api_commands, hweb, hk, hr, hd, hs, Tick.tick, readFlags_any,
        cleanupLog, render, renderEv, sdLog, shutdown, on_resumed] <;>
      simp_all
  · subst hq
    cases hw : cfg.hasWeb <;> cases sc <;> cases hk : cfg.hasKeeper <;> cases hr : exc.any id <;> cases up <;>
      st_simp [on_tick, world, process_received_web_api_commands, process_received_web_api_commands_while1, hw, hk, hr,
        Tick.tick, Tick.drain, readFlags_any, cleanupLog, render, renderEv, sdLog, shutdown, on_resumed] <;>
      simp_all

end Flat

/-! ### `ThreadStatusesMonitor.check_exception_raised`: the question `on_tick` asks -/
namespace Mon
--%GEN_MON%
def renderFlags (t : Nat) : List Bool → Log
  | [] => []
  | v :: rest => ("statuses[" ++ toString t ++ "].is_exception_raised", some v) :: renderFlags (t + 1) rest

theorem loop_reads_all (cfg : Cfg) (k : Bool → M Bool) :
    ∀ (fl : List Bool) (i : Nat) (acc r : Bool) (rest : List Bool) (c : List Tick.Cmd) (l : Log),
      check_exception_raised_for1 cfg k fl.length i acc { running := r, ans := fl ++ rest, cmds := c, log := l } =
        k (acc || fl.any id) { running := r, ans := rest, cmds := c, log := l ++ renderFlags i fl } := by
  intro fl
  induction fl with
  | nil => intro i acc r rest c l; simp [check_exception_raised_for1, renderFlags]
  | cons v fl ih =>
    intro i acc r rest c l
    cases v <;>
      simp [check_exception_raised_for1, renderFlags, bind, StateT.bind, pure, StateT.pure, ih, List.append_assoc]

/-- **`check_exception_raised()`, as translated from the source, is `Tick.readFlags`**: every status is asked, in
order, whatever the earlier ones answered (no early exit), and the result is whether any flag was set - the single
answer `on_tick_is_tick` takes for this call. -/
theorem check_exception_raised_is_readFlags (cfg : Cfg) (fl : List Bool) (h : cfg.nStatuses = fl.length)
    (r : Bool) (rest : List Bool) (c : List Tick.Cmd) (l : Log) :
    check_exception_raised cfg { running := r, ans := fl ++ rest, cmds := c, log := l } =
      some ((Tick.readFlags 0 fl).2, { running := r, ans := rest, cmds := c, log := l ++ renderFlags 0 fl }) := by
  simp [check_exception_raised, h, loop_reads_all, Flat.readFlags_any, pure, StateT.pure]

end Mon
