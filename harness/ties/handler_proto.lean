/-! ## `ControllerCommandHandler` interpreted over a background thread's graph of `Proto` -/
namespace BI

inductive Err | outOfAnswers | offGraph
deriving DecidableEq, Repr

/-- the thread's record, and what the environment will show it at its reads and waits (consumed in order) -/
structure W where
  th : Proto.BThread
  ans : List Bool

abbrev M := StateT W (Except Err)

/-- fuel or answers exhausted: no statement about this run -/
def failure {α : Type} : M α := throw Err.outOfAnswers

def nextAns : M Bool := do
  let w ← get
  match w.ans with
  | a :: rest => set { w with ans := rest }; pure a
  | [] => throw Err.outOfAnswers

/-- one action of the thread in `Proto`, with the flag values it sees; leaving the graph is `offGraph` -/
def stepb (a : Proto.Act) (res : Bool := false) (sd : Bool := false) : M Unit := do
  let w ← get
  match Proto.bedge w.th a res sd with
  | some th' => set { w with th := th' }
  | none => throw Err.offGraph

/-- the user's hook of this kind (the environment says whether the thread has one) -/
def hook (k : Proto.CbKind) : M Unit := do
  if (← nextAns) then do
    stepb (.bCbBegin 0 k)
    stepb (.bCbEnd 0 k)

/-- the thread's `on_paused`: the user's hook, then the paused flag (what `Hooks.*.on_paused_is` prove of the source) -/
def onPaused : M Unit := do
  hook .pausedHook
  stepb (.bSetPaused 0)

/-- the thread's `on_resumed`: the paused flag cleared, then the user's hook (`Hooks.*.on_resumed_is`) -/
def onResumed : M Unit := do
  stepb (.bClearPaused 0)
  hook .resumedHook

/-- what each call of the source is in `Proto` -/
def call (n : String) : M Unit :=
  match n with
  | "on_paused" => onPaused
  | _ => throw Err.offGraph

def ask (n : String) : M Bool :=
  match n with
  | "controller.is_pause" => do
      let r ← nextAns
      stepb (.bReadResume 0 r) r
      pure (!r)
  | "controller.wait_for_resume" => do
      let r ← nextAns
      if r then do
        stepb (.bWaitImm 0) true
        pure true
      else do
        stepb (.bWaitBlock 0) false
        if (← nextAns) then do
          -- the control thread's `resume_event.set()` reaches the blocked thread (`notifyAll`)
          modify fun w => { w with th := { w.th with notified := true } }
          stepb (.bWaitWoken 0)
          pure true
        else do
          stepb (.bWaitTimeout 0)
          pure false
  | "controller.call_if_resume" => do
      stepb (.bAcquire 0)
      let r ← nextAns
      stepb (.bLeaveRead 0 r) r
      if r then do
        onResumed
        stepb (.bRelease 0)
        pure true
      else do
        stepb (.bRelease 0)
        pure false
  | "controller.is_active" => do
      let d ← nextAns
      stepb (.bReadShutdown 0 d) false d
      pure (!d)
  | _ => throw Err.offGraph

--%GEN%

/-- a run is fine when it ends normally in a state satisfying `P` or stops for lack of answers / fuel; leaving the graph is not -/
def Good {α : Type} (P : α → W → Prop) : Except Err (α × W) → Prop
  | .ok (a, w) => P a w
  | .error .outOfAnswers => True
  | .error .offGraph => False

/-- at the head of the loop of `stop_if_pause` -/
def LoopInv (paused : Bool) (th : Proto.BThread) : Prop :=
  th.inCb = none ∧ th.holds = false ∧ th.localPaused = paused ∧ th.pausedFlag = paused ∧
    (if paused then (th.pc = .waitEnter ∨ th.pc = .top) else (th.pc = .start ∨ th.pc = .top))

/-- where `stop_if_pause` leaves the thread: about to read the shutdown event, not paused -/
def Left (th : Proto.BThread) : Prop :=
  th.inCb = none ∧ th.holds = false ∧ th.localPaused = false ∧ th.pausedFlag = false ∧ (th.pc = .afterWait ∨ th.pc = .chk)

macro "bi_simp" "[" ts:Lean.Parser.Tactic.simpLemma,* "]" : tactic =>
  `(tactic| simp [$ts,*, call, ask, onPaused, onResumed, hook, stepb, nextAns, failure, Proto.bedge, Proto.bstep, Proto.St.setThr, Proto.cbAllowed,
      Proto.synthB_resume, Proto.synthB_shutdown, Proto.synthB_thr, Proto.synthB_ctl,
      bind, StateT.bind, pure, StateT.pure, modify, modifyGet, MonadStateOf.modifyGet, StateT.modifyGet, get, getThe,
      MonadStateOf.get, StateT.get, set, StateT.set, throw, throwThe, MonadExceptOf.throw, StateT.lift, liftM, monadLift,
      MonadLift.monadLift, Except.bind, Except.pure, Except.map, Functor.map, StateT.map])

theorem loop_on_graph (cfg : Cfg) (fuel : Nat) : ∀ (paused : Bool) (w : W), LoopInv paused w.th →
    Good (fun _ w' => Left w'.th) (stop_if_pause_while1 cfg (fun _ => pure ()) fuel paused w) := by
  induction fuel with
  | zero => intro p w _; bi_simp [stop_if_pause_while1, Good]
  | succ fuel ih =>
    -- an iteration entered with `paused = True` (also: the rest of the iteration in which `on_paused` ran)
    have paused_iter : ∀ (th : Proto.BThread) (ans : List Bool), LoopInv true th →
        Good (fun _ w' => Left w'.th) (stop_if_pause_while1 cfg (fun _ => pure ()) (fuel + 1) true ⟨th, ans⟩) := by
      intro th ans ⟨h1, h2, h3, h4, h5⟩
      simp only [if_true] at h5
      -- the part after the wait returned True: `call_if_resume(on_resumed)`
      rcases ans with _ | ⟨a1, r1⟩
      · rcases h5 with h5 | h5 <;> bi_simp [stop_if_pause_while1, Good, h1, h2, h3, h4, h5]
      · cases a1 with
        | true =>
          rcases r1 with _ | ⟨a2, r2⟩
          · rcases h5 with h5 | h5 <;> bi_simp [stop_if_pause_while1, Good, h1, h2, h3, h4, h5]
          · cases a2 with
            | false =>
              rcases h5 with h5 | h5 <;> bi_simp [stop_if_pause_while1, Good, h1, h2, h3, h4, h5] <;>
                (apply ih; simp [LoopInv, h1, h2, h3, h4])
            | true =>
              rcases r2 with _ | ⟨a3, r3⟩
              · rcases h5 with h5 | h5 <;> bi_simp [stop_if_pause_while1, Good, h1, h2, h3, h4, h5]
              · cases a3 <;> rcases h5 with h5 | h5 <;> bi_simp [stop_if_pause_while1, Good, Left, h1, h2, h3, h4, h5]
        | false =>
          -- the thread blocks in the wait: woken by `resume_event.set()` or timed out
          rcases r1 with _ | ⟨a2, r2⟩
          · rcases h5 with h5 | h5 <;> bi_simp [stop_if_pause_while1, Good, h1, h2, h3, h4, h5]
          · cases a2 with
            | false =>
              rcases h5 with h5 | h5 <;> bi_simp [stop_if_pause_while1, Good, h1, h2, h3, h4, h5] <;>
                (apply ih; simp [LoopInv, h1, h2, h3, h4])
            | true =>
              rcases r2 with _ | ⟨a3, r3⟩
              · rcases h5 with h5 | h5 <;> bi_simp [stop_if_pause_while1, Good, h1, h2, h3, h4, h5]
              · cases a3 with
                | false =>
                  rcases h5 with h5 | h5 <;> bi_simp [stop_if_pause_while1, Good, h1, h2, h3, h4, h5] <;>
                    (apply ih; simp [LoopInv, h1, h2, h3, h4])
                | true =>
                  rcases r3 with _ | ⟨a4, r4⟩
                  · rcases h5 with h5 | h5 <;> bi_simp [stop_if_pause_while1, Good, h1, h2, h3, h4, h5]
                  · cases a4 <;> rcases h5 with h5 | h5 <;>
                      bi_simp [stop_if_pause_while1, Good, Left, h1, h2, h3, h4, h5]
    intro p w hinv
    obtain ⟨th, ans⟩ := w
    obtain ⟨h1, h2, h3, h4, h5⟩ := hinv
    simp only at h1 h2 h3 h4 h5
    cases p with
    | false =>
      simp only [Bool.false_eq_true, if_false] at h5
      rcases ans with _ | ⟨a1, rest⟩
      · rcases h5 with h5 | h5 <;> bi_simp [stop_if_pause_while1, Good, h1, h2, h3, h4, h5]
      · cases a1 with
        | true =>
          -- the resume event is set: no pause is wanted; one wait slice
          rcases rest with _ | ⟨a2, r2⟩
          · rcases h5 with h5 | h5 <;> bi_simp [stop_if_pause_while1, Good, h1, h2, h3, h4, h5]
          · cases a2 with
            | true => rcases h5 with h5 | h5 <;> bi_simp [stop_if_pause_while1, Good, Left, h1, h2, h3, h4, h5]
            | false =>
              rcases r2 with _ | ⟨a3, r3⟩
              · rcases h5 with h5 | h5 <;> bi_simp [stop_if_pause_while1, Good, h1, h2, h3, h4, h5]
              · cases a3 with
                | true => rcases h5 with h5 | h5 <;> bi_simp [stop_if_pause_while1, Good, Left, h1, h2, h3, h4, h5]
                | false =>
                  rcases h5 with h5 | h5 <;> bi_simp [stop_if_pause_while1, Good, h1, h2, h3, h4, h5] <;>
                    (apply ih; simp [LoopInv, h1, h2, h3, h4])
        | false =>
          -- a pause is wanted: `on_paused` (the user's hook, then the paused flag), then an iteration with `paused = True`
          rcases rest with _ | ⟨a2, r2⟩
          · rcases h5 with h5 | h5 <;> bi_simp [stop_if_pause_while1, Good, h1, h2, h3, h4, h5]
          · let th2 : Proto.BThread := { th with pc := .waitEnter, pausedFlag := true, localPaused := true }
            have hred : stop_if_pause_while1 cfg (fun _ => pure ()) (fuel + 1) false ⟨th, false :: a2 :: r2⟩ =
                stop_if_pause_while1 cfg (fun _ => pure ()) (fuel + 1) true ⟨th2, r2⟩ := by
              cases a2 <;> rcases h5 with h5 | h5 <;>
                bi_simp [stop_if_pause_while1, th2, h1, h2, h3, h4, h5]
            rw [hred]
            exact paused_iter th2 r2 (by simp [LoopInv, th2, h1, h2])
    | true =>
      exact paused_iter th ans ⟨h1, h2, h3, h4, h5⟩

/-- where the loop guard leaves the thread: in `on_tick` when it said True, in `on_finally` when it said False -/
def AfterGuard (r : Bool) (th : Proto.BThread) : Prop :=
  th.pc = (if r then Proto.BPc.tick else .fin) ∧ th.inCb = none ∧ th.holds = false ∧ th.localPaused = false ∧ th.pausedFlag = false

/-- **`ControllerCommandHandler.manage_loop()` (with `stop_if_pause`), as translated from the source, never leaves a
background thread's graph in `Proto`** - whatever the resume and shutdown events show at each read, whether the waits
return at once, are woken or time out, with or without user hooks, for any number of wait slices: a pause is
acknowledged (`bSetPaused`) only after the paused hook returned, left only under the resume lock with the resume
event seen set (`bAcquire, bLeaveRead true, bClearPaused`), and the guard's answer is the shutdown event read
afterwards (`bReadShutdown`). -/
theorem manage_loop_on_graph (cfg : Cfg) (w : W) (hinv : LoopInv false w.th) :
    Good (fun r w' => AfterGuard r w'.th) (manage_loop cfg w) := by
  have h := loop_on_graph cfg (w.ans.length + 1) false w hinv
  bi_simp [manage_loop, stop_if_pause]
  split
  · rename_i e heq
    have heq' : stop_if_pause_while1 cfg (fun _ => pure ()) (w.ans.length + 1) false w = Except.error e := heq
    rw [heq'] at h
    cases e <;> simp_all [Good]
  · rename_i p heq
    have heq' : stop_if_pause_while1 cfg (fun _ => pure ()) (w.ans.length + 1) false w = Except.ok p := heq
    rw [heq'] at h
    obtain ⟨u, ⟨th1, ans1⟩⟩ := p
    obtain ⟨g1, g2, g3, g4, g5⟩ := h
    simp only at g1 g2 g3 g4 g5
    rcases ans1 with _ | ⟨d, rest⟩
    · bi_simp [Good]
    · cases d <;> rcases g5 with g5 | g5 <;> bi_simp [Good, AfterGuard, g1, g2, g3, g4, g5]

example := manage_loop_on_graph {} ⟨{ pc := .top }, [true, true, false]⟩ (by simp [LoopInv])

/-! ### `on_paused` / `on_resumed` of the two background thread classes -/
namespace Hooks

theorem bind_pure_unit (e : Except Err (Unit × W)) : (e.bind fun x => Except.pure ((), x.snd)) = e := by
  cases e with
  | error _ => rfl
  | ok p => cases p; rfl

/-- the calls these methods make: the component's hooks and the thread's own paused flag -/
def call (n : String) : M Unit :=
  match n with
  | "trainers.on_paused" | "interaction.on_paused" => hook .pausedHook
  | "trainers.on_resumed" | "interaction.on_resumed" => hook .resumedHook
  | "thread_status.pause" => stepb (.bSetPaused 0)
  | "thread_status.resume" => stepb (.bClearPaused 0)
  | _ => throw Err.offGraph

namespace Training
--%GEN_TRAINING%
/-- **`TrainingThread.on_paused` runs the trainers' hooks first and sets the paused flag last** (the flag is the
acknowledgement the control thread waits for), `on_resumed` clears the flag first: the two actions the loop guard's
interpretation uses. -/
theorem on_paused_is (cfg : Cfg) : on_paused cfg = onPaused := by
  funext w; simp [on_paused, onPaused, call, bind, StateT.bind, pure, StateT.pure, bind_pure_unit]
theorem on_resumed_is (cfg : Cfg) : on_resumed cfg = onResumed := by
  funext w; simp [on_resumed, onResumed, call, bind, StateT.bind, pure, StateT.pure, bind_pure_unit]
end Training

namespace Inference
--%GEN_INFERENCE%
/-- the same for `InferenceThread` and the interaction's hooks -/
theorem on_paused_is (cfg : Cfg) : on_paused cfg = onPaused := by
  funext w; simp [on_paused, onPaused, call, bind, StateT.bind, pure, StateT.pure, bind_pure_unit]
theorem on_resumed_is (cfg : Cfg) : on_resumed cfg = onResumed := by
  funext w; simp [on_resumed, onResumed, call, bind, StateT.bind, pure, StateT.pure, bind_pure_unit]
end Inference

end Hooks

end BI
