/-! ## `TrainingThread.on_tick` with the cursor as a number -/
structure W where
  cursor : Nat := 0
  ans : List Bool := []
  log : List (String × Option Bool) := []
deriving DecidableEq, Repr

abbrev M := StateT W Option
def call (n : String) : M Unit := modify fun w => { w with log := w.log ++ [(n, none)] }
def ask (n : String) : M Bool := do
  let w ← get
  match w.ans with
  | a :: rest => set { w with ans := rest, log := w.log ++ [(n, some a)] }; pure a
  | [] => failure

--%GEN%
/-- **Round robin, as translated from the source**: with no trainer the tick does nothing; otherwise it runs exactly the
trainer at the cursor - whatever `run()` answers - and moves the cursor to `(cursor + 1) % n`: the cursor update of
`Trainer.Th.tick` (`round_robin`), so after `k` ticks trainer `k mod n` is offered. -/
theorem on_tick_round_robin (cfg : Cfg) (c : Nat) (ran : Bool) (rest : List Bool) :
    on_tick cfg { cursor := c, ans := ran :: rest } =
      if cfg.nTrainers = 0 then some ((), { cursor := c, ans := ran :: rest })
      else some ((), { cursor := (c + 1) % cfg.nTrainers, ans := rest,
                       log := [("time.fixed_time", none), ("trainers_items[" ++ toString c ++ "].run", some ran)] }) := by
  by_cases h : cfg.nTrainers = 0 <;> cases ran <;>
    simp [on_tick, h, call, ask, bind, StateT.bind, pure, StateT.pure, get, getThe, MonadStateOf.get, StateT.get,
      set, StateT.set, modify, modifyGet, MonadStateOf.modifyGet, StateT.modifyGet]

/-- the cursor stays below the number of trainers -/
theorem on_tick_cursor_in_range (cfg : Cfg) (w w' : W) (h : on_tick cfg w = some ((), w')) (hc : w.cursor < cfg.nTrainers) :
    w'.cursor < cfg.nTrainers := by
  obtain ⟨c, ans, log⟩ := w
  by_cases h0 : cfg.nTrainers = 0
  · simp at hc; omega
  · rcases ans with _ | ⟨a, rest⟩ <;>
      simp [on_tick, h0, call, ask, bind, StateT.bind, pure, StateT.pure, get, getThe, MonadStateOf.get, StateT.get,
        set, StateT.set, modify, modifyGet, MonadStateOf.modifyGet, StateT.modifyGet, failure, StateT.failure,
        Alternative.failure] at h
    all_goals (try (cases a <;> simp at h))
    all_goals (try (rw [← h]; exact Nat.mod_lt _ (by omega)))
