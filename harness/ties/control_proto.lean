/-! ## The translated methods interpreted over the control graph of `Proto` -/
namespace PI

structure W where
  running : Bool := true
  ans : List Bool := []
  cmds : List Tick.Cmd := []
  v : Proto.CV
deriving DecidableEq, Repr

abbrev M := StateT W Option

/-- one control action of `Proto`; `none` when the control graph does not allow it here -/
def stepc (a : Proto.Act) (e : Bool := true) : M Unit := do
  let w ← get
  match Proto.cedge w.v a e with
  | some v' => set { w with v := v' }
  | none => failure

def nextAns : M Bool := do
  let w ← get
  match w.ans with
  | a :: rest => set { w with ans := rest }; pure a
  | [] => failure

/-- what each call of the source is in `Proto` (a call the control graph has no place for: `none`) -/
def call (n : String) : M Unit :=
  match n with
  | "enter try_pause" => stepc .cTryPause
  | "controller.pause" => do stepc .cAcquire; stepc .cClearResume; stepc .cRelease
  | "time.pause" => stepc .cClockPause
  | "controller.resume" => stepc .cSetResume
  | "ret try_pause true" => stepc (.cTryPauseRet true)
  | "ret try_pause false" => stepc (.cTryPauseRet false)
  | "enter resume" => stepc .cResume
  | "time.resume" => stepc .cClockResume
  | "ret resume" => stepc .cResumeRet
  | "enter shutdown" => stepc .cShutdown
  | "controller.shutdown" => do
      if (← get).v.shutdown then pure () else do stepc .cSetResume; stepc .cSetShutdown
  | "ret shutdown" => stepc .cShutdownRet
  | "enter save_state" => stepc .cSave
  | "state_store.save_state" => do stepc .cSaveBegin; stepc .cSaveEnd
  | "ret save_state" => stepc .cSaveRet
  | "enter on_paused" | "ret on_paused" | "enter on_resumed" | "ret on_resumed"
  | "enter on_finally" | "ret on_finally" | "states_keeper.append" => pure ()
  | _ => failure

def ask (n : String) : M Bool :=
  match n with
  | "controller.is_pause" => do return !(← get).v.resume
  | "thread_statuses_monitor.wait_for_all_threads_pause" => do
      let e ← nextAns
      stepc .cWorkersJoined e
      pure e
  | _ => failure

def hasCmds : M Bool := do return !(← get).cmds.isEmpty
def recv : M Tick.Cmd := do
  let w ← get
  match w.cmds with
  | c :: rest => set { w with cmds := rest }; pure c
  | [] => failure

--%GEN%

macro "pi_simp" "[" ts:Lean.Parser.Tactic.simpLemma,* "]" : tactic =>
  `(tactic| simp [$ts,*, call, ask, stepc, nextAns, Proto.cedge, Proto.Act.ctlCore, Proto.cstep, Proto.St.view,
      Proto.afterTryPause, Proto.notifyAll, Proto.resetWorkers,
      bind, StateT.bind, pure, StateT.pure, modify, modifyGet, MonadStateOf.modifyGet,
      StateT.modifyGet, get, getThe, MonadStateOf.get, StateT.get, set, StateT.set, failure, StateT.failure,
      Alternative.failure, StateT.run])

def resumedCtl (c : Proto.Ctl) : Proto.Ctl := { c with pc := if c.pc = .idle then .idle else .svRet, paused := false, rsCont := if c.pc = .idle then .cmd else .save }
def resumedV (v : Proto.CV) : Proto.CV := { v with resume := true, clockPaused := false, ctl := resumedCtl v.ctl }
def mkW (r : Bool) (a : List Bool) (c : List Tick.Cmd) (v : Proto.CV) : W := { running := r, ans := a, cmds := c, v := v }

/-- `ControlThread.resume()` is the path `cResume, cClockResume, cSetResume, cResumeRet` of `Proto`: from the
command loop or after a save it releases the clock first, then sets the resume event, and is back where it was called. -/
theorem resume_refines (cfg : Cfg) (r : Bool) (a : List Bool) (c : List Tick.Cmd) (v : Proto.CV)
    (hpc : v.ctl.pc = .idle ∨ v.ctl.pc = .svAfter) (hs : v.ctl.stopped = false) (hm : v.ctl.mustStop = false) :
    resume cfg (mkW r a c v) = some ((), mkW r a c (resumedV v)) := by
  rcases hpc with h | h <;> pi_simp [resume, on_resumed, mkW, resumedV, resumedCtl, h, hs, hm]

theorem resume_refines' (cfg : Cfg) (w : W)
    (hpc : w.v.ctl.pc = .idle ∨ w.v.ctl.pc = .svAfter) (hs : w.v.ctl.stopped = false) (hm : w.v.ctl.mustStop = false) :
    resume cfg w = some ((), { w with v := resumedV w.v }) := by
  have := resume_refines cfg w.running w.ans w.cmds w.v hpc hs hm
  simpa [mkW] using this

def shutCtl (c : Proto.Ctl) : Proto.Ctl := { c with pc := .idle, paused := false, stopped := true }
def shutV (v : Proto.CV) : Proto.CV := { v with resume := (if v.shutdown then v.resume else true), shutdown := true, clockPaused := false, ctl := shutCtl v.ctl }

/-- `ControlThread.shutdown()` is the path `cShutdown, cClockResume, [cSetResume, cSetShutdown], cShutdownRet`: the
clock is released first, the resume event is set before the shutdown event (nothing at all when shutdown was
already signalled), `_running` is cleared - and `Proto` marks the loop stopped at the same point. -/
theorem shutdown_refines (cfg : Cfg) (r : Bool) (a : List Bool) (c : List Tick.Cmd) (v : Proto.CV)
    (hpc : v.ctl.pc = .idle) (hc : v.ctl.cause = true ∨ v.ctl.mustStop = true ∨ v.ctl.stopped = true) :
    shutdown cfg (mkW r a c v) = some ((), mkW false a c (shutV v)) := by
  cases hsd : v.shutdown <;> rcases hc with h | h | h <;>
    pi_simp [shutdown, on_resumed, mkW, shutV, shutCtl, hpc, h, hsd]

/-- `on_finally` is one more `shutdown()`, from the stopped loop. -/
theorem on_finally_refines (cfg : Cfg) (r : Bool) (a : List Bool) (c : List Tick.Cmd) (v : Proto.CV)
    (hpc : v.ctl.pc = .idle) (hc : v.ctl.cause = true ∨ v.ctl.mustStop = true ∨ v.ctl.stopped = true) :
    on_finally cfg (mkW r a c v) = some ((), mkW false a c (shutV v)) := by
  have := shutdown_refines cfg r a c v hpc hc
  pi_simp [on_finally, this]

/-- every field of the control record except the program counter, the attempt counter and the `paused` ghost is unchanged -/
def sameRest (c c' : Proto.Ctl) : Prop := c' = { c with pc := c'.pc, attempt := c'.attempt, paused := c'.paused }

def ackCtl (c : Proto.Ctl) : Proto.Ctl := { c with pc := Proto.afterTryPause c true, paused := true }
def ackV (v : Proto.CV) : Proto.CV := { v with resume := false, clockPaused := true, ctl := ackCtl v.ctl }
def retryCtl (c : Proto.Ctl) : Proto.Ctl := { c with attempt := c.attempt + 1, pc := if c.attempt + 1 < c.maxAttempts then .tpLock else .tpDone false }
def retryV (v : Proto.CV) : Proto.CV := { v with resume := true, ctl := retryCtl v.ctl }

/-- The retry loop of `try_pause`, entered at `tpLock` with `n` attempts left (`tpDone false` when none is left):
every iteration is `cAcquire, cClearResume, cRelease, cWorkersJoined e` followed by `cClockPause, cTryPauseRet true`
(all threads acknowledged) or by `cSetResume` (time-out: release them, count the attempt); after the last failed
attempt `cTryPauseRet false`. Never leaves the control graph, whatever the waits answer. -/
theorem try_pause_loop (cfg : Cfg) (n : Nat) : ∀ (r : Bool) (a : List Bool) (c : List Tick.Cmd) (v : Proto.CV),
    n ≤ a.length → v.ctl.holds = false →
    (n = 0 → v.ctl.pc = .tpDone false ∧ v.resume = true) →
    (0 < n → v.ctl.pc = .tpLock ∧ v.ctl.attempt + n = v.ctl.maxAttempts) →
    ∃ res a' v', try_pause_for1 cfg (do call "ret try_pause false"; pure false) n (mkW r a c v) = some (res, mkW r a' c v') ∧
      v'.ctl.pc = Proto.afterTryPause v.ctl res ∧ sameRest v.ctl v'.ctl ∧ v'.shutdown = v.shutdown ∧
      (res = true → v'.resume = false ∧ v'.clockPaused = true ∧ v'.ctl.paused = true) ∧
      (res = false → v'.resume = true ∧ v'.clockPaused = v.clockPaused ∧ v'.ctl.paused = v.ctl.paused) := by
  induction n with
  | zero =>
    intro r a c v _ hh h0 _
    obtain ⟨hpc, hr⟩ := h0 rfl
    refine ⟨false, a, { v with ctl := { v.ctl with pc := Proto.afterTryPause v.ctl false } }, ?_, ?_⟩
    · pi_simp [try_pause_for1, mkW, hpc]
    · simp [sameRest, hr]
  | succ n ih =>
    intro r a c v hlen hh _ hpos
    obtain ⟨hpc, hatt⟩ := hpos (Nat.succ_pos n)
    obtain ⟨e, rest, rfl⟩ : ∃ e rest, a = e :: rest := by
      cases a with
      | nil => simp at hlen
      | cons e rest => exact ⟨e, rest, rfl⟩
    cases e with
    | true =>
      refine ⟨true, rest, ackV v, ?_, ?_⟩
      · pi_simp [try_pause_for1, on_paused, mkW, hpc, hh, ackV, ackCtl]
      · simp [sameRest, ackV, ackCtl]
    | false =>
      have hstep : try_pause_for1 cfg (do call "ret try_pause false"; pure false) (n + 1) (mkW r (false :: rest) c v) =
          try_pause_for1 cfg (do call "ret try_pause false"; pure false) n (mkW r rest c (retryV v)) := by
        pi_simp [try_pause_for1, mkW, hpc, hh, retryV, retryCtl]
        rfl
      obtain ⟨res, a', v', h1, h2, h3, h4, h5, h6⟩ := ih r rest c (retryV v) (by simp at hlen; omega)
        (by simp [retryV, retryCtl, hh])
        (by intro hn; subst hn; simp [retryV, retryCtl]; omega)
        (by intro hn; simp [retryV, retryCtl]; omega)
      refine ⟨res, a', v', by rw [hstep, h1], ?_⟩
      refine ⟨by simpa [retryV, retryCtl, Proto.afterTryPause] using h2, ?_, by simpa [retryV] using h4, h5, ?_⟩
      · simp only [sameRest, retryV, retryCtl] at h3 ⊢
        rw [h3]
      · simpa [retryV, retryCtl] using h6

def tpEnterCtl (c : Proto.Ctl) (resume : Bool) : Proto.Ctl :=
  if resume = false then { c with pc := .tpDone true, cont := if c.pc = .idle then .cmd else .save }
  else if c.maxAttempts = 0 then { c with pc := .tpDone false, cont := if c.pc = .idle then .cmd else .save }
  else { c with pc := .tpLock, cont := if c.pc = .idle then .cmd else .save, attempt := 0 }

/-- where `try_pause` ends: back in the command loop, or - called from `save_state` - at the save (`svBegin`) / at its early return (`svRet`) -/
def tpEndPc (c : Proto.Ctl) (res : Bool) : Proto.CPc := if c.pc = .idle then .idle else if res then .svBegin else .svRet

/-- **`ControlThread.try_pause()` never leaves the control graph of `Proto`**, for every number of attempts and
whatever the waits answer: already paused - `cTryPause, cTryPauseRet true` and nothing else; otherwise the
retry loop (`try_pause_loop`). It ends where `Proto` says the caller continues, with the resume event cleared and
the clock frozen exactly when it returns `True`, and with the resume event set again when it returns `False`. -/
theorem try_pause_refines (cfg : Cfg) (r : Bool) (a : List Bool) (c : List Tick.Cmd) (v : Proto.CV)
    (hpc : v.ctl.pc = .idle ∨ v.ctl.pc = .svCall) (hs : v.ctl.stopped = false) (hm : v.ctl.mustStop = false)
    (hmax : v.ctl.maxAttempts = cfg.maxAttempts) (hh : v.ctl.holds = false) (hlen : cfg.maxAttempts ≤ a.length) :
    ∃ res a' v', try_pause cfg (mkW r a c v) = some (res, mkW r a' c v') ∧
      v'.ctl.pc = tpEndPc v.ctl res ∧ v'.shutdown = v.shutdown ∧
      (∃ pc att pau cont, v'.ctl = { v.ctl with pc := pc, attempt := att, paused := pau, cont := cont }) ∧
      (res = true → v'.resume = false ∧ (v.resume = true → v'.clockPaused = true ∧ v'.ctl.paused = true) ∧
                      (v.resume = false → v'.clockPaused = v.clockPaused ∧ v'.ctl.paused = v.ctl.paused)) ∧
      (res = false → v'.resume = true ∧ v.resume = true ∧ v'.clockPaused = v.clockPaused) := by
  cases hr : v.resume with
  | false =>
    refine ⟨true, a, { v with ctl := { v.ctl with pc := tpEndPc v.ctl true, cont := if v.ctl.pc = .idle then .cmd else .save } }, ?_, ?_⟩
    · rcases hpc with h | h <;> pi_simp [try_pause, mkW, h, hs, hm, hr, tpEndPc]
    · refine ⟨rfl, rfl, ⟨_, _, _, _, rfl⟩, ?_, by simp⟩
      simp [hr]
  | true =>
    let v1 : Proto.CV := { v with ctl := tpEnterCtl v.ctl true }
    have hstep : try_pause cfg (mkW r a c v) =
        try_pause_for1 cfg (do call "ret try_pause false"; pure false) cfg.maxAttempts (mkW r a c v1) := by
      by_cases h0 : v.ctl.maxAttempts = 0 <;> rcases hpc with h | h <;>
        pi_simp [try_pause, mkW, h, hs, hm, hr, h0, v1, tpEnterCtl] <;> rfl
    have hcont : v1.ctl.cont = if v.ctl.pc = .idle then Proto.Cont.cmd else .save := by
      by_cases h0 : v.ctl.maxAttempts = 0 <;> simp [v1, tpEnterCtl, h0]
    obtain ⟨res, a', v', h1, h2, h3, h4, h5, h6⟩ := try_pause_loop cfg cfg.maxAttempts r a c v1 hlen
      (by by_cases h0 : v.ctl.maxAttempts = 0 <;> simp [v1, tpEnterCtl, h0, hh])
      (by intro hn; have : v.ctl.maxAttempts = 0 := by omega
          simp [v1, tpEnterCtl, this, hr])
      (by intro hn; have : v.ctl.maxAttempts ≠ 0 := by omega
          simp [v1, tpEnterCtl, this]; omega)
    refine ⟨res, a', v', by rw [hstep, h1], ?_, by simpa [v1] using h4, ?_, ?_, ?_⟩
    · rw [h2]; simp only [Proto.afterTryPause, hcont, tpEndPc]
      rcases hpc with h | h <;> simp [h]
    · simp only [sameRest] at h3
      refine ⟨v'.ctl.pc, v'.ctl.attempt, v'.ctl.paused, v1.ctl.cont, ?_⟩
      rw [h3]
      by_cases h0 : v.ctl.maxAttempts = 0 <;> simp [v1, tpEnterCtl, h0]
    · intro ht; obtain ⟨p1, p2, p3⟩ := h5 ht
      exact ⟨p1, fun _ => ⟨p2, p3⟩, by simp⟩
    · intro hf; obtain ⟨p1, p2, _⟩ := h6 hf
      exact ⟨p1, rfl, by simpa [v1] using p2⟩

/-- **`ControlThread.save_state()` never leaves the control graph**: `cSave` (remembering whether the system was
already paused), the pause attempt, then either the early return (`cSaveRet` from `svRet`: nothing was written) or
`cSaveBegin … cSaveEnd`, the resume exactly when the system was not paused before, and `cSaveRet`. It ends in the
command loop with the resume event as it found it, one more save counted exactly when the pause succeeded. -/
theorem save_state_refines (cfg : Cfg) (r : Bool) (a : List Bool) (c : List Tick.Cmd) (v : Proto.CV)
    (hpc : v.ctl.pc = .idle) (hs : v.ctl.stopped = false) (hm : v.ctl.mustStop = false)
    (hmax : v.ctl.maxAttempts = cfg.maxAttempts) (hh : v.ctl.holds = false) (hcb : v.ctl.inCb = false)
    (hlen : cfg.maxAttempts ≤ a.length) :
    ∃ ok a' v', save_state cfg (mkW r a c v) = some ((), mkW r a' c v') ∧
      v'.ctl.pc = .idle ∧ v'.resume = v.resume ∧ v'.shutdown = v.shutdown ∧
      v'.ctl.saves = v.ctl.saves + (if ok then 1 else 0) ∧
      v'.ctl.stopped = false ∧ v'.ctl.mustStop = false ∧ v'.ctl.holds = false ∧
      (ok = true → v.resume = true → v'.clockPaused = false) ∧ (v.resume = false → v'.clockPaused = v.clockPaused) := by
  let v1 : Proto.CV := { v with ctl := { v.ctl with pc := .svCall, already := !v.resume } }
  obtain ⟨res, a', v2, h1, h2, h3, ⟨pc, att, pau, cont, h4⟩, h5, h6⟩ :=
    try_pause_refines cfg r a c v1 (Or.inr rfl) hs hm hmax hh hlen
  have hpre : save_state cfg (mkW r a c v) =
      (do let ok ← try_pause cfg
          if !ok then do call "ret save_state"; pure ()
          else do
            call "state_store.save_state"
            if cfg.hasKeeper then call "states_keeper.append"
            if !(!v.resume) then resume cfg
            call "ret save_state"; pure ()) (mkW r a c v1) := by
    cases hk : cfg.hasKeeper <;> cases hr : v.resume <;>
      pi_simp [save_state, mkW, hpc, hs, hm, v1, hk, hr] <;> rfl
  have h2' : v2.ctl.pc = if res then Proto.CPc.svBegin else .svRet := by
    rw [h2]; simp [tpEndPc, v1]
  have hfields : v2.ctl.stopped = false ∧ v2.ctl.mustStop = false ∧ v2.ctl.holds = false ∧ v2.ctl.inCb = false ∧
      v2.ctl.already = (!v.resume) ∧ v2.ctl.saves = v.ctl.saves := by
    rw [h4]; simp [v1, hs, hm, hh, hcb]
  obtain ⟨f1, f2, f3, f4, f5, f6⟩ := hfields
  cases res with
  | false =>
    obtain ⟨p1, p2, p3⟩ := h6 rfl
    have hvr : v.resume = true := by simpa [v1] using p2
    refine ⟨false, a', { v2 with ctl := { v2.ctl with pc := .idle } }, ?_, rfl, ?_, h3, ?_, f1, f2, f3, by simp, ?_⟩
    · rw [hpre]
      simp only [bind, StateT.bind, h1]
      pi_simp [mkW, h2']
    · simp [p1, hvr]
    · simp [f6]
    · intro hf; simp [hvr] at hf
  | true =>
    obtain ⟨p1, p2, p3⟩ := h5 rfl
    simp only [if_true] at h2'
    let c3 : Proto.Ctl := { v2.ctl with pc := if v.resume then Proto.CPc.svAfter else .svRet, saves := v2.ctl.saves + 1 }
    let v3 : Proto.CV := { v2 with ctl := c3 }
    cases hr : v.resume with
    | false =>
      refine ⟨true, a', { v3 with ctl := { c3 with pc := .idle } }, ?_, rfl, ?_, h3, ?_, f1, f2, f3, by simp [hr], ?_⟩
      · rw [hpre]
        simp only [bind, StateT.bind, h1]
        cases hk : cfg.hasKeeper <;> pi_simp [mkW, h2', f4, f5, hr, v3, c3] <;> rfl
      · simp [v3, p1]
      · simp [v3, c3, f6]
      · intro _; have := (p3 (by simp [v1, hr])).1; simpa [v3, v1] using this
    | true =>
      have hres := resume_refines cfg r a' c v3 (Or.inr (by simp [v3, c3, hr])) (by simp [v3, c3, f1]) (by simp [v3, c3, f2])
      refine ⟨true, a', { resumedV v3 with ctl := { (resumedV v3).ctl with pc := .idle } }, ?_, rfl, ?_, ?_, ?_, ?_, ?_, ?_, ?_, ?_⟩
      · rw [hpre]
        simp only [bind, StateT.bind, h1]
        cases hk : cfg.hasKeeper <;>
          pi_simp [mkW, h2', f1, f2, f4, f5, hr, v3, c3, resume_refines', resumedV, resumedCtl] <;> rfl
      · simp [resumedV, hr]
      · simp [resumedV, v3, h3, v1]
      · simp [resumedV, resumedCtl, v3, c3, f6]
      · simp [resumedV, resumedCtl, v3, c3, f1]
      · simp [resumedV, resumedCtl, v3, c3, f2]
      · simp [resumedV, resumedCtl, v3, c3, f3]
      · intro _ _; simp [resumedV]
      · intro hf; simp [hr] at hf

/-- The premises are met by the state the control loop is in between two commands, and the methods really run: one
failed attempt, then all threads acknowledge; state written; system resumed. -/
def v0 : Proto.CV := { ctl := { pc := .idle, maxAttempts := 3 }, resume := true, shutdown := false, clockPaused := false }
example : v0.ctl.pc = .idle ∧ v0.ctl.stopped = false ∧ v0.ctl.mustStop = false ∧ v0.ctl.holds = false ∧ v0.ctl.inCb = false := by
  simp [v0]
example := save_state_refines ⟨true, true, 3⟩ true [false, true, true] [] v0 rfl rfl rfl rfl rfl rfl (by decide)
example := try_pause_refines ⟨true, true, 3⟩ true [false, false, false] [] v0 (Or.inl rfl) rfl rfl rfl rfl (by decide)

end PI
