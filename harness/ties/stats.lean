@[simp] theorem call_run (n : String) (w : W) :
    call n w = some ((), { w with log := w.log ++ [(n, none)] }) := rfl

--%GEN%
/-- what the library asks of the number of samples (`statistics.mean`: at least one data point,
`statistics.stdev`: at least two); anything else the logger might call on the samples is not known to be safe -/
def pre : String → Nat → Bool
  | "statistics.mean", n => decide (1 ≤ n)
  | "statistics.stdev", n => decide (2 ≤ n)
  | "tick_times.clear", _ => true
  | _, _ => false

/-- **`InferenceThread.log_tick_time_statistics`, as translated from the source, calls the statistics library only
with enough samples, for every number of samples** (the branch `guarded = true` of `Bookkeep.tick`, which
`stats_total` is about): nothing for no sample, the mean alone for one, mean and standard deviation from two on, and
the sample list is cleared whenever something was logged. -/
theorem statistics_guarded (cfg : Cfg) :
    log_tick_time_statistics cfg {} = some ((), { log :=
      if cfg.nTimes = 0 then [] else if cfg.nTimes > 1
      then [("statistics.mean", none), ("statistics.stdev", none), ("tick_times.clear", none)]
      else [("statistics.mean", none), ("tick_times.clear", none)] }) := by
  by_cases h0 : cfg.nTimes = 0 <;> by_cases h1 : cfg.nTimes > 1 <;>
    simp [log_tick_time_statistics, h0, h1, bind, StateT.bind, pure, StateT.pure]

theorem statistics_preconditions (cfg : Cfg) (w' : W) (h : log_tick_time_statistics cfg {} = some ((), w')) :
    ∀ e ∈ w'.log, pre e.1 cfg.nTimes = true := by
  rw [statistics_guarded] at h
  cases h
  by_cases h0 : cfg.nTimes = 0 <;> by_cases h1 : cfg.nTimes > 1 <;> simp [h0, h1, pre] <;> omega

/-! ### `InferenceThread.on_tick`: when a tick-time sample is recorded -/
namespace Tick

structure W where
  tickStart : Bool := false      -- `_tick_start is not None`
  log : List (String × Option Bool) := []
deriving DecidableEq, Repr

abbrev M := StateT W Option
def call (n : String) : M Unit := modify fun w => { w with log := w.log ++ [(n, none)] }

--%GEN_TICK%
/-- **One tick of the inference thread, as translated from the source**: the step; a duration sample from the second
tick on (`n1 = n + 1` exactly when a start instant is known - the first line of `Bookkeep.tick`); the start instant of the
next sample; then the scheduler update that may log the statistics. -/
theorem inference_tick_samples (cfg : Cfg) (b : Bool) :
    on_tick cfg { tickStart := b } = some ((), { tickStart := true, log :=
      [("interaction.step", none)] ++ (if b then [("tick_times.append", none)] else []) ++
      [("time.fixed_time", none), ("log_tick_time_scheduler.update", none)] }) := by
  cases b <;> simp [on_tick, call, bind, StateT.bind, pure, StateT.pure, get, getThe, MonadStateOf.get, StateT.get,
    modify, modifyGet, MonadStateOf.modifyGet, StateT.modifyGet]

end Tick
