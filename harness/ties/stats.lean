@[simp] theorem call_run (n : String) (w : W) :
    call n w = some ((), { w with log := w.log ++ [(n, none)] }) := rfl

--%GEN%
/-- what the library asks of the number of samples (`statistics.mean`: at least one data point,
`statistics.stdev`: at least two); anything else the logger might call on the samples is not known to be safe -/
def pre : String → Nat → Bool
  | "statistics.mean", n => decide (1 ≤ n)
  | "statistics.stdev", n => decide (2 ≤ n)
  | "tick_times.clear", _ => true
  | _, _ => false

/-- **`InferenceThread.log_tick_time_statistics`, as translated from the source, calls the statistics library only
with enough samples, for every number of samples** (the branch `guarded = true` of `Bookkeep.tick`, which
`stats_total` is about): nothing for no sample, the mean alone for one, mean and standard deviation from two on, and
the sample list is cleared whenever something was logged. -/
theorem statistics_guarded (cfg : Cfg) :
    log_tick_time_statistics cfg {} = some ((), { log :=
      if cfg.nTimes = 0 then [] else if cfg.nTimes > 1
      then [("statistics.mean", none), ("statistics.stdev", none), ("tick_times.clear", none)]
      else [("statistics.mean", none), ("tick_times.clear", none)] }) := by
  by_cases h0 : cfg.nTimes = 0 <;> by_cases h1 : cfg.nTimes > 1 <;>
    simp [log_tick_time_statistics, h0, h1, bind, StateT.bind, pure, StateT.pure]

theorem statistics_preconditions (cfg : Cfg) (w' : W) (h : log_tick_time_statistics cfg {} = some ((), w')) :
    ∀ e ∈ w'.log, pre e.1 cfg.nTimes = true := by
  rw [statistics_guarded] at h
  cases h
  by_cases h0 : cfg.nTimes = 0 <;> by_cases h1 : cfg.nTimes > 1 <;> simp [h0, h1, pre] <;> omega
