"""Minimal stand-in for the `gymnasium` package (not installed offline; see DESIGN.md §7.20).

`pamiq_core.gym` references exactly two names: `gymnasium.Env` (as a *generic* class,
`gym.Env[O, A]`, in annotations evaluated at import time) and `gymnasium.make`. Nothing of
Gymnasium's behaviour is reproduced here: the environments used by the checks are scripted
subclasses of `Env` defined in `harness/corr/c20.py`.

Assumed interface (Gymnasium >= 0.26 API):
    reset(*, seed=None, options=None) -> (observation, info)
    step(action) -> (observation, reward, terminated, truncated, info)
    close() -> None
    make(id, **kwargs) -> Env         (looked up in `registry`, a plain dict id -> factory)
"""
from __future__ import annotations

from typing import Any, Callable

__all__ = ["Env", "make", "registry"]


class Env[O, A]:
    """Base class of environments: the three methods the adapter calls."""

    def reset(self, *, seed: int | None = None,
              options: dict[str, Any] | None = None) -> tuple[O, dict[str, Any]]:
        raise NotImplementedError

    def step(self, action: A) -> tuple[O, float, bool, bool, dict[str, Any]]:
        raise NotImplementedError

    def close(self) -> None:
        pass


registry: dict[str, Callable[..., Env[Any, Any]]] = {}


def make(id: str, **kwargs: Any) -> Env[Any, Any]:
    """Create a registered environment (KeyError for an unknown id)."""
    return registry[id](**kwargs)
