"""Stand-in `torch.nn`: `Parameter` and `Module` (see the package docstring for the assumptions)."""
from __future__ import annotations

import copy
from collections import OrderedDict
from typing import Any, Iterator

import torch
from torch import _verif


class Parameter(torch.Tensor):
    """A named piece of module state. `.data` and `.grad` accesses are announced to the
    observation hook (one access = one atomic step)."""

    def __init__(self, data: Any = 0, requires_grad: bool = True,
                 device: "torch.device | str | None" = None) -> None:
        if isinstance(data, torch.Tensor):
            data = data._data
        super().__init__(data, device)
        self.requires_grad = requires_grad

    @property
    def data(self) -> Any:
        _verif.fire("rparam", self, None)
        return self._data

    @data.setter
    def data(self, v: Any) -> None:
        _verif.fire("wparam", self, v)
        self._data = v

    @property
    def grad(self) -> Any:
        _verif.fire("rgrad", self, None)
        return self._grad

    @grad.setter
    def grad(self, g: Any) -> None:
        _verif.fire("wgrad", self, g)
        self._grad = g

    def __deepcopy__(self, memo: dict) -> "Parameter":
        p = Parameter(copy.deepcopy(self._data, memo), self.requires_grad, self.device)
        p._grad = copy.deepcopy(self._grad, memo)
        p.dtype = self.dtype
        memo[id(self)] = p
        return p

    def __repr__(self) -> str:
        return f"Parameter({self._data!r})"


class Module:
    def __init__(self) -> None:
        d = self.__dict__
        d["_parameters"] = OrderedDict()
        d["_buffers"] = OrderedDict()
        d["_modules"] = OrderedDict()
        d["training"] = True

    # ---- registration -------------------------------------------------------------------------
    def __setattr__(self, name: str, value: Any) -> None:
        d = self.__dict__
        if "_parameters" not in d:
            raise AttributeError("cannot assign attributes before Module.__init__() call")
        for table in (d["_parameters"], d["_buffers"], d["_modules"]):
            table.pop(name, None)
        if isinstance(value, Parameter):
            d.pop(name, None)
            d["_parameters"][name] = value
        elif isinstance(value, Module):
            d.pop(name, None)
            d["_modules"][name] = value
        else:
            d[name] = value

    def __getattr__(self, name: str) -> Any:
        d = self.__dict__
        for table in ("_parameters", "_buffers", "_modules"):
            t = d.get(table)
            if t is not None and name in t:
                return t[name]
        raise AttributeError(f"{type(self).__name__!r} object has no attribute {name!r}")

    def register_parameter(self, name: str, param: "Parameter | None") -> None:
        self.__dict__["_parameters"][name] = param

    def register_buffer(self, name: str, tensor: "torch.Tensor | None") -> None:
        self.__dict__["_buffers"][name] = tensor

    def add_module(self, name: str, module: "Module | None") -> None:
        self.__dict__["_modules"][name] = module

    # ---- iteration ----------------------------------------------------------------------------
    def named_parameters(self, prefix: str = "") -> Iterator[tuple[str, Parameter]]:
        for n, p in self._parameters.items():
            if p is not None:
                yield prefix + n, p
        for mn, m in self._modules.items():
            if m is not None:
                yield from m.named_parameters(prefix + mn + ".")

    def parameters(self) -> Iterator[Parameter]:
        for _, p in self.named_parameters():
            yield p

    def named_buffers(self, prefix: str = "") -> Iterator[tuple[str, torch.Tensor]]:
        for n, b in self._buffers.items():
            if b is not None:
                yield prefix + n, b
        for mn, m in self._modules.items():
            if m is not None:
                yield from m.named_buffers(prefix + mn + ".")

    def buffers(self) -> Iterator[torch.Tensor]:
        for _, b in self.named_buffers():
            yield b

    def children(self) -> Iterator["Module"]:
        for m in self._modules.values():
            if m is not None:
                yield m

    def modules(self) -> Iterator["Module"]:
        yield self
        for m in self.children():
            yield from m.modules()

    # ---- state --------------------------------------------------------------------------------
    def state_dict(self) -> "OrderedDict[str, Any]":
        """Fresh mapping name -> COPY of the data (parameters, then buffers)."""
        out: OrderedDict[str, Any] = OrderedDict()
        for name, p in self.named_parameters():
            out[name] = copy.deepcopy(p.data)
        for name, b in self.named_buffers():
            out[name] = copy.deepcopy(b.data)
        return out

    def load_state_dict(self, state_dict: Any, strict: bool = True) -> None:
        """Copy the values into the existing parameter objects, one parameter per source line
        execution (the assignment below is a preemption point of its own)."""
        own = [n for n, _ in self.named_parameters()] + [n for n, _ in self.named_buffers()]
        if strict and set(own) != set(state_dict.keys()):
            missing = sorted(set(own) - set(state_dict.keys()))
            unexpected = sorted(set(state_dict.keys()) - set(own))
            raise RuntimeError(f"Error(s) in loading state_dict for {type(self).__name__}: "
                               f"missing keys {missing}, unexpected keys {unexpected}")
        for name, p in self.named_parameters():
            if name in state_dict:
                p.data = copy.deepcopy(state_dict[name])
        for name, b in self.named_buffers():
            if name in state_dict:
                b.data = copy.deepcopy(state_dict[name])

    # ---- mode / placement ---------------------------------------------------------------------
    def train(self, mode: bool = True) -> "Module":
        for m in self.modules():
            _verif.fire("wflag", m, mode)
            m.__dict__["training"] = mode
        return self

    def eval(self) -> "Module":
        return self.train(False)

    def requires_grad_(self, requires_grad: bool = True) -> "Module":
        for p in self.parameters():
            p.requires_grad = requires_grad
        return self

    def zero_grad(self, set_to_none: bool = True) -> None:
        for p in self.parameters():
            p.grad = None

    def to(self, *args: Any, **kwds: Any) -> "Module":
        dev = kwds.get("device")
        dt = kwds.get("dtype")
        for a in args:
            if isinstance(a, (torch.device, str)):
                dev = a
            elif isinstance(a, torch.dtype):
                dt = a
        for t in list(self.parameters()) + list(self.buffers()):
            if dev is not None:
                t.device = torch.device(dev)
            if dt is not None:
                t.dtype = dt
        return self

    def type(self, dst_type: Any) -> "Module":
        return self.to(dtype=dst_type) if isinstance(dst_type, torch.dtype) else self

    def compile(self, *args: Any, **kwds: Any) -> None:
        self.__dict__["_compiled"] = True

    def forward(self, *args: Any, **kwds: Any) -> Any:
        raise NotImplementedError

    def __call__(self, *args: Any, **kwds: Any) -> Any:
        return self.forward(*args, **kwds)

    def __repr__(self) -> str:
        return f"{type(self).__name__}({dict(self.named_parameters())})"


__all__ = ["Module", "Parameter"]
