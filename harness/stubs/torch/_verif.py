"""Observation hook of the stand-in `torch` package (harness use only).

`hook`, when set, is called as `hook(kind, obj, value)` IMMEDIATELY BEFORE the stand-in touches a
piece of module state that two threads could share:

    kind      obj          value          access that follows the call
    "rparam"  Parameter    None           read of `param.data`
    "wparam"  Parameter    new data       write of `param.data`
    "rgrad"   Parameter    None           read of `param.grad`
    "wgrad"   Parameter    new grad       write of `param.grad`
    "wflag"   Module       new mode       write of `module.training` (train()/eval())

A deterministic scheduler uses the call as a preemption point and as the place to log the access.
Nothing is logged by the package itself.
"""
from __future__ import annotations

from typing import Any, Callable

hook: Callable[[str, Any, Any], None] | None = None


def fire(kind: str, obj: Any, value: Any = None) -> None:
    h = hook
    if h is not None:
        h(kind, obj, value)
