"""Minimal stand-in for the `torch` package (real PyTorch is not installed offline; DESIGN.md §7.19).

It provides exactly what `import pamiq_core.torch` and the C19 check need, with the following
ASSUMED behaviour of the real library (listed in evidence/C19.json as assumptions):

* `nn.Module` owns named parameters/buffers/sub-modules; `parameters()`/`buffers()` iterate them
  in registration order (depth first); `state_dict()` returns a fresh mapping name -> COPY of the
  data; `load_state_dict(sd)` first checks that the key sets agree (RuntimeError otherwise) and then
  copies the values INTO the existing parameter objects, one parameter after the other (here: one
  parameter per executed source line, so that a line-granular scheduler can interleave inside it);
  it never replaces a parameter object and never touches `.grad` or `.training`.
* `eval()`/`train(mode)` only toggle `.training` (recursively) and return the module; `to()`,
  `type()`, `compile()` keep the parameter objects and return/affect the module itself.
* `copy.deepcopy(module)` yields a module that shares no parameter object with the original and
  holds equal data (and equal `.grad`).
* a parameter is an object with `.data` (here a Python number or list), `.grad` (None or a value),
  `.device`; reading or writing `.data`/`.grad` of ONE parameter is atomic, nothing larger is.
* `torch.inference_mode(mode=True)` is a re-entrant, thread-local context manager / decorator
  (nesting depth recorded in `inference_mode_depth()`); it does not synchronise anything.
* `torch.save/torch.load` round-trip a state mapping (pickle here).

Everything else of PyTorch (tensors, autograd, devices, dtypes, real optimizers) is absent.
"""
from __future__ import annotations

import functools
import pickle
import threading
from typing import Any

from . import _verif

__version__ = "0.0+verif-standin"


class dtype:
    def __init__(self, name: str) -> None:
        self.name = name

    def __repr__(self) -> str:
        return f"torch.{self.name}"


float16 = half = dtype("float16")
float32 = float = dtype("float32")
float64 = double = dtype("float64")
bfloat16 = dtype("bfloat16")
int32 = int = dtype("int32")
int64 = long = dtype("int64")
bool = dtype("bool")

import builtins as _b  # noqa: E402


class device:
    def __init__(self, type: "str | device" = "cpu", index: "_b.int | None" = None) -> None:
        if isinstance(type, device):
            type, index = type.type, type.index if index is None else index
        if ":" in type:
            type, idx = type.split(":", 1)
            index = _b.int(idx)
        self.type = type
        self.index = index

    def __eq__(self, other: object) -> "_b.bool":
        return isinstance(other, device) and (self.type, self.index) == (other.type, other.index)

    def __hash__(self) -> "_b.int":
        return hash((self.type, self.index))

    def __repr__(self) -> str:
        return f"device(type={self.type!r}" + (f", index={self.index})" if self.index is not None else ")")


_default_device = device("cpu")


def get_default_device() -> device:
    return _default_device


def set_default_device(d: "device | str") -> None:
    global _default_device
    _default_device = device(d)


class Tensor:
    """A value holder: `_data` is a Python number or (nested) list."""

    def __init__(self, data: Any = 0, device: "device | str | None" = None,
                 dtype: "dtype | None" = None) -> None:
        self._data = data
        self._grad: Any = None
        self.device = globals()["device"](device) if device is not None else get_default_device()
        self.dtype = dtype if dtype is not None else float32
        self.requires_grad = False

    # `.data` / `.grad` of a plain tensor are not observed (only Parameters are shared state)
    @property
    def data(self) -> Any:
        return self._data

    @data.setter
    def data(self, v: Any) -> None:
        self._data = v

    @property
    def grad(self) -> Any:
        return self._grad

    @grad.setter
    def grad(self, g: Any) -> None:
        self._grad = g

    def to(self, *args: Any, **kwds: Any) -> "Tensor":
        dev = kwds.get("device")
        for a in args:
            if isinstance(a, (device, str)):
                dev = a
        if dev is None or device(dev) == self.device:
            return self
        t = Tensor(self._data, device(dev), self.dtype)
        return t

    def clone(self) -> "Tensor":
        import copy
        return Tensor(copy.deepcopy(self._data), self.device, self.dtype)

    def detach(self) -> "Tensor":
        return self

    def tolist(self) -> Any:
        return self._data

    def item(self) -> Any:
        return self._data

    def __repr__(self) -> str:
        return f"tensor({self._data!r})"


def tensor(data: Any, device: "device | str | None" = None, dtype: "dtype | None" = None) -> Tensor:
    return Tensor(data, device, dtype)


# ---- inference_mode ---------------------------------------------------------------------------
_tls = threading.local()


def inference_mode_depth() -> "_b.int":
    """Number of enabled `inference_mode` contexts the calling thread is inside."""
    return getattr(_tls, "depth", 0)


def is_inference_mode_enabled() -> "_b.bool":
    return inference_mode_depth() > 0


class inference_mode:
    """Context manager and decorator; `inference_mode(False)` is a no-op context."""

    def __new__(cls, mode: Any = True):
        if callable(mode) and not isinstance(mode, _b.bool):   # bare `@torch.inference_mode`
            return cls(True)(mode)
        return super().__new__(cls)

    def __init__(self, mode: "_b.bool" = True) -> None:
        self.mode = _b.bool(mode)

    def __enter__(self) -> None:
        if self.mode:
            _tls.depth = inference_mode_depth() + 1

    def __exit__(self, *exc: Any) -> None:
        if self.mode:
            _tls.depth = inference_mode_depth() - 1

    def __call__(self, fn: Any) -> Any:
        mode = self.mode

        @functools.wraps(fn)
        def wrapper(*args: Any, **kwds: Any) -> Any:
            with inference_mode(mode):
                return fn(*args, **kwds)

        return wrapper


class no_grad(inference_mode):
    pass


# ---- save / load ------------------------------------------------------------------------------
def save(obj: Any, f: Any, **_kw: Any) -> None:
    if hasattr(f, "write"):
        pickle.dump(obj, f)
    else:
        with open(f, "wb") as fh:
            pickle.dump(obj, fh)


def load(f: Any, map_location: Any = None, **_kw: Any) -> Any:
    if hasattr(f, "read"):
        return pickle.load(f)
    with open(f, "rb") as fh:
        return pickle.load(fh)


def compile(model: Any, **_kw: Any) -> Any:   # noqa: A001
    model._compiled = True
    return model


from . import nn  # noqa: E402
from . import optim  # noqa: E402
