"""Stand-in `torch.optim`: the `Optimizer` base class (state_dict round trip, zero_grad)."""
from __future__ import annotations

import copy
from typing import Any, Iterable


class Optimizer:
    def __init__(self, params: Iterable[Any], defaults: dict[str, Any] | None = None) -> None:
        params = list(params)
        if params and isinstance(params[0], dict):
            self.param_groups = [dict(defaults or {}, **g) | {"params": list(g["params"])} for g in params]
        else:
            self.param_groups = [dict(defaults or {}, params=params)]
        self.defaults = dict(defaults or {})
        self.state: dict[Any, Any] = {}

    def state_dict(self) -> dict[str, Any]:
        groups = [{k: v for k, v in g.items() if k != "params"} | {"params": list(range(len(g["params"])))}
                  for g in self.param_groups]
        return {"state": copy.deepcopy(self.state), "param_groups": groups}

    def load_state_dict(self, state_dict: dict[str, Any]) -> None:
        self.state = copy.deepcopy(state_dict.get("state", {}))
        for g, saved in zip(self.param_groups, state_dict.get("param_groups", [])):
            for k, v in saved.items():
                if k != "params":
                    g[k] = v

    def zero_grad(self, set_to_none: bool = True) -> None:
        for g in self.param_groups:
            for p in g["params"]:
                p.grad = None

    def step(self, closure: Any = None) -> Any:
        raise NotImplementedError


from . import lr_scheduler  # noqa: E402

__all__ = ["Optimizer", "lr_scheduler"]
