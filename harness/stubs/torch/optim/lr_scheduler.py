"""Stand-in `torch.optim.lr_scheduler`: the `LRScheduler` base class."""
from __future__ import annotations

from typing import Any


class LRScheduler:
    def __init__(self, optimizer: Any, last_epoch: int = -1) -> None:
        self.optimizer = optimizer
        self.last_epoch = last_epoch

    def state_dict(self) -> dict[str, Any]:
        return {k: v for k, v in self.__dict__.items() if k != "optimizer"}

    def load_state_dict(self, state_dict: dict[str, Any]) -> None:
        self.__dict__.update(state_dict)

    def step(self) -> None:
        self.last_epoch += 1


_LRScheduler = LRScheduler
__all__ = ["LRScheduler"]
