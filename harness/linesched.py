"""Line-granular deterministic scheduler for small concurrency scenarios (DESIGN.md §4.3).

Logical threads are real `threading.Thread`s that only run while holding a *baton*. Before every
source line of the selected code objects (`sys.monitoring` LINE events, Python 3.12) the running
thread yields to the scheduler, which decides who runs next from an explicit schedule: a list of
naturals, one per *decision point* (a yield at which more than one thread could run), choice =
entry modulo the number of alternatives, alternatives ordered by thread index. Positions beyond
the end of the schedule choose 0, except that `rng` (a `random.Random`) — when given — draws them.

A real lock held by a logical thread that is not running would deadlock the baton, so locks that
can be contended must be `SchedLock`s (re-entrant, cooperating with the scheduler): a thread that
finds the lock taken is not runnable until it is released. Patch the module attribute the code
under test uses to create its lock, e.g.

    sched = LineSched(trace=[pamiq_core.data.interface])       # every function of the module
    pamiq_core.data.interface.RLock = sched.RLock              # lock factory (call it: sched.RLock())
    user = DataUser(buffer)                                    # objects are built AFTER patching
    res = sched.run([producer_fn, consumer_fn], schedule=[1, 0, 0, 2])
    res.lock_order      -> [("lock0", 0), ("lock0", 1), ...]   (lock name, thread index) per acquisition
    res.events          -> [(thread, "line", "collect", 183), (thread, "acquire", "lock0"), ...]
    res.choices         -> [(chosen, n_alternatives), ...]      one entry per decision point
    res.results / res.errors / res.deadlock / res.exhausted

Granularity: `LineSched(trace, preempt="lines")` (default) yields before every traced line;
`preempt="locks"` yields only before each `SchedLock` acquisition (enumerates the orders of the
critical sections — few schedules, complete for code whose shared accesses are all locked);
`preempt="both"` does both. `max_preemptions=k` (run/explore) forbids more than k switches away
from a thread that could have continued (CHESS-style bound: polynomially many schedules).

`explore(build, ...)` enumerates ALL schedules of a scenario depth-first (optionally bounded by a
number of preemptions): `build(sched)` must create fresh objects and return the thread functions.
One-shot helper: `run(threads, schedule, trace=…, patches=[(module, "RLock")])`.

`trace` accepts code objects, functions, methods, classes and modules (all functions defined in
them, nested ones included). Nothing outside the traced code is a preemption point, so untraced
code runs atomically (apart from blocking on a `SchedLock`). Threads not started by the scheduler
(e.g. the test's main thread) are never suspended and may use `SchedLock`s freely while no run is
in progress.
"""
from __future__ import annotations

import inspect
import sys
import threading
import types
from dataclasses import dataclass, field
from typing import Any, Callable, Iterable, Iterator, Sequence

_TOOL_ID = 4            # a free sys.monitoring tool id (0 debugger, 1 coverage, 2 profiler, 5 optimizer)
_TOOL_NAME = "pamiq-linesched"


class _Abort(BaseException):
    """Unwinds a logical thread when a run is cut (deadlock / step budget)."""


def code_objects(*things: Any) -> list[types.CodeType]:
    """All code objects of functions/methods/classes/modules (nested ones included)."""
    out: list[types.CodeType] = []
    seen: set[int] = set()

    def add_code(co: types.CodeType) -> None:
        if id(co) in seen:
            return
        seen.add(id(co))
        out.append(co)
        for c in co.co_consts:
            if isinstance(c, types.CodeType):
                add_code(c)

    def add(x: Any, module_name: str | None) -> None:
        if isinstance(x, types.CodeType):
            add_code(x)
        elif isinstance(x, (staticmethod, classmethod)):
            add(x.__func__, module_name)
        elif isinstance(x, property):
            for f in (x.fget, x.fset, x.fdel):
                if f is not None:
                    add(f, module_name)
        elif inspect.isfunction(x):
            if module_name is None or x.__module__ == module_name:
                add_code(x.__code__)
        elif inspect.ismethod(x):
            add(x.__func__, module_name)
        elif inspect.isclass(x):
            if module_name is None or x.__module__ == module_name:
                for v in vars(x).values():
                    add(v, x.__module__)
        elif inspect.ismodule(x):
            for v in vars(x).values():
                if inspect.isclass(v) or inspect.isfunction(v):
                    add(v, x.__name__)

    for t in things:
        add(t, None)
    return out


@dataclass
class RunResult:
    events: list[tuple] = field(default_factory=list)
    choices: list[tuple[int, int]] = field(default_factory=list)
    lock_order: list[tuple[str, int]] = field(default_factory=list)
    results: list[Any] = field(default_factory=list)
    errors: list[BaseException | None] = field(default_factory=list)
    deadlock: bool = False
    exhausted: bool = False
    steps: int = 0
    preemptions: int = 0

    @property
    def schedule(self) -> list[int]:
        """The choices actually made — replaying it reproduces the run."""
        return [c for c, _ in self.choices]

    @property
    def ok(self) -> bool:
        return not self.deadlock and not self.exhausted and all(e is None for e in self.errors)


class _LT:
    """One logical thread."""

    def __init__(self, idx: int, fn: Callable[[], Any]) -> None:
        self.idx = idx
        self.fn = fn
        self.go = threading.Event()
        self.state = "ready"          # ready | blocked | done
        self.blocked_on: "SchedLock | None" = None
        self.thread: threading.Thread | None = None


class SchedLock:
    """Re-entrant lock cooperating with a `LineSched` (drop-in for `threading.RLock()`)."""

    def __init__(self, sched: "LineSched", name: str) -> None:
        self._sched = sched
        self.name = name
        self._owner: Any = None
        self._count = 0

    def acquire(self, blocking: bool = True, timeout: float = -1) -> bool:
        s = self._sched
        me = s._current_lt()
        key = me if me is not None else ("ext", threading.get_ident())
        if me is not None and s._yield_on_acquire and self._owner != key:
            # synchronisation-granular preemption point: somebody else may get there first
            s._record((me.idx, "want", self.name))
            s._switch(me)
        while True:
            if self._owner is None or self._owner == key:
                self._owner = key
                self._count += 1
                if self._count == 1 and me is not None:
                    s._record((me.idx, "acquire", self.name))
                    s._result.lock_order.append((self.name, me.idx))
                return True
            if not blocking:
                return False
            if me is None:
                raise RuntimeError("SchedLock contended by a thread the scheduler does not manage")
            # held by another logical thread: not runnable until released
            s._record((me.idx, "block", self.name))
            me.state, me.blocked_on = "blocked", self
            s._switch(me)

    def release(self) -> None:
        s = self._sched
        me = s._current_lt()
        key = me if me is not None else ("ext", threading.get_ident())
        if self._owner != key:
            raise RuntimeError("cannot release un-acquired lock")
        self._count -= 1
        if self._count == 0:
            self._owner = None
            if me is not None:
                s._record((me.idx, "release", self.name))
                for t in s._threads:
                    if t.state == "blocked" and t.blocked_on is self:
                        t.state, t.blocked_on = "ready", None

    def __enter__(self) -> bool:
        return self.acquire()

    def __exit__(self, *exc: Any) -> None:
        self.release()

    def locked(self) -> bool:
        return self._owner is not None


class LineSched:
    def __init__(self, trace: Iterable[Any] = (), *, max_steps: int = 20000,
                 preempt: str = "lines") -> None:
        """`preempt`: "lines" — yield before every traced source line; "locks" — yield only
        before every `SchedLock` acquisition (all orders of the critical sections; complete when
        every shared access is under a lock), traced lines are still recorded as events;
        "both"."""
        if preempt not in ("lines", "locks", "both"):
            raise ValueError(preempt)
        self._codes = code_objects(*trace)
        self._max_steps = max_steps
        self._yield_on_lines = preempt in ("lines", "both")
        self._yield_on_acquire = preempt in ("locks", "both")
        self._threads: list[_LT] = []
        self._by_ident: dict[int, _LT] = {}
        self._result = RunResult()
        self._schedule: Sequence[int] = ()
        self._pos = 0
        self._rng = None
        self._max_preemptions: int | None = None
        self._aborting = False
        self._main_wake = threading.Event()
        self._n_locks = 0
        self._running = False

    # ---- lock factory -------------------------------------------------------------------------
    def RLock(self, name: str | None = None) -> SchedLock:     # noqa: N802 (mirrors threading.RLock)
        lk = SchedLock(self, name or f"lock{self._n_locks}")
        self._n_locks += 1
        return lk

    Lock = RLock

    # ---- internals ----------------------------------------------------------------------------
    def _current_lt(self) -> _LT | None:
        if not self._running:
            return None
        return self._by_ident.get(threading.get_ident())

    def _record(self, ev: tuple) -> None:
        self._result.events.append(ev)

    def _choose(self, current: _LT | None) -> _LT | None:
        """Pick the next thread to run among the runnable ones (None if there is none)."""
        runnable = [t for t in self._threads if t.state == "ready"]
        if not runnable:
            return None
        cur_ok = current is not None and current.state == "ready"
        if cur_ok and self._max_preemptions is not None and \
                self._result.preemptions >= self._max_preemptions:
            return current
        if len(runnable) == 1:
            return runnable[0]
        if self._pos < len(self._schedule):
            c = self._schedule[self._pos] % len(runnable)
        elif self._rng is not None:
            c = self._rng.randrange(len(runnable))
        else:
            c = 0
        self._pos += 1
        self._result.choices.append((c, len(runnable)))
        nxt = runnable[c]
        if cur_ok and nxt is not current:
            self._result.preemptions += 1
        return nxt

    def _switch(self, me: _LT) -> None:
        """Called by the running logical thread at a yield point / when it blocks."""
        self._result.steps += 1
        if self._result.steps > self._max_steps:
            self._result.exhausted = True
            self._abort_all(me)
        nxt = self._choose(me)
        if nxt is None:                       # me is blocked and nobody can run
            self._result.deadlock = True
            self._abort_all(me)
        if nxt is me:
            return
        me.go.clear()
        nxt.go.set()
        me.go.wait()
        if self._aborting:
            raise _Abort()

    def _abort_all(self, me: _LT) -> None:
        self._aborting = True
        for t in self._threads:
            if t is not me:
                t.go.set()
        raise _Abort()

    def _finish(self, me: _LT) -> None:
        me.state = "done"
        self._record((me.idx, "end"))
        if self._aborting:
            if all(t.state == "done" for t in self._threads):
                self._main_wake.set()
            return
        nxt = self._choose(None)
        if nxt is not None:
            nxt.go.set()
            return
        if any(t.state == "blocked" for t in self._threads):
            self._result.deadlock = True
            self._aborting = True
            for t in self._threads:
                if t.state != "done":
                    t.go.set()
            return
        self._main_wake.set()

    def _thread_main(self, me: _LT) -> None:
        self._by_ident[threading.get_ident()] = me
        me.go.wait()
        try:
            if self._aborting:
                raise _Abort()
            self._record((me.idx, "start"))
            self._result.results[me.idx] = me.fn()
        except _Abort:
            pass
        except BaseException as e:            # exceptions of a thread do not propagate (CPython)
            self._result.errors[me.idx] = e
            self._record((me.idx, "raise", type(e).__name__))
        finally:
            # a thread that dies holding a SchedLock would block the others forever: report it
            self._finish(me)

    def _on_line(self, code: types.CodeType, line: int) -> Any:
        me = self._by_ident.get(threading.get_ident())
        if me is None or not self._running or me.state != "ready":
            return None
        self._record((me.idx, "line", code.co_name, line))
        if self._yield_on_lines:
            self._switch(me)
        return None

    # ---- public -------------------------------------------------------------------------------
    def run(self, threads: Sequence[Callable[[], Any]], schedule: Sequence[int] = (), *,
            rng: Any = None, max_preemptions: int | None = None) -> RunResult:
        if self._running:
            raise RuntimeError("LineSched.run is not re-entrant")
        mon = sys.monitoring
        self._threads = [_LT(i, fn) for i, fn in enumerate(threads)]
        self._by_ident = {}
        self._result = RunResult(results=[None] * len(threads), errors=[None] * len(threads))
        self._schedule, self._pos, self._rng = list(schedule), 0, rng
        self._max_preemptions = max_preemptions
        self._aborting = False
        self._main_wake.clear()
        if mon.get_tool(_TOOL_ID) not in (None, _TOOL_NAME):
            raise RuntimeError("sys.monitoring tool id in use")
        if mon.get_tool(_TOOL_ID) is None:
            mon.use_tool_id(_TOOL_ID, _TOOL_NAME)
        mon.register_callback(_TOOL_ID, mon.events.LINE, self._on_line)
        for co in self._codes:
            mon.set_local_events(_TOOL_ID, co, mon.events.LINE)
        self._running = True
        try:
            for t in self._threads:
                t.thread = threading.Thread(target=self._thread_main, args=(t,), daemon=True)
                t.thread.start()
            first = self._choose(None)
            if first is not None:
                first.go.set()
                self._main_wake.wait()
            for t in self._threads:
                t.thread.join(timeout=10)
                if t.thread.is_alive():       # pragma: no cover - would be a bug of this module
                    raise RuntimeError("logical thread did not stop")
        finally:
            self._running = False
            for co in self._codes:
                mon.set_local_events(_TOOL_ID, co, 0)
            mon.register_callback(_TOOL_ID, mon.events.LINE, None)
            mon.free_tool_id(_TOOL_ID)
        return self._result


def run(threads: Sequence[Callable[[], Any]], schedule: Sequence[int] = (), *,
        trace: Iterable[Any] = (), patches: Iterable[tuple[Any, str]] = (),
        rng: Any = None, max_preemptions: int | None = None, max_steps: int = 20000,
        preempt: str = "lines") -> RunResult:
    """One-shot: patch lock factories (restored afterwards), run `threads` under `schedule`.
    Only useful when the objects under test create their locks lazily or inside the threads;
    otherwise build a `LineSched`, patch, construct the objects, then call `sched.run`."""
    sched = LineSched(trace, max_steps=max_steps, preempt=preempt)
    saved = [(m, a, getattr(m, a)) for m, a in patches]
    try:
        for m, a in patches:
            setattr(m, a, sched.RLock)
        return sched.run(threads, schedule, rng=rng, max_preemptions=max_preemptions)
    finally:
        for m, a, v in saved:
            setattr(m, a, v)


def explore(build: Callable[[LineSched], Sequence[Callable[[], Any]]], *, trace: Iterable[Any] = (),
            max_preemptions: int | None = None, max_runs: int | None = None,
            max_steps: int = 20000, preempt: str = "lines") -> Iterator[tuple[RunResult, Any]]:
    """Enumerate every schedule of a scenario depth-first. `build(sched)` creates fresh objects
    (using `sched.RLock` for their locks) and returns the thread functions; it may return a pair
    `(threads, context)` — the context is yielded with the result. Yields `(result, context)`."""
    codes = code_objects(*trace)
    prefix: list[int] = []
    n = 0
    while True:
        sched = LineSched(codes, max_steps=max_steps, preempt=preempt)
        built = build(sched)
        ctx = None
        if isinstance(built, tuple) and len(built) == 2 and not callable(built[0]):
            built, ctx = built
        res = sched.run(built, prefix, max_preemptions=max_preemptions)
        yield res, ctx
        n += 1
        if max_runs is not None and n >= max_runs:
            return
        ch = res.choices
        i = len(ch) - 1
        while i >= 0 and ch[i][0] + 1 >= ch[i][1]:
            i -= 1
        if i < 0:
            return
        prefix = [c for c, _ in ch[:i]] + [ch[i][0] + 1]
