"""Correspondence of the control thread's loop body with the Lean model `Pamiq.Tick`
(lean/Pamiq/Model/Tick.lean, theorems in Props/C03Tick.lean).

The control thread's events of an implementation trace are cut into ticks (a tick ends with the loop
delay `loop_sleep`). For every tick that no exception or interrupt cut short, the *inputs* the tick
found (value of the save condition, the commands it took off the queue, the exception flags at its
read phase, outcome of the uptime test) are given to the model, and the model's ordered list of what
the tick does must equal what the implementation did: save condition first, then the commands in
order (nothing after SHUTDOWN), then the exception flags (every one), then
the uptime test; `shutdown()` exactly where the model calls it; and the loop goes on iff the model
says the tick did not stop it.
"""
from __future__ import annotations

TID = {"inference": 0, "training": 1}
CMD = {"PAUSE": "pause", "RESUME": "resume", "SHUTDOWN": "shutdown", "SAVE_STATE": "save"}
CUT = ("cb_raise", "savecond_raise", "interrupt", "save_raise", "save_state_raise", "try_pause_raise",
       "resume_raise", "shutdown_raise")


def ticks_of(events: list[tuple]):
    """-> list of dicts {evs, sc, q, reads, up, cut, last, flags} for the control loop's ticks."""
    out = []
    cur = None
    flags = [False, False]
    started = False
    depth = 0                     # nesting of try_pause / resume / save_state / shutdown calls
    absorb_save = False
    in_on_finally = False
    for th, kind, obj, val in events:
        if kind == "set" and isinstance(obj, str) and obj.startswith("exc[") and obj[4:-1] in TID:
            flags[TID[obj[4:-1]]] = True
        if th != "control":
            continue
        if kind == "spawn" and obj == "webapi":
            started = True
            cur = {"evs": [], "sc": None, "q": [], "reads": {}, "up": None, "cut": False, "flags": None}
            continue
        if not started or cur is None:
            continue
        if kind in CUT:
            cur["cut"] = True
        if kind == "savecond_eval" and depth == 0:
            cur["sc"] = bool(val)
            cur["evs"].append(f"sc{int(bool(val))}")
        elif kind == "save_state_call":
            if depth == 0:
                if absorb_save:
                    absorb_save = False
                else:
                    cur["evs"].append("save")
            depth += 1
        elif kind in ("try_pause_call", "resume_call"):
            if depth == 0 and not (cur["evs"] and cur["evs"][-1] in ("x:pause", "x:resume")):
                cur["evs"].append("unsolicited:" + kind[:-5])      # a pause / resume no command asked for
            depth += 1
        elif kind in ("save_state_ret", "try_pause_ret", "resume_ret", "save_state_raise", "try_pause_raise",
                      "resume_raise"):
            depth = max(0, depth - 1)
        elif kind == "shutdown_call":
            if depth == 0:
                cur["evs"].append("sd")
            depth += 1
        elif kind in ("shutdown_ret", "shutdown_raise"):
            depth = max(0, depth - 1)
        elif kind == "cmd_exec" and obj in CMD and depth == 0:
            cur["q"].append(CMD[obj])
            cur["evs"].append("x:" + CMD[obj])
            absorb_save = obj == "SAVE_STATE"
        elif kind == "read" and isinstance(obj, str) and obj.startswith("exc[") and depth == 0:
            t = TID[obj[4:-1]]
            cur["reads"][t] = bool(val)
            cur["evs"].append(f"r{t}:{int(bool(val))}")
            cur["flags"] = list(flags)
        elif kind in ("uptime_check", "uptime_reached") and depth == 0:
            cur["up"] = kind == "uptime_reached"
            cur["evs"].append(f"up{int(cur['up'])}")
            if cur["flags"] is None:
                cur["flags"] = list(flags)
        elif kind == "loop_sleep":
            if cur["flags"] is None:
                cur["flags"] = list(flags)
            out.append(cur)
            cur = {"evs": [], "sc": None, "q": [], "reads": {}, "up": None, "cut": False, "flags": None}
    if cur is not None and (cur["evs"] or cur["cut"]):
        if cur["flags"] is None:
            cur["flags"] = list(flags)
        cur["unfinished"] = True
        out.append(cur)
    return out


def follow(driver, events: list[tuple]):
    """-> (divergence | None, number of ticks compared)."""
    ticks = ticks_of(events)
    lines, idx = [], []
    for k, t in enumerate(ticks):
        if t["cut"] or t["sc"] is None:
            continue
        # a tick that called shutdown() is the last one: the loop delay still follows it; an unfinished
        # last tick (the run was cut by the step budget) is compared only if it got as far as the uptime test
        if t.get("unfinished") and t["up"] is None:
            continue
        exc = [t["reads"].get(i, t["flags"][i]) for i in range(2)]
        up = bool(t["up"]) if t["up"] is not None else False
        lines.append(f"tick run sc={int(t['sc'])} q=[{','.join(t['q'])}] "
                     f"exc=[{','.join(str(int(x)) for x in exc)}] up={int(up)}")
        idx.append(k)
    if not lines:
        return None, 0
    replies = driver.batch(lines)
    for k, ln, r in zip(idx, lines, replies):
        t = ticks[k]
        want = "[" + ",".join(t["evs"]) + "]"
        got = r.split(" ")[0]
        if got != want:
            return ({"tick": k, "line": ln, "implementation": want, "model": r}, len(lines))
        stopped = r.endswith("stopped=1")
        # a tick begins with the save condition: what follows the last tick (on_finally's and the
        # epilogue's shutdown()) is not one
        more = any(ticks[j]["sc"] is not None for j in range(k + 1, len(ticks)))
        if stopped and more and not t.get("unfinished"):
            return ({"tick": k, "line": ln, "implementation": "the loop ran another tick",
                     "model": r + " (the tick called shutdown(): it is the last one)"}, len(lines))
    return None, len(lines)
