"""Trace refinement: project an implementation event trace (sysharness) onto the action alphabet of
the Lean model `Pamiq.Proto` and replay it through the model's `step` (lean driver, `proto act …`).

Returns the first implementation event the model does not allow (a correspondence failure), and the
set of (action constructor) labels exercised, for coverage reporting.
"""
from __future__ import annotations

TID = {"inference": 0, "training": 1}
LAST_COV: list[str] = []     # (action @ program counter) pairs of the last followed trace
KIND = {"setup": "setup", "teardown": "teardown", "on_paused": "pausedHook", "on_resumed": "resumedHook",
        "observe": "step", "step": "step", "affect": "step", "t_setup": "step", "train": "step",
        "t_teardown": "step", "sync": "step"}


def project(events: list[tuple], n_threads: int = 2) -> list[tuple[int, str]]:
    out: list[tuple[int, str]] = []
    holding = {0: False, 1: False}
    started = False
    in_save_state = False       # inside ControlThread.save_state (a runtime save); the final save is
                                # launch()'s own call of the state store, outside any such call
    unwinding = False
    final = False
    done = False
    for i, (th, kind, obj, val) in enumerate(events):
        if done:
            break
        a = None
        if th in TID:
            t = TID[th]
            if kind in ("cb_begin", "cb_end", "cb_raise"):
                name = obj.split(".")[-1]
                k = KIND.get(name)
                if k is not None:
                    a = {"cb_begin": "bCbBegin", "cb_end": "bCbEnd", "cb_raise": "bCbRaise"}[kind] + f" {t} {k}"
            elif kind == "read" and obj == "resume":
                a = (f"bLeaveRead {t} {int(val)}" if holding[t] else f"bReadResume {t} {int(val)}")
            elif kind == "read" and obj == "shutdown":
                a = f"bReadShutdown {t} {int(val)}"
            elif kind == "set" and obj == f"paused[{th}]":
                a = f"bSetPaused {t}"
            elif kind == "clear" and obj == f"paused[{th}]":
                a = f"bClearPaused {t}"
            elif kind == "set" and obj == f"exc[{th}]":
                a = f"bSetExc {t}"
            elif obj == "resume" and kind in ("wait_imm", "wait_block", "wait_woken", "wait_timeout"):
                a = {"wait_imm": "bWaitImm", "wait_block": "bWaitBlock", "wait_woken": "bWaitWoken",
                     "wait_timeout": "bWaitTimeout"}[kind] + f" {t}"
            elif kind == "acquire" and obj == "resume_lock":
                holding[t] = True
                a = f"bAcquire {t}"
            elif kind == "release" and obj == "resume_lock":
                holding[t] = False
                a = f"bRelease {t}"
            elif kind == "loop_sleep":
                a = f"bLoopSleep {t}"
            elif kind == "exit":
                a = f"bExit {t}"
        elif th.startswith("worker["):
            t = TID[th[7:].split("]")[0]]
            if kind in ("wait_imm", "wait_woken"):
                a = f"wRet {t} 1"
            elif kind == "wait_timeout":
                a = f"wRet {t} 0"
        elif th == "control":
            if kind == "spawn":
                if obj in TID:
                    started = True
                    a = f"cSpawn {TID[obj]}"
                elif obj == "webapi":
                    a = "cRun"
                elif obj.startswith("worker["):
                    a = f"cSpawnWorker {TID[obj[7:-1]]}"
            elif kind == "interrupt" and str(obj).startswith("boot:"):
                started = True
                unwinding = True
                a = "cExc"
            elif not started:
                a = None
            elif kind == "try_pause_call":
                a = "cTryPause"
            elif kind == "try_pause_ret":
                a = f"cTryPauseRet {int(bool(val))}"
            elif kind == "acquire" and obj == "resume_lock":
                a = "cAcquire"
            elif kind == "release" and obj == "resume_lock":
                a = "cRelease"
            elif kind == "clear" and obj == "resume":
                a = "cClearResume"
            elif kind == "set" and obj == "resume":
                a = "cSetResume"
            elif kind == "set" and obj == "shutdown":
                a = "cSetShutdown"
            elif kind == "workers_joined":
                # while an exception unwinds try_pause the executor still joins its workers
                a = None if unwinding else "cWorkersJoined"
            elif kind == "clock_pause":
                a = "cClockPause"
            elif kind == "clock_resume":
                a = "cClockResume"
            elif kind == "resume_call":
                a = "cResume"
            elif kind == "resume_ret":
                a = "cResumeRet"
            elif kind == "shutdown_call":
                unwinding = False
                a = "cShutdown"
            elif kind == "shutdown_ret":
                a = "cShutdownRet"
            elif kind == "save_state_call":
                in_save_state = True
                a = "cSave"
            elif kind == "save_state_ret":
                in_save_state = False
                a = "cSaveRet"
            elif kind == "save_begin":
                final = not in_save_state
                a = "cFinalSaveBegin" if final else "cSaveBegin"
            elif kind == "save_end":
                a = "cFinalSaveEnd" if final else "cSaveEnd"
            elif kind == "cb_begin" and obj.endswith(".save"):
                a = "cSaveCbBegin"
            elif kind == "cb_end" and obj.endswith(".save"):
                a = "cSaveCbEnd"
            elif kind in ("cb_raise", "savecond_raise", "interrupt", "save_raise", "save_state_raise",
                          "try_pause_raise", "resume_raise", "shutdown_raise"):
                if kind == "save_state_raise":
                    in_save_state = False
                if final:
                    done = True          # a failing final save ends launch() with that exception
                elif not unwinding:
                    unwinding = True
                    a = "cExc"
            elif kind == "cmd_exec" and obj == "SHUTDOWN":
                a = "cCmdShutdown"
            elif kind == "uptime_reached":
                a = "cUptime"
            elif kind == "read" and obj.startswith("exc["):
                a = f"cReadExc {TID[obj[4:-1]]} {int(val)}"
            elif kind == "read" and obj.startswith("alive["):
                a = f"cIsAlive {TID[obj[6:-1]]} {int(bool(val))}"
            elif kind == "join":
                a = f"cJoin {TID[obj]}"
            elif kind == "launch_returned":
                a = "cReturn"
                done = True
            elif kind in ("launch_raised", "launch_aborted"):
                done = True
        if a is not None:
            out.append((i, a))
    return out


def follow(driver, events: list[tuple], max_attempts: int, n_threads: int = 2):
    """Replay through the Lean model. Returns (divergence | None, labels_used, n_actions)."""
    acts = project(events, n_threads)
    lines = [f"proto reset {n_threads} {max_attempts}"] + ["proto act " + a for _, a in acts] + ["proto cov"]
    replies = driver.batch(lines)
    cov = replies.pop()
    global LAST_COV
    LAST_COV = [c.replace("Pamiq.Proto.", "").replace("BPc.", "").replace("CPc.", "").replace("CbKind.", "")
                for c in cov.strip("[]").split(",") if c]
    labels = set()
    for (i, a), r in zip(acts, replies[1:]):
        if r != "ok":
            lo = max(0, i - 12)
            return ({"event_index": i, "event": list(map(str, events[i])), "action": a, "model": r,
                     "context": [list(map(str, e)) for e in events[lo:i + 1]]}, labels, len(acts))
        labels.add(a.split()[0] + ("" if not a.startswith("bCb") else ":" + a.split()[-1]))
    return None, labels, len(acts)
