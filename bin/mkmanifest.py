#!/usr/bin/env python3
"""Regenerate MANIFEST.json from the table below (development helper; not run by the checks)."""
import json
from pathlib import Path

V = Path(__file__).resolve().parent.parent
props = [json.loads(l) for l in open(V / "properties.jsonl")]
PROTO_NOTE = ("Trusted: Lean kernel + standard axioms; the deterministic scheduler and its fake threading "
              "primitives (CPython semantics assumed, reproduced in harness/detsched.py), the projection of "
              "implementation events onto the model alphabet, the monitors. Assumed: fair OS scheduling, "
              "terminating user callbacks, atomicity of single Event/lock operations; asynchronous interrupts "
              "inside `finally` clean-up are not modelled.")
T = {
 "C01": ("Invariant of the thread-protocol model Pamiq.Proto, proved by induction over all traces for any number "
         "of threads, any retry limit and every interleaving: while a pause is acknowledged every background thread "
         "is in its wait section with no callback executing, the clock is frozen, and only resume()/shutdown() end "
         "the phase. Real launch() runs under a deterministic scheduler are replayed through the model (trace "
         "refinement) and checked by an independent monitor. ControlThread.try_pause / save_state / resume / shutdown are "
         "translated from the source on every run and proved never to leave the control graph of the model "
         "(try_pause returns True only through cWorkersJoined true, cClockPause).",
         "Lean 4 invariant proof over a labelled transition system + trace-refinement correspondence", "§7.0-7.1", PROTO_NOTE),
 "C02": ("Safety invariants (shutdown implies resume set; no pause after shutdown; final save only after every thread "
         "exited with the clock running) and bounded-step progress (rank function strictly decreasing on every own "
         "action after shutdown; every live thread has an enabled action) of Pamiq.Proto, lifted to whole executions "
         "(C02Live: along every continuation after shutdown the background threads perform at most 12*n work actions; no "
         "deadlock among them; the launch epilogue never blocks; C02Term: from every reachable state there is a finite "
         "continuation after which launch() has returned - no reachable state is a trap); trace refinement of real launch() "
         "runs incl. timed mode, interrupts in the control loop and during start-up, deadlock detection; the fake threading primitives are enumerated over all schedules and "
         "compared with real threading. ThreadController and the pause / resume / shutdown / save methods of ControlThread are "
         "translated from the source on every run and tied to the model's control actions (shutdown sets resume before "
         "shutdown; the translated methods never leave the control graph cut out of Proto.cstep, for every number of attempts "
         "and every outcome of the waits).",
         "Lean 4 invariant + ranking-function proofs + trace-refinement correspondence", "§7.2", PROTO_NOTE),
 "C03": ("Fault at every callback kind and occurrence is a nondeterministic action of Pamiq.Proto: flag before teardown, "
         "teardown phase final, control loop forced to shutdown after seeing a flag or unwinding; the control loop body in "
         "source order (Pamiq.Tick: a tick stops the loop iff it found a cause, every tick reads every exception flag, the "
         "tick that finds a raised flag is the last); ControlThread.on_tick, its drain loop and shutdown() are translated from "
         "the source on every run and proved equal to Pamiq.Tick.tick for every input; trace refinement of real launch() runs "
         "with injected faults (incl. exceptions that cannot be formatted), every control tick compared with the Tick model.",
         "Lean 4 proofs over the protocol model + fault-injection correspondence", "§7.3", PROTO_NOTE),
 "C04": ("A runtime save occurs only under an acknowledged pause (so C01 applies for its whole duration), no step "
         "completes during it, resume afterwards iff not already paused; product model Pamiq.SysData (protocol x "
         "component values): while acknowledged the observable values are those of the acknowledgement instant, every "
         "value a runtime save writes is the value of that instant, nothing stays in transit, the saved data is everything "
         "collected; real traces (protocol + data events) are replayed through both models and the files of every save "
         "are compared with the model's predicted snapshot and, independently, with the trace. ControlThread.save_state is "
         "translated from the source on every run: cSave, the pause attempt, the write only after it succeeded, resume exactly "
         "when the system was not paused before (save_state_refines).",
         "Lean 4 invariant proofs over a product transition system + trace-refinement and snapshot correspondence", "§7.4", PROTO_NOTE),
 "C05": ("load_save / load_save_id: for every system, reader and fresh directory the real save order followed by load yields "
         "the saved observables (buffers incl. loading into smaller ones, arrival counts for every t, trainer markers over "
         "extended rationals, model versions after the post-load sync, every leaf, clock continuing from the saved "
         "instant); relaunch theorem; PyTorch trainer part: optimizer / scheduler state files round-trip for every set of "
         "names (load_save_torch); correspondence on random systems saved by the real StateStore/launch() and loaded "
         "into fresh objects and fresh processes, and of the real TorchTrainer on the stand-in torch.", "Lean 4 round-trip proofs over an abstract file system + differential correspondence", "§7.5",
         "Trusted: Lean kernel, standard axioms, scripted clock/random. Byte formats (pickle, str(float)) are validated by byte suites, not proved; IEEE rounding not modelled; user components are the harness's."),
 "C06": ("Refinement theorem: the model clock equals the integral of the time scale over un-paused real time for every "
         "history; monotonicity, continuity, export purity, sleep length, bounded slip; exact-rational correspondence "
         "with time.py on exhaustive small and random histories, concurrent callers under line-granular preemption, "
         "and a float-regime monitor suite (epoch-sized clock, tiny scales, thousands of reads, ulp tolerance).",
         "Lean 4 refinement proof by induction over operation histories + differential correspondence", "§7.6",
         "Trusted: Lean kernel, standard axioms, scripted stdlib clock. IEEE rounding not modelled (dyadic inputs, exact comparison)."),
 "C07": ("delivered_eq / ts_paired / count_since / exclusive for every collect-update history and queue size; generic "
         "lock-atomicity theorem (every interleaving of critical sections equals their atomic execution in lock-acquisition "
         "order) instantiated for collect || update; line-granular preemption of the real DataCollector/DataUser with all "
         "schedules of the small cases.", "Lean 4 proofs (history induction + interleaving induction) + line-preemption correspondence", "§7.7",
         "Trusted: Lean kernel, standard axioms, line-granular scheduler (harness/linesched.py, sys.monitoring) and its cooperative fake RLock; single deque.append / attribute store assumed atomic; one producer, one consumer."),
 "C08": ("Shutdown-only-for-a-cause invariant of Pamiq.Proto, totality of the step statistics for every firing pattern "
         "of the logging scheduler, uptime-window arithmetic theorem over rationals; timed runs of real launch() over a "
         "configuration grid; float-regime monitor suites for the statistics and the uptime test. The uptime test, the statistics "
         "logger (library calls only with enough samples, for every number of samples) and InferenceThread.on_tick (when a sample "
         "is recorded) are translated from the source on every run and tied to the model.",
         "Lean 4 proofs (invariant, totality by induction, arithmetic) + correspondence", "§7.8", PROTO_NOTE),
 "C09": ("Phase structure of Pamiq.Proto: each callback kind only in its phase, no self-overlap, setup not re-entered, "
         "no work while flagged paused, teardown phase final, save callbacks exclude owner callbacks; protocol-language "
         "theorem by refinement (C09Lang: along every trace the phases of every thread are accepted by "
         "start (tick | pause resume)* [pause] finish); the loop guard of every background thread "
         "(ControllerCommandHandler.manage_loop / stop_if_pause) is translated from the source on every run and proved never "
         "to leave a background thread's graph of the model, for every sequence of event values and wait outcomes; "
         "per-component protocol automaton monitor on real runs.",
         "Lean 4 proofs over the protocol model + trace refinement + protocol-automaton monitor", "§7.9",
         PROTO_NOTE + " Components are abstracted to callback kinds in the model; per-component exactly-once is checked on the implementation."),
 "C19": ("Invariant of a two-thread micro-step model of TorchInferenceModel / TorchTrainingModel.sync_impl: sync "
         "post-condition, the module in use by inference is never the one the trainer writes, every observation is one "
         "complete published parameter set; proved counterexample for the early-capturing unwrap; real pamiq_core.torch "
         "classes on a stand-in torch under access-level preemption (one schedule per equivalence class).",
         "Lean 4 invariant proof over all interleavings + preemption-schedule correspondence", "§7.19",
         "Trusted: Lean kernel, standard axioms, linesched/accsched schedulers. Real PyTorch is replaced by a minimal stand-in (harness/stubs/torch; assumed behaviour listed in the evidence); parameters are integers; one inference and one training thread."),
 "C20": ("no_step_after_done, reset_count, action_provenance, delivery (exactly once, in order), request_honoured for every "
         "flag stream and request pattern; correspondence on all patterns of length <= 6 and random longer scripts.",
         "Lean 4 proofs over all scripts + differential correspondence", "§7.20",
         "Trusted: Lean kernel, standard axioms. Gymnasium itself is replaced by a minimal stand-in (harness/stubs/gymnasium); callbacks terminate and do not raise."),
 "C10": ("old_states_untouched (every path outside the new directory unchanged for every crash point and truncation) and "
         "torn_rejected (every proper prefix of the save's operation sequence, with any truncation of the file being written, "
         "is rejected by load for every system, tolerant user leaves included) over an abstract file system with the code's "
         "operation order; fails_before_threads; real saves killed at every file-system operation in child processes, every "
         "truncation <= 512 B, relaunch from torn directories.", "Lean 4 proofs over all crash points + fault-enumeration correspondence", "§7.10",
         "Trusted: Lean kernel, standard axioms, audit-hook crash injection. Process-kill model only (no power-loss reordering); rejection of every proper pickle prefix is validated on the real bytes, not proved."),
 "C11": ("Invariants by induction over add/load histories for the four buffer classes (suffix property, one-slot "
         "replacement, p=1 always, p=0 never, subset, alignment, constructor totality); correspondence with scripted "
         "random draws.", "Lean 4 proofs by induction over operation sequences + differential correspondence", "§7.11",
         "Trusted: Lean kernel, standard axioms, scripted random module. IEEE rounding, pickle trusted."),
 "C12": ("Structural induction over all component trees: dispatch exactly once in fixed order, injective save paths equal "
         "to load paths, parents exist, data path = wrappers on the path; correspondence with real trees incl. exhaustive "
         "depth<=2.", "Lean 4 proofs by mutual structural induction + differential correspondence", "§7.12",
         "Trusted: Lean kernel, standard axioms, recording leaves. Child names are single path components; components occur once in the tree."),
 "C13": ("Round-robin cursor and training-gate decision proved for every tick/arrival history; marker only on positive "
         "decisions; is_trainable and TrainingThread.on_tick (which trainer runs, cursor := (cursor + 1) % n) are translated from the "
         "source on every run and tied to the model; correspondence with real TrainingThread.on_tick and DataUser.", "Lean 4 proofs over tick histories + differential correspondence", "§7.13",
         "Trusted: Lean kernel, standard axioms, scripted clock. Single-threaded (interleavings are C07)."),
 "C14": ("Decision tables for model access, object identity, sync_exact and inference_fresh over every run/load history; an "
         "aborted training run changes nothing the agent sees (failed_run_keeps_inference); a model registered after the "
         "wiring is handed to the agent as the very object it synchronises into (set_item_same_object).",
         "Lean 4 proofs (decision logic + invariant over histories) + differential correspondence", "§7.14",
         "Trusted: Lean kernel, standard axioms. Parameters abstracted to version numbers."),
 "C15": ("fires_iff, restart only after firing for every clock advance between reads, gap, order/once, step scheduler "
         "divisibility, save-condition latch, raising callbacks never restart the interval, over every history; "
         "correspondence under an adversarial clock (advancing on every read, stepping back) with raising callbacks.",
         "Lean 4 proofs over update histories + differential correspondence", "§7.15",
         "Trusted: Lean kernel, standard axioms, scripted adversarial clock. `>` boundary as in the code."),
 "C16": ("Arithmetic recurrence of reset instants (reset_gap, no_burst, pause_free) for every history; timed correspondence "
         "with SleepIntervalAdjustor / FixedIntervalInteraction stand-alone, and timed runs of the real launch() with a "
         "fixed-interval interaction under random schedules and pause / resume / save scripts (no step while the clock is "
         "frozen, step boundaries at least interval - offset apart on a clock of the monitor's own).", "Lean 4 arithmetic proofs over timelines + differential and system-level correspondence", "§7.16",
         "Trusted: Lean kernel, standard axioms, virtual clock. Assumes the clock is not paused during the adjustor's own sleep (C01 provides this under launch())."),
 "C17": ("FIFO/exactly-once invariant of the command queue for every request/drain interleaving, status decision table "
         "for any number of threads, partial truthfulness theorem + proved counterexample for the non-atomic reader; "
         "correspondence with WebApiServer (in-process ASGI) and the real drain loop of the control thread, "
         "SystemStatusProvider (paused x exception flags) and the running system (dequeued => carried out; Pamiq.Tick).",
         "Lean 4 invariant + decision-table proofs + correspondence", "§7.17",
         PROTO_NOTE + " Starlette routing exercised in-process at the ASGI interface. The unrestricted status clause is a known finding (F9)."),
 "C18": ("keeps_newest, removes_older, touches_only_tracked for every max_keep and append/cleanup history over an abstract "
         "file system; correspondence with real directories.", "Lean 4 invariant proofs over histories + differential correspondence", "§7.18",
         "Trusted: Lean kernel, standard axioms. Paths atomic, distinct mtimes, fresh appends."),
}
man = {
 "version": 1, "setup_cmd": "./bin/setup",
 "hooks": {"guard": "PAMIQ_CORE_VERIF",
           "enable": "no source hooks exist: the harness substitutes module attributes (stdlib time, threading, RLock, uvicorn, Queue, datetime, random) from outside and wraps a few public methods for observation; PAMIQ_REPO selects the tree under test (default /repo)",
           "baseline_off_cmd": "cd /repo && /venv/bin/python -m pytest -ra -q -p no:cacheprovider --timeout=900 --continue-on-collection-errors",
           "source_commits": [], "add_only": True},
 "engines": [{"name": "lean-proof+correspondence", "path": "bin/check", "serves_properties": [],
              "kind_free_text": "Lean 4 theorems about executable models (lean/Pamiq), tied to /repo on every run by a differential / trace-refinement correspondence check (harness/) with independent property monitors"}],
 "checks": [],
 "notes": "See DESIGN.md. Genuine defects found and repaired in /repo are listed in KNOWN_FINDINGS.txt as 'fixed:', open ones as 'open:' (printed as KNOWN-FINDING by the checks).",
 "not_applicable": [],
}
for p in props:
    i = p["id"]
    if i in T and (V / "harness" / "corr" / f"{i.lower()}.py").exists():
        t = T[i]
        man["checks"].append({
            "property_id": i, "quick_cmd": f"./bin/check {i} quick", "thorough_cmd": f"./bin/check {i} thorough",
            "evidence_file": f"evidence/{i}.json", "replay_cmd_template": f"./bin/check {i} --replay {{path}}",
            "engine": "lean-proof+correspondence",
            "level_claimed": {"category": "proof", "text": t[0], "design_ref": "DESIGN.md " + t[2]},
            "level_note": t[3], "technique": t[1]})
        man["engines"][0]["serves_properties"].append(i)
    else:
        man["not_applicable"].append({"property_id": i, "reason": "check still being built (planned in DESIGN.md §7); not claimed yet"})
json.dump(man, open(V / "MANIFEST.json", "w"), indent=1)
print("claimed:", [c["property_id"] for c in man["checks"]])
