#!/usr/bin/env python3
"""Print the markdown table of seeded changes (seeded/*/meta.json) for DESIGN.md §14."""
import json
from pathlib import Path
V = Path(__file__).resolve().parent.parent
print("| seeded change | breaks | needs to manifest | caught by | first missed because |")
print("|---|---|---|---|---|")
for d in sorted((V / "seeded").iterdir()):
    m = json.load(open(d / "meta.json"))
    print(f"| `{m['id']}` | {m['breaks_property']} | {m['needs_to_manifest']} | {m['caught_by']} | {m.get('initially_missed_by') or '—'} |")
