#!/usr/bin/env python3
"""Development helper: store a confirmed seeded change under seeded/<id>/ (patch.diff, demo, meta.json)."""
import json, shutil, sys
from pathlib import Path
wt, v, sid, prop, needs, caught = sys.argv[1:7]
missed = sys.argv[7] if len(sys.argv) > 7 else ""
d = Path(__file__).resolve().parent.parent / "seeded" / sid
d.mkdir(parents=True, exist_ok=True)
shutil.copy(f"{wt}/mutation_{v}.diff", d / "patch.diff")
shutil.copy(f"{wt}/demo_{v}.py", d / "demo.py")
notes = Path(f"{wt}/NOTES.md").read_text()
(d / "NOTES.md").write_text(notes)
json.dump({"id": sid, "breaks_property": prop, "variant_in_notes": v,
           "needs_to_manifest": needs,
           "confirmed": "in a scratch worktree: patch applies to /repo HEAD; existing suite still 459 passed "
                        "with the patch (PYTHONPATH=<worktree>/src pytest …); demo.py exits non-zero with "
                        "the patch and 0 without it",
           "ran": f"PAMIQ_REPO=<worktree with patch> ./bin/check <id> quick (bin/trymut)",
           "caught_by": caught, "initially_missed_by": missed,
           "written_by": "independent sub-agent given only the property text and a scratch worktree"},
          open(d / "meta.json", "w"), indent=1)
print("saved", d)
