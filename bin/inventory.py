#!/usr/bin/env python3
"""Print the inventory table of DESIGN.md §13 from the committed evidence files."""
import json, re
from pathlib import Path
V = Path(__file__).resolve().parent.parent
print("| id | Lean property module(s) | theorems (count: first names) | suites of the quick tier (evaluations in the committed evidence) |")
print("|---|---|---|---|")
for f in sorted((V / "evidence").glob("C*.json")):
    d = json.load(open(f)); c = d["coverage"]
    mods = re.findall(r"Pamiq\.[A-Za-z0-9_.]+", c["checker_cmd"].split("&&")[1])
    th = [t.split(".")[-1] for t in c["theorems"]]
    suites = ", ".join(f"{k} ({v['evaluations']})" for k, v in c["suites"].items())
    print(f"| {d['property_id']} | {', '.join(m for m in mods if m != 'driver')} | {len(th)}: {', '.join(sorted(set(th))[:8])}{' …' if len(th) > 8 else ''} | {suites} |")
